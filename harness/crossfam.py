"""C01 across class borders, and the public constructors on arguments of the wrong TYPE.

Stream `cross`: then / tensor (binary, n-ary, every calling form) between diagrams of DIFFERENT
diagram classes and type classes — monoidal.Ty, rigid.Ty, monoidal.PRO, rigid.PRO (zx, cartesian),
tensor.Dim, circuit.Ty, biclosed.Ty — in both orders, the results used again (dagger, slices, a
second tensor / composition).  `Ty.tensor` and `Ty.__getitem__` end with `self.upgrade(..)`, the
coercion to the type class of the LEFT operand (monoidal.py:126-130, 186): the property demands
that what is handed back is well-typed when read by (name, winding number) keys — PRO's generating
object `1` is not the named object 'x' — or that the request is refused.
Model: the class-free `eval tensor|then|tensorN|thenN` of the core model on the operands' own
fields (opaque boxes), whenever the library accepts; the type-class coercion itself is
`TyClass.upgrade` / `Ty.tensorAs` (Model/TyClass.lean, driver command `tyclass`): asked for every
pair of end types, compared with `a.dom @ b.dom`.

Stream `ctor`: `Diagram(dom, cod, boxes, offsets)` of every class with ONE argument of the wrong
type: offsets that are floats (integral and not), negative fractions, numeric strings, bools, numpy
ints / floats / bools, None, Fraction, Decimal, complex, objects with only `__int__` / `__index__`,
int subclasses; offset containers (tuple, numpy array, range, generator, bytes, str, None); boxes
that are not diagrams / composite diagrams / boxes of another class; dom / cod of the wrong type or
type class.  The constructor refuses, or the stored value is well-typed with offsets that are
wire counts (`operator.index`) agreeing with the layers.  Expectation for the classes whose
constructor is monoidal.Diagram.__init__ unchanged (monoidal.py:334-354): an offset that is not an
`int` instance is a TypeError (numpy integers included — `isinstance(numpy.int64(1), int)` is
False); `bool` and int subclasses are ints and go to the model's `mk?` as `int(off)`.
"""
import decimal
import fractions
import operator
import random

from common import err_class, wf_failure, ty_key
from core import tok_ty
import semfam
from semfam import SemFamily, SemEval, shape_of, shape_of_line, show_shape, spec_ty, grow


# ------------------------------------------------------------------ the plain families as SemFamily

class PlainFam(SemFamily):
    """monoidal / rigid diagrams on named types, and on PRO types of both modules."""
    rigid_ops = False

    def __init__(self, name):
        super().__init__()
        from discopy import monoidal, rigid
        from discopy.cat import Ob
        self.name = name
        self.m = rigid if name in ("rigid", "rpro") else monoidal
        self.pro = name in ("mpro", "rpro")
        if self.pro:
            self._atoms = list(self.m.PRO(1).objects)
        elif name == "rigid":
            # a named object called 1 with a winding number is NOT PRO's generating object
            self._atoms = [rigid.Ob('a'), rigid.Ob('b'), rigid.Ob('a', z=1), rigid.Ob('b', z=-1),
                           rigid.Ob('x')]
        else:
            self._atoms = [Ob('a'), Ob('b'), Ob('x')]

    def atoms(self):
        return self._atoms

    def ty(self, objs):
        return self.m.PRO(len(objs)) if self.pro else self.m.Ty(*objs)

    def id(self, objs):
        return self.m.Id(self.ty(objs))

    def diagram(self, dom, cod, boxes, offsets):
        return self.m.Diagram(dom, cod, boxes, offsets)

    def build_catalogue(self):
        m, out = self.m, []
        A = self._atoms
        shapes = [(0, 1), (1, 0), (1, 1), (1, 2), (2, 1), (2, 2), (0, 0)]
        for i, (n, k) in enumerate(shapes):
            dom = [A[(i + j) % len(A)] for j in range(n)]
            cod = [A[(i + 2 * j + 1) % len(A)] for j in range(k)]
            out.append(("%s.Box f%d %d->%d" % (self.name, i, n, k),
                        m.Box("f%d" % i, self.ty(dom), self.ty(cod))))
        out.append(("%s.Box dagger" % self.name,
                    m.Box("g", self.ty(A[:1]), self.ty(A[:2]), _dagger=True)))
        out.append(("%s.Swap" % self.name, m.Swap(self.ty(A[:1]), self.ty(A[-1:]))))
        if self.name == "rigid":
            x = m.Ty(A[0])
            out += [("rigid.Cup", m.Cup(x, x.r)), ("rigid.Cap", m.Cap(x.r, x)),
                    ("rigid.Cup l", m.Cup(x.l, x))]
        return out

    def state(self, rng, ob):
        return self.m.Box("s", self.ty([]), self.ty([ob]))


def all_cross_families():
    return [PlainFam("monoidal"), PlainFam("rigid"), PlainFam("mpro"), PlainFam("rpro")] \
        + semfam.all_families()


# type class of the types of each family (what `upgrade` of the LEFT operand coerces to)
TYCLASS = {"monoidal": "ty", "rigid": "ty", "circuit": "ty", "biclosed": "bic", "mpro": "pro",
           "rpro": "pro", "zx": "pro", "cartesian": "pro", "tensor": "dim"}


class _CrossFam:
    name, model_refusals = "cross", False


# ------------------------------------------------------------------ expectation of a coercion

def raw_ty(objs):
    """A type in the driver's token form with the names as `repr` gives them (1 is `1`)."""
    objs = list(objs)
    return " ".join([str(len(objs))] + ["%s %d" % (semfam.tok_ob_name(x), getattr(x, "z", 0) or 0)
                                        for x in objs])


def has_one(keys):
    return any(k == (1, 0) or (isinstance(k, tuple) and k and k[0] == 1 and not isinstance(k[0], bool))
               for k in keys)


def all_keys(d):
    out = ty_key(d.dom) + ty_key(d.cod)
    for b in d.boxes:
        out += ty_key(b.dom) + ty_key(b.cod)
    for left, _, right in d.layers.boxes:
        out += ty_key(left) + ty_key(right)
    return out


# ------------------------------------------------------------------ stream 1: cross-class operations

class Operand:
    __slots__ = ("d", "tok", "text", "fam")

    def __init__(self, d, tok, text, fam):
        self.d, self.tok, self.text, self.fam = d, tok, text, fam


def cross_stream(rep, drv, rng, tier, monitor_hits):
    quick = tier == "quick"
    fams = all_cross_families()
    by = {f.name: f for f in fams}
    names = [f.name for f in fams]
    ev = SemEval(_CrossFam(), lambda stream, v: None)
    pairs = []          # (case, model line, real shape | "err cls", signature tail)
    ty_pairs = []       # (case, "tyclass ..." line, real answer)
    seen = [len(monitor_hits)]

    def fresh(fam, r, depth=None, dom=None):
        dom = fam.random_atoms(r, 0, 2) if dom is None else dom
        dom, cod, boxes, offsets = grow(fam, r, dom, r.choice([0, 1, 1, 2, 3]) if depth is None
                                        else depth)
        route = r.choice(["constructor", "layerwise", "layerwise"])
        try:
            if route == "constructor":
                d = fam.diagram(fam.ty(dom), fam.ty(cod), list(boxes), list(offsets))
            else:
                scan, d = list(dom), fam.id(dom)
                for box, off in zip(boxes, offsets):
                    k = len(box.dom.objects)
                    d = d >> fam.id(scan[:off]) @ box @ fam.id(scan[off + k:])
                    scan = scan[:off] + list(box.cod.objects) + scan[off + k:]
        except Exception as exc:
            rep.count("cross_operand_refused:%s:%s" % (fam.name, err_class(exc)))
            return None
        if not boxes and r.random() < 0.5 and len(fam.catalogue()):
            d = r.choice(fam.catalogue())[1]           # a bare box
        text = "%s:%r" % (fam.name, d)
        return Operand(d, ev.mk_tok(d), text[:600], fam.name)

    def matching(fam, a, r):
        """An operand of class `fam` that starts on objects with the same KEYS as `a` ends on,
        where the class can name them (rigid.Ty(1, 1) for PRO(2), Dim(2) for Ty(2) ...)."""
        from discopy import rigid, monoidal
        keys = ty_key(a.d.cod)
        try:
            if fam.name in ("monoidal", "rigid"):
                objs = [fam.m.Ob(n, z) if fam.name == "rigid" else monoidal.Ob(n)
                        for n, z in keys]
                if fam.name == "monoidal" and any(z for _, z in keys):
                    return None
            elif fam.name in ("mpro", "rpro", "zx", "cartesian"):
                if any(k != (1, 0) for k in keys):
                    return None
                objs = list(fam.ty([None] * len(keys)).objects)
            elif fam.name == "tensor":
                if not all(isinstance(n, int) and n > 1 and z == 0 for n, z in keys):
                    return None
                objs = list(fam.tn.Dim(*[n for n, _ in keys]).objects)
            else:
                return None
        except Exception:
            return None
        return fresh(fam, r, depth=r.choice([0, 1, 2]), dom=objs)

    def check(op, case, out, operands):
        rep.count("cross_op:" + op)
        classes = "x".join(o.fam for o in operands)
        why = wf_failure(out)
        if why is not None:
            region = known_region(op, operands)
            rep.fail("illtyped_result:cross:" + (region or "%s:%s" % (op.split(":")[0], classes)), case,
                     "%s; handed back %r : %r -> %r boxes=%r offsets=%r" % (
                         why, type(out).__module__, out.dom, out.cod, out.boxes, out.offsets))
        for hwhy, what in monitor_hits[seen[0]:]:
            region = known_region(op, operands)
            rep.fail("illtyped_intermediate:cross:" + (region or "%s:%s" % (op.split(":")[0], classes)),
                     case, hwhy + " in " + what)
        seen[0] = len(monitor_hits)
        return why

    def known_region(op, operands):
        """The region of finding F5c01a: an operand on the left whose types are tensor.Dim, and
        an object named 1 somewhere to its right (Dim.upgrade drops it, tensor.py:45-50)."""
        if op == "then":
            # finding F5c01b: cartesian.Diagram.upgrade / __init__ (cartesian.py:174-182) coerce dom
            # and cod to PRO(len(..)) whatever the objects are; a composition whose receiver is a
            # cartesian diagram and whose argument has a wire that is not PRO's `1`
            if type(operands[0].d).__module__ == "discopy.cartesian" and any(
                    k != (1, 0) for p in operands[1:] for k in all_keys(p.d)):
                return "cartesian_receiver_of_named_wires"
            return None
        if not op.startswith("tensor"):
            return None
        for i, o in enumerate(operands[:-1]):
            if type(o.d.dom).__name__ == "Dim" and any(has_one(all_keys(p.d)) for p in operands[i + 1:]):
                return "dim_left_of_object_1"
        return None

    def request(op, form, recv, args, r, case_extra=None):
        """One request on the real code and its class-free model line."""
        operands = [recv] + list(args)
        ds = [a.d for a in args]
        meth = "tensor" if op == "tensor" else "then"
        text = {"op": "(%s %s %s)" % (recv.text, "@" if op == "tensor" else ">>",
                                     args[0].text if args else ""),
                "rop": "(%s << %s)" % (args[0].text if args else "", recv.text),
                "method": "%s.%s(%s)" % (recv.text, meth, ", ".join(a.text for a in args)),
                "class": "type(%s).%s(..., %s)" % (recv.text, meth,
                                                  ", ".join(a.text for a in args))}[form]
        case = dict(stream="cross", op=op, form=form, classes=[o.fam for o in operands],
                    expr=text[:3000], **(case_extra or {}))
        seen[0] = len(monitor_hits)
        try:
            if form == "op":
                out = recv.d @ ds[0] if op == "tensor" else recv.d >> ds[0]
            elif form == "rop":
                out = ds[0] << recv.d
            elif form == "method":
                out = getattr(recv.d, meth)(*ds)
            else:
                out = getattr(type(recv.d), meth)(recv.d, *ds)
        except Exception as exc:
            cls = err_class(exc)
            rep.count("cross_refused:%s:%s:%s" % (op, "x".join(o.fam for o in operands[:2]), cls))
            seen[0] = len(monitor_hits)
            if cls.startswith("exc:") or cls in ("recursion",):
                rep.count("cross_refused_other:" + cls)
            return None
        if not (hasattr(out, "layers") and hasattr(out, "offsets")):
            rep.count("cross_not_a_diagram:" + type(out).__name__)
            return None
        tag = "%s:%s" % (op, "x".join(o.fam for o in operands[:2]))
        rep.count("cross_accepted:" + tag)
        why = check(op, case, out, operands)
        if op == "then":          # "ill-typed requests are refused"
            scan, prev = ty_key(recv.d.cod), recv.d
            for k, x in enumerate(ds):
                if ty_key(x.dom) != scan and prev.cod != x.dom:
                    rep.fail("illtyped_request_accepted:cross:then", case,
                             "accepted although argument %d starts on %r and what comes before "
                             "it ends on %r; handed back %r -> %r" % (k, x.dom, prev.cod, out.dom,
                                                                       out.cod))
                    break
                scan, prev = ty_key(x.cod), x
        else:
            want_dom = sum([ty_key(o.d.dom) for o in operands], [])
            want_cod = sum([ty_key(o.d.cod) for o in operands], [])
            if ty_key(out.dom) != want_dom or ty_key(out.cod) != want_cod:
                rep.count("cross_tensor_ends_coerced:" + tag)       # not C01's business by itself
        tok = "%sN %s %s" % (meth, recv.tok, " ".join([str(len(args))] + [a.tok for a in args]))
        if why is None and known_region(op, operands) is None:
            try:
                pairs.append((case, "eval " + tok, shape_of(out), tag))
            except Exception as exc:
                rep.fail("unreadable_result:cross:" + op, case, repr(exc)[:300])
                return None
            return Operand(out, ev.mk_tok(out), text[:900], "+".join(sorted(set(
                f for o in operands for f in o.fam.split("+")))))
        return None

    def ty_request(fa, ta, fb, tb):
        """`ta @ tb` and `(ta @ tb)[i:j]` of two types of different classes against Model/TyClass."""
        c = {"PRO": "pro", "Dim": "dim"}.get(type(ta).__name__, "ty")     # the class of the object
        if type(ta).__module__ == "discopy.biclosed" or TYCLASS[fa] == "bic":
            return
        case = dict(stream="cross", op="ty_tensor", classes=[fa, fb], expr="%r @ %r" % (ta, tb))
        try:
            out = ta @ tb
            real = "ok " + raw_ty(out.objects)
        except Exception as exc:
            out, real = None, "err " + err_class(exc)
        line = "tyclass tensor %s %s %s" % (c, raw_ty(ta.objects), raw_ty(tb.objects))
        ty_pairs.append((case, line, real))
        rep.count("cross_ty:%sx%s:%s" % (fa, fb, real.split(" ")[0 if out is not None else 1]))
        if out is not None and ty_key(out) != ty_key(ta) + ty_key(tb):
            if c == "dim" and has_one(ty_key(tb)):
                rep.count("cross_ty:known_region:dim_left_of_object_1")
            else:
                rep.fail("type_coercion_changed_objects:%s" % c, case,
                         "%r @ %r handed back %r: objects %r, expected %r" % (
                             ta, tb, out, ty_key(out), ty_key(ta) + ty_key(tb)))

    # ---- systematic: every ordered pair of classes x operation x calling form
    order = [(a, b) for a in names for b in names if a != b]
    rounds = 1 if quick else 12
    for rnd in range(rounds):
        for fa, fb in order:
            r = random.Random(rng.getrandbits(64))
            a, b = fresh(by[fa], r), fresh(by[fb], r)
            if a is None or b is None:
                continue
            try:
                ty_request(fa, a.d.cod if r.random() < 0.5 else a.d.dom, fb,
                           b.d.dom if r.random() < 0.5 else b.d.cod)
                if not len(a.d.dom) + len(b.d.dom):       # make sure non-empty types meet too
                    ty_request(fa, by[fa].ty(by[fa].random_atoms(r, 1, 2)), fb,
                               by[fb].ty(by[fb].random_atoms(r, 1, 2)))
                pool = []
                out = request("tensor", r.choice(["op", "op", "method", "class"]), a, [b], r)
                if out is not None:
                    pool.append(out)
                c = fresh(by[r.choice(names)], r)
                if c is not None:
                    out = request("tensor", r.choice(["method", "class"]), a, [b, c], r)
                    if out is not None:
                        pool.append(out)
                # composition: an operand of the other class that starts where `a` ends (same keys)
                b2 = matching(by[fb], a, r)
                if b2 is not None:
                    rep.count("cross_then_matching:%sx%s" % (fa, fb))
                    out = request("then", r.choice(["op", "method", "class", "rop"]), a, [b2], r)
                    if out is not None:
                        pool.append(out)
                    b3 = matching(by[r.choice(names)], b2, r)
                    if b3 is not None:
                        request("then", r.choice(["method", "class"]), a, [b2, b3], r)
                request("then", r.choice(["op", "method"]), a, [b], r)          # mostly ill-typed
                # the results are used again: second use of the same object, dagger, slices
                for v in list(pool):
                    other = fresh(by[r.choice(names)], r)
                    if other is not None:
                        if r.random() < 0.5:
                            request("tensor", "op", v, [other], r)
                        else:
                            request("tensor", "op", other, [v], r)
                    request("tensor", "op", v, [v], r)
                    n = len(v.d.boxes)
                    for what, thunk in (("dagger", lambda: v.d[::-1]),
                                        ("slice", lambda: v.d[r.randint(0, n):]),
                                        ("slice", lambda: v.d[:r.randint(0, n)]),
                                        ("getitem", lambda: v.d[r.randrange(n)] if n else v.d),
                                        ("then_dagger", lambda: v.d >> v.d[::-1]),
                                        ("interchange", lambda: v.d.interchange(0, 1) if n > 1 else v.d),
                                        ("normal_form", lambda: v.d.normal_form() if n < 6 else v.d)):
                        case = dict(stream="cross", op=what, classes=v.fam.split("+"),
                                    expr="%s of %s" % (what, v.text))
                        try:
                            res = thunk()
                        except Exception as exc:
                            rep.count("cross_refused:%s:%s" % (what, err_class(exc)))
                            seen[0] = len(monitor_hits)
                            continue
                        check(what, case, res, [v])
            except Exception:
                import traceback
                rep.fail("unexpected_exception:cross", dict(stream="cross", classes=[fa, fb],
                                                            a=a.text, b=b.text),
                         traceback.format_exc()[-700:])
    # ---- model correspondence
    answers = drv.ask_many([p[1] for p in pairs]) if pairs else []
    for (case, line, real, tag), ans in zip(pairs, answers):
        try:
            model = shape_of_line(ans)
        except Exception as exc:
            model = "unparsable driver answer (%r): %s" % (exc, ans[:200])
        rep.case("cross " + line, len(real[2]) >= 2)
        if real != model:
            rep.disagree("cross:" + tag, case, show_shape(real)[:700], show_shape(model)[:700])
    answers = drv.ask_many([p[1] for p in ty_pairs]) if ty_pairs else []
    for (case, line, real), ans in zip(ty_pairs, answers):
        rep.case("cross " + line, True)
        if real != ans:
            rep.disagree("cross:tyclass", case, real[:400], ans[:400])
    return dict(cross_requests_compared=len(pairs), cross_type_requests=len(ty_pairs))


# ------------------------------------------------------------------ stream 2: constructor argument types

class OnlyInt:
    def __init__(self, v):
        self.v = v

    def __int__(self):
        return self.v

    def __repr__(self):
        return "OnlyInt(%d)" % self.v


class OnlyIndex:
    def __init__(self, v):
        self.v = v

    def __index__(self):
        return self.v

    def __repr__(self):
        return "OnlyIndex(%d)" % self.v


class SubInt(int):
    def __repr__(self):
        return "SubInt(%d)" % int(self)


def offset_variants(off):
    """(label, value) — the same place in the diagram named by a value of another type."""
    import numpy
    F, D = fractions.Fraction, decimal.Decimal
    out = [("float_integral", float(off)), ("float_frac_0.9", off + 0.9), ("float_frac_0.5", off + 0.5),
           ("float_frac_0.1", off + 0.1), ("float_neg_frac", -0.5), ("float_neg_small", -0.01),
           ("float_neg_zero", -0.0), ("float_below", off - 0.5), ("float_nan", float("nan")),
           ("float_inf", float("inf")),
           ("str", str(off)), ("str_spaces", " %d " % off), ("str_float", "%d.0" % off),
           ("bytes", b"%d" % off), ("bool", off == 1), ("bool_true", True), ("bool_false", False),
           ("np_int64", numpy.int64(off)), ("np_int32", numpy.int32(off)), ("np_uint8", numpy.uint8(off)),
           ("np_float64", numpy.float64(off)), ("np_float64_frac", numpy.float64(off + 0.9)),
           ("np_float32_neg", numpy.float32(-0.5)), ("np_bool", numpy.bool_(off == 1)),
           ("np_0d_array", numpy.array(off)), ("np_1d_array", numpy.array([off])),
           ("none", None), ("fraction_integral", F(off)), ("fraction_half", F(2 * off + 1, 2)),
           ("fraction_neg", F(-1, 2)), ("decimal_integral", D(off)), ("decimal_frac", D(off) + D("0.9")),
           ("complex", complex(off)), ("list", [off]), ("tuple", (off,)),
           ("only_int", OnlyInt(off)), ("only_index", OnlyIndex(off)), ("int_subclass", SubInt(off))]
    return out


def container_variants(offsets):
    import numpy
    return [("tuple", tuple(offsets)), ("np_array", numpy.array(offsets, dtype=int)),
            ("np_float_array", numpy.array(offsets, dtype=float)), ("range_like", range(len(offsets))),
            ("generator", (o for o in offsets)), ("iter", iter(list(offsets))),
            ("bytes", bytes(offsets)), ("str", "".join(str(o) for o in offsets)),
            ("none", None), ("dict", {o: o for o in offsets}), ("floats", [float(o) for o in offsets]),
            ("strs", [str(o) for o in offsets]), ("np_ints", [numpy.int64(o) for o in offsets]),
            ("bools", [bool(o) for o in offsets])]


def ctor_stream(rep, drv, rng, tier, monitor_hits):
    quick = tier == "quick"
    fams = all_cross_families()
    by = {f.name: f for f in fams}
    ev = SemEval(_CrossFam(), lambda stream, v: None)
    pairs = []
    from discopy import monoidal, rigid, cat
    # classes whose constructor is monoidal.Diagram.__init__ with the arguments passed on unchanged
    generic = {"monoidal", "rigid", "mpro", "rpro", "zx", "tensor", "circuit", "biclosed"}

    def expectation(fam, dom, cod, boxes, offsets):
        """What monoidal.py:334-354 does with argument TYPES (None = no expectation stated)."""
        if fam.name not in generic:
            return None
        try:
            if not isinstance(dom, monoidal.Ty) or not isinstance(cod, monoidal.Ty):
                return "err type"
            try:
                if len(boxes) != len(offsets):
                    return "err value"
            except TypeError:
                return "err type"
            offs = []
            for box, off in zip(boxes, offsets):
                if not isinstance(box, monoidal.Diagram) or not isinstance(off, int):
                    # everything before is well-typed in the generated cases: this is the first refusal
                    return ("err type", len(offs))
                offs.append(int(off))
            return ("mk", offs)
        except Exception:
            return None

    def attempt(fam, label, dom, cod, boxes, offsets, tok_fields, r, raw=None):
        """One constructor call; `tok_fields` = (dom objs, cod objs, boxes, offsets) for the model
        when the arguments denote a diagram for it (else None)."""
        try:
            text = "%s.Diagram(%r, %r, %r, %r)" % (fam.name, dom, cod, boxes, offsets)
        except Exception:
            text = "%s.Diagram(<%s>)" % (fam.name, label)
        case = dict(stream="ctor", family=fam.name, variant=label, expr=text[:2500])
        exp = expectation(fam, dom, cod, boxes, offsets)
        before = len(monitor_hits)
        try:
            d = raw() if raw is not None else fam.diagram(dom, cod, boxes, offsets)
            real = "ok"
        except Exception as exc:
            d, real = None, "err " + err_class(exc)
        rep.count("ctor:%s:%s" % (label.split("@")[0], real))
        rep.count("ctor_family:%s:%s" % (fam.name, real.split(" ")[0]))
        if d is None:
            del monitor_hits[before:]
            if isinstance(exp, tuple) and exp[0] == "err type" and real != "err type" and \
                    not (real == "err axiom" and exp[1] > 0):
                rep.disagree("ctor:refusal_class", case, real, "err type")
            elif exp == "err type" and real != "err type":
                rep.disagree("ctor:refusal_class", case, real, "err type")
            elif isinstance(exp, tuple) and exp[0] == "mk" and tok_fields is not None \
                    and fam.name != "biclosed":     # biclosed: Over / Under `==` is not symmetric
                dm, cd, bx, _ = tok_fields
                pairs.append((case, "eval " + ev.mk_tok_fields(dm, cd, bx, exp[1]), real))
            return None
        # ---- accepted: the property
        why = None
        try:
            layers = list(d.layers.boxes)
            for k, off in enumerate(d.offsets):
                try:
                    n = operator.index(off)
                except TypeError:
                    why = "box %d sits at offset %r (%s), which is not a number of wires; its " \
                          "layer has %d wires on the left" % (k, off, type(off).__name__,
                                                              len(tuple(layers[k])[0]))
                    break
                if k < len(layers) and n != len(tuple(layers[k])[0]):
                    why = "box %d at offset %r but its layer has %d wires on the left" % (
                        k, off, len(tuple(layers[k])[0]))
                    break
        except Exception as exc:
            why = "unreadable: %r" % (exc,)
        if why is None and all(isinstance(o, int) for o in d.offsets):
            why = wf_failure(d)
        elif why is None:       # index-like offsets (none on the unchanged code): read by index
            rep.count("ctor_accepted_index_like:" + label.split("@")[0])
        if why is not None:
            sig = label.split("@")[0].split(":")[0]
            if type(d.dom).__name__ == "Dim" and label.startswith("box:foreign") and any(
                    has_one(ty_key(b.dom) + ty_key(b.cod)) for b in boxes):
                sig = "dim_left_of_object_1"          # finding F5c01a through the constructor
            rep.fail("illtyped_result:ctor:%s" % sig, case,
                     "%s; handed back %r : %r -> %r offsets=%r" % (why, type(d).__name__, d.dom,
                                                                   d.cod, d.offsets))
        for hwhy, what in monitor_hits[before:]:
            if why is None and all(isinstance(o, int) for o in d.offsets):
                rep.fail("illtyped_intermediate:ctor", case, hwhy + " in " + what)
        del monitor_hits[before:]
        if isinstance(exp, tuple) and exp[0] == "err type" or exp == "err type":
            rep.disagree("ctor:accepted_wrong_type", case, "ok offsets=%r" % (d.offsets,), "err type")
        elif why is None and isinstance(exp, tuple) and tok_fields is not None:
            dm, cd, bx, _ = tok_fields
            try:
                pairs.append((case, "eval " + ev.mk_tok_fields(dm, cd, bx, exp[1]), shape_of(d)))
            except Exception as exc:
                rep.fail("unreadable_result:ctor", case, repr(exc)[:300])
        # ---- and what is built from it afterwards
        if why is None and all(isinstance(o, int) for o in d.offsets):
            n = len(d.boxes)
            for what, thunk in (("tensor", lambda: d @ d), ("dagger", lambda: d[::-1]),
                                ("then_dagger", lambda: d >> d[::-1]),
                                ("slice", lambda: d[r.randint(0, n):]),
                                ("getitem", lambda: d[n - 1] if n else d),
                                ("id_tensor", lambda: fam.id(list(d.dom.objects)) @ d)):
                b4 = len(monitor_hits)
                try:
                    res = thunk()
                except Exception as exc:
                    rep.count("ctor_after_refused:%s:%s" % (what, err_class(exc)))
                    del monitor_hits[b4:]
                    continue
                w2 = wf_failure(res) if all(isinstance(o, int) for o in res.offsets) else None
                if w2 is not None:
                    rep.fail("illtyped_result:ctor_then_" + what, dict(case, after=what), w2)
                del monitor_hits[b4:]
        return d

    n_rounds = 2 if quick else 40
    for rnd in range(n_rounds):
        for fam in fams:
            r = random.Random(rng.getrandbits(64))
            try:
                for _ in range(20):
                    dom, cod, boxes, offsets = grow(fam, r, fam.random_atoms(r, 1, 3), r.choice([1, 2, 3]))
                    if boxes:
                        break
                else:
                    continue
                tdom, tcod = fam.ty(dom), fam.ty(cod)
                fields = (dom, cod, boxes, offsets)
                if attempt(fam, "control", tdom, tcod, list(boxes), list(offsets), fields, r) is None:
                    rep.count("ctor_control_refused:" + fam.name)      # biclosed: == is not symmetric
                    continue
                # -- one offset of another type (every variant at a random position; quick: position
                #    rotates with the round)
                variants = offset_variants(0)
                for vi in range(len(variants)):
                    k = r.randrange(len(offsets))
                    label, val = offset_variants(offsets[k])[vi]
                    offs = list(offsets)
                    offs[k] = val
                    attempt(fam, "offset:%s@%d" % (label, k), tdom, tcod, list(boxes), offs,
                            fields, r)
                # -- the container of the offsets
                for label, val in container_variants(offsets):
                    attempt(fam, "offsets_as:" + label, tdom, tcod, list(boxes), val, fields, r)
                # -- boxes
                k = r.randrange(len(boxes))
                other = by[r.choice([n for n in by if n != fam.name])]
                foreign = r.choice(other.catalogue())[1]
                composite = None
                try:
                    composite = boxes[k] >> fam.id(list(boxes[k].cod.objects))
                    if r.random() < 0.5 and len(boxes[k].cod.objects) == len(boxes[k].dom.objects):
                        composite = boxes[k] >> boxes[k][::-1] >> boxes[k]
                except Exception:
                    pass
                for label, val in (("none", None), ("str", "f"), ("ty", tdom), ("int", 0),
                                   ("cat_box", cat.Box("f", cat.Ob("a"), cat.Ob("a"))),
                                   ("tuple_of_box", (boxes[k],)), ("class", type(boxes[k])),
                                   ("foreign:" + other.name, foreign),
                                   ("composite", composite),
                                   ("identity", fam.id(list(boxes[k].dom.objects))
                                    if list(boxes[k].dom.objects) == list(boxes[k].cod.objects) else None)):
                    if val is None and label != "none":
                        continue
                    bs = list(boxes)
                    bs[k] = val
                    ok_model = (
                        label.startswith("foreign") and
                        (ty_key(val.dom), ty_key(val.cod)) == (ty_key(boxes[k].dom), ty_key(boxes[k].cod)))
                    attempt(fam, "box:%s@%d" % (label, k), tdom, tcod, bs, list(offsets),
                            (dom, cod, bs, offsets) if ok_model else None, r)
                for label, val in (("tuple", tuple(boxes)), ("generator", (b for b in boxes)),
                                   ("none", None), ("dict", dict(enumerate(boxes)))):
                    attempt(fam, "boxes_as:" + label, tdom, tcod, val, list(offsets),
                            fields if label == "tuple" else None, r)
                # -- dom / cod: wrong Python types, and types of another type CLASS on the same keys
                if fam.name != "cartesian":
                    import numpy
                    for which in ("dom", "cod"):
                        t = tdom if which == "dom" else tcod
                        objs = list(t.objects)
                        for label, val in (("none", None), ("str", "x"), ("list", objs),
                                           ("tuple", tuple(objs)), ("int", len(objs)),
                                           ("np_int", numpy.int64(len(objs))),
                                           ("diagram", fam.id(objs)), ("ob", cat.Ob("x")),
                                           ("monoidal_ty", monoidal.Ty(*[monoidal.Ob(o.name) for o in objs])
                                            if all(getattr(o, "z", 0) == 0 for o in objs) else None),
                                           ("rigid_ty", rigid.Ty(*[rigid.Ob(o.name, getattr(o, "z", 0))
                                                                   for o in objs])),
                                           ("shorter", t[1:] if objs else None),
                                           ("other_class", other.ty(other.random_atoms(r, len(objs), len(objs))))):
                            if val is None and label != "none":
                                continue
                            args = dict(dom=tdom, cod=tcod)
                            args[which] = val
                            same = label in ("monoidal_ty", "rigid_ty") and fam.name != "biclosed"
                            attempt(fam, "%s:%s" % (which, label), args["dom"], args["cod"],
                                    list(boxes), list(offsets), fields if same else None, r)
                else:
                    import numpy
                    for label, val in (("none", None), ("str", "1"), ("float", float(len(dom))),
                                       ("float_frac", len(dom) + 0.5), ("bool", True),
                                       ("np_int", numpy.int64(len(dom))), ("neg", -1),
                                       ("pro", tdom), ("named_ty", rigid.Ty(*["x"] * len(dom)))):
                        attempt(fam, "dom:cartesian_" + label, val, tcod, list(boxes),
                                list(offsets), None, r, raw=lambda: fam.ca.Diagram(
                                    val, len(cod), list(boxes), list(offsets)))
            except Exception:
                import traceback
                rep.fail("unexpected_exception:ctor", dict(stream="ctor", family=fam.name),
                         traceback.format_exc()[-700:])
    answers = drv.ask_many([p[1] for p in pairs]) if pairs else []
    for (case, line, real), ans in zip(pairs, answers):
        try:
            model = shape_of_line(ans)
        except Exception as exc:
            model = "unparsable driver answer (%r): %s" % (exc, ans[:200])
        rep.case("ctor " + case["variant"] + " " + line, not isinstance(real, str) and len(real[2]) >= 2)
        if real != model:
            rep.disagree("ctor:" + case["variant"].split("@")[0], case, show_shape(real)[:700],
                         show_shape(model)[:700])
    return dict(ctor_requests_compared=len(pairs))


def run_streams(rep, drv, rng, tier, monitor_hits):
    out = {}
    out.update(cross_stream(rep, drv, random.Random(rng.getrandbits(64)), tier, monitor_hits))
    out.update(ctor_stream(rep, drv, random.Random(rng.getrandbits(64)), tier, monitor_hits))
    return out
