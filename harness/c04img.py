"""C04 — functors whose box images are NOT plain diagrams: formal sums (0, 1, 2+ terms), bubbles,
bare boxes of special classes (Swap / Cup / Cap as the image of a generic box), identities
(`Id(t)`, `Id(Ty())`), diagrams that contain a Sum box; source diagrams that contain Sum / Bubble
boxes.  Spec language, generator, real-code evaluation, token form for the Lean driver
(`functorimg`, Driver/FunctorCmd.lean) and an INDEPENDENT reference for the expected image:

    the image of a diagram is the composite of its whiskered box images, and `>>`, `@` distribute
    over formal sums: the terms of F(d) are all the choices of one term per box occurrence, the
    first box varying slowest (the order `cat.Sum.then` / `monoidal.Sum.tensor` produce), each term
    the boxes of the chosen terms one after the other with offsets shifted by the length of the
    image of the wires on the left.

The reference works on the specs (lists of (name, z) pairs, offsets as ints): it calls neither
`Functor.__call__` nor `>>` / `@` on sums.

Image spec:
    ("plain", expr)                       expr: a `core` expression (mk / box / id)
    ("sum", [expr, ...], dom, cod, how)   how: "ctor" Sum(terms, dom, cod) | "add" t0 + t1 + ...
    ("bubble", expr, dom, cod)            expr.bubble(dom=dom, cod=cod)          (not in the model)
    ("sumbox", [expr, ...], dom, cod, tail)  Diagram(dom, cod, [Sum(terms)] + tail boxes)  (not in the model)
Source box specs: the `core` kinds g / s / u / a, plus
    dict(kind="S", terms=[mk...], dom, cod)   a formal sum used as a box of the diagram
    dict(kind="B", inside=mk, dom, cod)       a bubble used as a box of the diagram
"""
from common import ty_key, tokname, err_class
from core import Gen, tok_expr, tok_ty, tok_box, ty_l, ty_r, adj

TARGET = ["p", "q", "r"]
MAX_TERMS = 12            # bound on the number of terms of an expected image (products of sums)


def img_ty(obmap, t):
    """Independent computation of the image of a type spec."""
    out = []
    for name, z in t:
        cur = list(obmap[name])
        for _ in range(abs(z)):
            cur = ty_l(cur) if z < 0 else ty_r(cur)
        out += cur
    return out


def is_adjoint_pair(x, y):
    return x[0] == y[0] and abs(x[1] - y[1]) == 1


# ------------------------------------------------------------------ generators

class ShapedGen(Gen):
    """`core.Gen` whose generic boxes are more often endomorphisms / swap- / cup- / cap-shaped, so
    that identities and bare Swap / Cup / Cap boxes are well-typed images for them."""

    def gbox(self, dom, cod=None):
        b = Gen.gbox(self, dom, cod)
        if cod is None:
            u = self.rng.random()
            if u < 0.25:
                b["cod"] = list(dom)
            elif u < 0.37 and len(dom) == 2:
                b["cod"] = [dom[1], dom[0]]
            elif u < 0.47 and self.rigid and len(dom) == 0:
                x = self.ob()
                b["cod"] = [x, adj(x, -1)] if self.rng.random() < 0.5 else [x, adj(x, 1)]
            elif u < 0.60 and self.rigid and len(dom) == 2 and is_adjoint_pair(*dom):
                b["cod"] = []
        return b


def base_of(b):
    """The undaggered generator a box map is asked for (cat.py:842-844)."""
    if b["dagger"]:
        return dict(b, dom=b["cod"], cod=b["dom"], dagger=False)
    return dict(b)


def fresh_box(name, dom, cod):
    return dict(kind="g", name=name, dom=list(dom), cod=list(cod), dagger=False, data=None)


def plain_image(tg, r, dom, cod, depth=None):
    """A well-typed `mk` expression dom -> cod over the target names."""
    e, _ = tg.grow(dom, r.choice([0, 1, 1, 2, 3]) if depth is None else depth)
    _, _, cur, bs, os = e
    if cur != list(cod) or r.random() < 0.3:
        bs = bs + [fresh_box("h%d" % r.randint(0, 3), cur, cod)]
        os = os + [0]
    return ("mk", list(dom), list(cod), bs, os)


def special_kinds(dom, cod, rigid):
    """Which bare special boxes / identities are well-typed images dom -> cod."""
    out = []
    if dom == cod:
        out.append("id")
    if len(dom) == 2 and cod == [dom[1], dom[0]]:
        out.append("swap")
    if rigid and len(dom) == 2 and not cod and is_adjoint_pair(*dom):
        out.append("cup")
    if rigid and len(cod) == 2 and not dom and is_adjoint_pair(*cod):
        out.append("cap")
    return out


def gen_image(tg, r, dom, cod, kind, rigid):
    if kind == "plain":
        return ("plain", plain_image(tg, r, dom, cod))
    if kind == "bare":
        return ("plain", ("box", fresh_box("h%d" % r.randint(0, 3), dom, cod)))
    if kind == "id":
        return ("plain", ("id", list(dom)))
    if kind in ("swap", "cup", "cap"):
        k = dict(swap="s", cup="u", cap="a")[kind]
        return ("plain", ("box", dict(kind=k, name=None, dom=list(dom), cod=list(cod),
                                      dagger=False, data=None)))
    if kind.startswith("sum") and kind != "sumbox":
        n = int(kind[3:])
        terms = []
        for k in range(n):
            if k and r.random() < 0.2:
                terms.append(terms[0])
            elif r.random() < 0.15 and special_kinds(dom, cod, rigid):
                terms.append(gen_image(tg, r, dom, cod, r.choice(special_kinds(dom, cod, rigid)),
                                       rigid)[1])
            else:
                terms.append(plain_image(tg, r, dom, cod, depth=r.choice([0, 1, 1, 2])))
        return ("sum", terms, list(dom), list(cod), "add" if n >= 2 and r.random() < 0.5 else "ctor")
    if kind == "bubble":
        if r.random() < 0.5:
            return ("bubble", plain_image(tg, r, dom, cod, depth=r.choice([0, 1, 2])),
                    list(dom), list(cod))
        d2, c2 = tg.ty(0, 2), tg.ty(0, 2)
        return ("bubble", plain_image(tg, r, d2, c2, depth=r.choice([0, 1])), list(dom), list(cod))
    if kind == "sumbox":
        n = r.choice([0, 1, 2, 2])
        terms = [plain_image(tg, r, dom, cod, depth=r.choice([0, 1])) for _ in range(n)]
        tail = plain_image(tg, r, cod, cod, depth=r.choice([0, 1])) if r.random() < 0.5 else None
        return ("sumbox", terms, list(dom), list(cod), tail)
    raise ValueError(kind)


def n_terms(img):
    return len(img[1]) if img[0] == "sum" else 1


KIND_WEIGHTS = [("plain", 5), ("sum0", 2), ("sum1", 3), ("sum2", 6), ("sum3", 2), ("bare", 2),
                ("bubble", 2), ("sumbox", 2)]


def gen_case(r, rigid, malformed=False, max_terms=MAX_TERMS):
    """One functor with non-plain images and the diagrams the laws are evaluated on.
    Returns a dict of specs (everything the replay needs)."""
    g = ShapedGen(r, rigid=rigid, maxw=5)
    tg = Gen(r, rigid=rigid, maxw=6, names=TARGET)
    e, scans = g.diagram(depth=r.choice([1, 1, 2, 2, 3, 3, 4, 5]))
    e2, _ = g.diagram(depth=r.choice([0, 1, 1, 2]))
    eb, _ = g.diagram(dom=scans[-1], depth=r.choice([0, 1, 1, 2]))
    edd = g.grow(scans[0], r.choice([0, 1, 2]))[0]
    if edd[2] != e[2]:
        edd = ("mk", edd[1], e[2], edd[3] + [g.gbox(edd[2], e[2])], edd[4] + [0])
    obmap = {}
    for n in ["a", "b", "c", "d"]:
        k = r.choice([0, 0, 1, 1, 1, 1, 2, 2, 3])
        obmap[n] = tg.ty(k, k)
    # source Sum / Bubble boxes: replace one undaggered generic box of `e`
    src_special = None
    cands = [i for i, b in enumerate(e[3]) if b["kind"] == "g" and not b["dagger"]]
    if cands and r.random() < 0.25:
        i = r.choice(cands)
        b = e[3][i]
        if r.random() < 0.6:
            nt = r.choice([0, 1, 2, 2, 3])
            terms = []
            for k in range(nt):
                if r.random() < 0.5:
                    mid = g.ty(0, 2)
                    terms.append(("mk", list(b["dom"]), list(b["cod"]),
                                  [fresh_box("k%d" % r.randint(0, 3), b["dom"], mid),
                                   fresh_box("k%d" % r.randint(4, 6), mid, b["cod"])], [0, 0]))
                else:
                    terms.append(("mk", list(b["dom"]), list(b["cod"]),
                                  [fresh_box("k%d" % r.randint(0, 3), b["dom"], b["cod"])], [0]))
            nb = dict(kind="S", terms=terms, dom=list(b["dom"]), cod=list(b["cod"]))
        else:
            if r.random() < 0.5:
                ins = ("mk", list(b["dom"]), list(b["cod"]),
                       [fresh_box("k%d" % r.randint(0, 3), b["dom"], b["cod"])], [0])
            else:
                d2, c2 = g.ty(0, 2), g.ty(0, 2)
                ins = ("mk", d2, c2, [fresh_box("k%d" % r.randint(0, 3), d2, c2)], [0])
            nb = dict(kind="B", inside=ins, dom=list(b["dom"]), cod=list(b["cod"]))
        boxes = list(e[3])
        boxes[i] = nb
        e = ("mk", e[1], e[2], boxes, e[4])
        src_special = nb["kind"]
    # every generic box met anywhere (also inside source sums / bubbles)
    allboxes = []

    def collect(bs):
        for b in bs:
            if b["kind"] == "g":
                allboxes.append(b)
            elif b["kind"] == "S":
                for t in b["terms"]:
                    collect(t[3])
            elif b["kind"] == "B":
                collect(b["inside"][3])
    for x in (e, e2, eb, edd):
        collect(x[3])
    daggered = {tok_box(base_of(b)) for b in allboxes if b["dagger"]}
    occurrences = {}
    for b in e[3] + eb[3] + e2[3]:
        if b["kind"] == "g":
            occurrences[tok_box(base_of(b))] = occurrences.get(tok_box(base_of(b)), 0) + 1
    armap, seen, budget = [], set(), max_terms
    for b in allboxes:
        base = base_of(b)
        key = tok_box(base)
        if key in seen:
            continue
        seen.add(key)
        dom, cod = img_ty(obmap, base["dom"]), img_ty(obmap, base["cod"])
        inner = base["name"].startswith("k")          # boxes inside source sums / bubbles: plain images
        kinds = [k for k, w in KIND_WEIGHTS for _ in range(w)]
        sp = special_kinds(dom, cod, rigid)
        kinds += sp * 6
        kind = "plain" if inner else r.choice(kinds)
        if key in daggered and kind in ("bubble", "sumbox"):
            kind = "sum2"                            # `.dagger()` of a Bubble / Sum box: C02's business
        if kind.startswith("sum") and kind != "sumbox":
            n, occ = int(kind[3:]), occurrences.get(key, 1)
            if n >= 2 and budget // (n ** occ) < 1:
                kind = "sum1"
            elif n >= 2:
                budget //= n ** occ
        img = gen_image(tg, r, dom, cod, kind, rigid)
        if malformed and r.random() < 0.5:
            img = spoil(img, r)
        armap.append((base, img, kind))
    return dict(e=e, e2=e2, eb=eb, edd=edd, obmap=obmap, armap=armap, scans=scans,
                src_special=src_special, rigid=rigid)


def spoil(img, r):
    """An ill-typed box map: the image gets an extra output wire (every term of a sum and its
    declared codomain alike, so that the image itself can be built; it does not go to F(cod))."""
    def bad(e):
        if e[0] != "mk":
            return e
        _, dom, cod, bs, os = e
        return ("mk", dom, cod + [("p", 0)],
                bs + [fresh_box("bad", [], [("p", 0)])], os + [len(cod)])
    if img[0] == "plain":
        return ("plain", bad(img[1]))
    if img[0] == "sum" and all(t[0] == "mk" for t in img[1]):
        return ("sum", [bad(t) for t in img[1]], img[2], img[3] + [("p", 0)], img[4])
    return img


# ------------------------------------------------------------------ real code

def real_box(fam, b):
    if b["kind"] == "S":
        return fam.m.Diagram.sum([real_expr(fam, t) for t in b["terms"]],
                                 fam.ty(b["dom"]), fam.ty(b["cod"]))
    if b["kind"] == "B":
        return real_expr(fam, b["inside"]).bubble(dom=fam.ty(b["dom"]), cod=fam.ty(b["cod"]))
    return fam.box(b)


def real_expr(fam, e):
    if e[0] == "mk" and any(b["kind"] in "SB" for b in e[3]):
        _, dom, cod, boxes, offsets = e
        return fam.m.Diagram(fam.ty(dom), fam.ty(cod), [real_box(fam, b) for b in boxes],
                             list(offsets))
    return fam.run(e)


def real_img(fam, img):
    k = img[0]
    if k == "plain":
        return fam.run(img[1])
    if k == "sum":
        _, terms, dom, cod, how = img
        ts = [fam.run(t) for t in terms]
        if how == "add" and len(ts) >= 2:
            out = ts[0]
            for t in ts[1:]:
                out = out + t
            return out
        return fam.m.Diagram.sum(ts, fam.ty(dom), fam.ty(cod))
    if k == "bubble":
        return fam.run(img[1]).bubble(dom=fam.ty(img[2]), cod=fam.ty(img[3]))
    if k == "sumbox":
        _, terms, dom, cod, tail = img
        s = fam.m.Diagram.sum([fam.run(t) for t in terms], fam.ty(dom), fam.ty(cod))
        tb = fam.run(tail) if tail is not None else fam.m.Id(fam.ty(cod))
        return fam.m.Diagram(fam.ty(dom), fam.ty(cod), [s] + list(tb.boxes), [0] + list(tb.offsets))
    raise ValueError(k)


def real_functor(fam, obmap, images, style):
    """`images`: list of (real base box, real image)."""
    m = fam.m
    ob = {fam.ty([(n, 0)]): fam.ty(t) for n, t in obmap.items()}
    ar = {b: x for b, x in images}
    if style == "callable":
        return m.Functor(ob=lambda t: ob[t], ar=lambda b: ar[b])
    return m.Functor(ob=ob, ar=ar)


# ------------------------------------------------------------------ tokens (modelled part)

def modelled(case):
    return all(img[0] in ("plain", "sum") for _, img, _ in case["armap"]) and \
        all(b["kind"] in "gsua" for x in ("e", "e2", "eb", "edd") for b in case[x][3])


def tok_img(img):
    if img[0] == "plain":
        return "D " + tok_expr(img[1])
    _, terms, dom, cod, _ = img
    return "S %s %s %s" % (" ".join([str(len(terms))] + [tok_expr(t) for t in terms]),
                           tok_ty(dom), tok_ty(cod))


def tok_functor_img(obmap, armap):
    obs = sorted(obmap.items())
    return "%d %s %d %s" % (
        len(obs), " ".join("%s %s" % (tokname(n), tok_ty(t)) for n, t in obs),
        len(armap), " ".join("%s %s" % (tok_box(b), tok_img(i)) for b, i, _ in armap))


def ser_ds(fn):
    """Canonical answer of `functorimg`: `ok D <diagram>` | `ok S <dom> <cod> <n> <diagram>*`."""
    from common import ser_diagram, ser_ty, ser_list
    from discopy import cat
    try:
        v = fn()
        if isinstance(v, cat.Sum):
            return "ok S %s %s %s" % (ser_ty(v.dom), ser_ty(v.cod), ser_list(ser_diagram, v.terms))
        return "ok D " + ser_diagram(v)
    except Exception as exc:  # noqa: the class is the observation
        return "err " + err_class(exc)


# ------------------------------------------------------------------ the independent reference

class Reference:
    """Expected image of a source spec under (obmap, images), as (is_sum, [(boxes, offsets)]) with
    `boxes` real box objects taken from the images themselves (never produced by the functor)."""

    def __init__(self, fam, obmap, images):
        self.fam, self.obmap = fam, obmap
        self.images = images           # tok_box(base) -> real image

    def ty(self, t):
        return self.fam.ty(img_ty(self.obmap, t))

    def plain_terms(self, x):
        from discopy import cat
        if isinstance(x, cat.Sum):
            return True, [(list(t.boxes), [int(o) for o in t.offsets]) for t in x.terms]
        return False, [(list(x.boxes), [int(o) for o in x.offsets])]

    def occurrence(self, b):
        m = self.fam.m
        k = b["kind"]
        if k == "g":
            x = self.images[tok_box(base_of(b))]
            s, ts = self.plain_terms(x)
            if b["dagger"]:
                # the image of a daggered box is the dagger of the image, term by term
                ts = [([bx.dagger() for bx in reversed(bs)], list(reversed(os))) for bs, os in ts]
            return s, ts
        if k == "s":
            return self.plain_terms(m.Diagram.swap(self.ty(b["dom"][:1]), self.ty(b["dom"][1:])))
        if k == "u":
            return self.plain_terms(m.Diagram.cups(self.ty(b["dom"][:1]), self.ty(b["dom"][1:])))
        if k == "a":
            return self.plain_terms(m.Diagram.caps(self.ty(b["cod"][:1]), self.ty(b["cod"][1:])))
        if k == "S":
            out = []
            for t in b["terms"]:
                _, ts = self.expected(t)
                out += ts
            return True, out
        if k == "B":
            inside = self.build(b["inside"])
            return False, [([inside.bubble(dom=self.ty(b["dom"]), cod=self.ty(b["cod"]))], [0])]
        raise ValueError(k)

    def expected(self, e):
        _, dom, cod, boxes, offsets = e
        scan, is_sum, terms = list(dom), False, [([], [])]
        for b, off in zip(boxes, offsets):
            nleft = len(img_ty(self.obmap, scan[:off]))
            s, ch = self.occurrence(b)
            is_sum = is_sum or s
            terms = [(tb + cb, to + [nleft + o for o in co]) for tb, to in terms for cb, co in ch]
            scan = scan[:off] + list(b["cod"]) + scan[off + len(b["dom"]):]
        return is_sum, terms

    def build(self, e):
        """The expected image as a real value, through the scanning constructors only."""
        m = self.fam.m
        is_sum, terms = self.expected(e)
        dom, cod = self.ty(e[1]), self.ty(e[2])
        ds = [m.Diagram(dom, cod, bs, os) for bs, os in terms]
        return m.Diagram.sum(ds, dom, cod) if is_sum else ds[0]


def term_key(d):
    return (ty_key(d.dom), ty_key(d.cod), [repr(b) for b in d.boxes], [int(o) for o in d.offsets])


def structure_mismatch(actual, ref, e):
    """None if `actual` has the expected structure; else a description."""
    from discopy import cat
    is_sum, terms = ref.expected(e)
    dom, cod = img_ty(ref.obmap, e[1]), img_ty(ref.obmap, e[2])
    want = [(dom, cod, [repr(b) for b in bs], os) for bs, os in terms]
    if isinstance(actual, cat.Sum) != is_sum:
        return "expected a %s, got a %s" % ("formal sum" if is_sum else "plain diagram",
                                            type(actual).__name__)
    if ty_key(actual.dom) != dom or ty_key(actual.cod) != cod:
        return "dom/cod of the image are not the images of dom/cod"
    got = [term_key(t) for t in actual.terms] if is_sum else [term_key(actual)]
    if len(got) != len(want):
        return "expected %d terms, got %d" % (len(want), len(got))
    for i, (g, w) in enumerate(zip(got, want)):
        if tuple(g) != tuple(w):
            what = "dom/cod" if (g[0], g[1]) != (w[0], w[1]) else \
                "boxes" if g[2] != w[2] else "offsets"
            return "term %d: %s differ: got %s / %s, expected %s / %s" % (
                i, what, str(g[2])[:150], g[3], str(w[2])[:150], w[3])
    return None


# ------------------------------------------------------------------ pinned witnesses

def pinned_cases():
    """A few fixed functors next to the random ones (both families run them): one box sent to a
    two-term sum in a composite / tensor / between identity wires; the same term twice with an
    object sent to the empty type; a box sent to the empty sum and one to a one-term sum."""
    a, b, c, d = [("a", 0)], [("b", 0)], [("c", 0)], [("d", 0)]
    P, Q, R = ("p", 0), ("q", 0), ("r", 0)
    f, g, h = fresh_box("f", a, b), fresh_box("g", b, d), fresh_box("h", d, d)
    one = lambda name, dom, cod: ("mk", list(dom), list(cod), [fresh_box(name, dom, cod)], [0])
    obmap = {"a": [P, P], "b": [Q], "c": [], "d": [R]}
    e = ("mk", a, d, [f, g], [0, 0])
    eh = ("mk", d, d, [h], [0])
    out = [dict(e=e, e2=eh, eb=eh, edd=e, obmap=obmap, scans=[a, b, d], src_special=None, rigid=False,
                armap=[(f, ("sum", [one("A", [P, P], [Q]), one("B", [P, P], [Q])], [P, P], [Q], "add"),
                        "sum2"),
                       (g, ("plain", ("box", fresh_box("g1", [Q], [R]))), "bare"),
                       (h, ("plain", ("box", fresh_box("h1", [R], [R]))), "bare")])]
    u = fresh_box("u", c, c)
    e = ("mk", d + c, d + c, [u, h, u], [1, 0, 1])
    out.append(dict(e=e, e2=e, eb=eh[:1] + (d + c, d + c) + eh[3:], edd=e, obmap=obmap,
                    scans=[d + c] * 4, src_special=None, rigid=False,
                    armap=[(u, ("sum", [one("s", [], [])] * 2, [], [], "add"), "sum2"),
                           (h, ("plain", ("id", [R])), "id")]))
    e = ("mk", a, d, [f, g, h], [0, 0, 0])
    out.append(dict(e=e, e2=eh, eb=eh, edd=e, obmap=obmap, scans=[a, b, d, d], src_special=None,
                    rigid=False,
                    armap=[(f, ("sum", [one("A", [P, P], [Q])], [P, P], [Q], "ctor"), "sum1"),
                           (g, ("plain", one("g1", [Q], [R])), "plain"),
                           (h, ("sum", [], [R], [R], "ctor"), "sum0")]))
    return out


# ------------------------------------------------------------------ the stream

def flat_terms(x):
    """Terms of a formal sum with nested sums (a term that is itself a sum) flattened."""
    from discopy import cat
    out = []
    for t in x.terms:
        out += flat_terms(t) if isinstance(t, cat.Sum) else [t]
    return out


def run_image_stream(rep, drv, fams, rng, n_cases, max_terms=MAX_TERMS):
    """Functors with non-plain images: correspondence (`functorimg`, `functorimgop`) on the modelled
    part, and the laws of the property on the real code, compared with `==` AND by structure."""
    import random
    from discopy import cat
    from common import wf_failure
    todo = [(famn, case, style, False) for famn in ("monoidal", "rigid")
            for case, style in zip(pinned_cases(), ("dict", "callable", "dict"))]
    for k in range(n_cases):
        todo.append(("rigid" if k % 2 else "monoidal", None, ("dict", "callable")[(k // 2) % 2],
                     k % 12 == 11))
    for famn, case, style, malformed in todo:
        fam = fams[famn]
        if case is None:
            r = random.Random(rng.getrandbits(64))
            case = gen_case(r, famn == "rigid", malformed, max_terms)
        else:
            r = random.Random(0)
            rep.count("imgpinned")
        e, e2, eb, edd, obmap = case["e"], case["e2"], case["eb"], case["edd"], case["obmap"]
        info = dict(stream="image", family=famn, style=style, expr=repr(e), obmap=repr(obmap),
                    armap=repr([(b["name"], img) for b, img, _ in case["armap"]])[:3000],
                    then_with=repr(eb)[:600], tensor_with=repr(e2)[:600])
        try:
            images = [(fam.box(b), real_img(fam, img)) for b, img, _ in case["armap"]]
            d, d2, b_, dd = (real_expr(fam, x) for x in (e, e2, eb, edd))
        except Exception as exc:
            rep.fail("image_case_unbuildable:" + err_class(exc), info, repr(exc)[:300])
            continue
        F = real_functor(fam, obmap, images, style)
        imgspec = {tok_box(b): img for b, img, _ in case["armap"]}
        ref = Reference(fam, obmap, {tok_box(b): x for (b, _, _), (_, x) in zip(case["armap"], images)})
        used = {tok_box(base_of(b)) for b in e[3] if b["kind"] == "g"}
        kinds = sorted({kd for b, _, kd in case["armap"] if tok_box(b) in used})
        for kd in kinds:
            rep.count("imgkind:" + kd)
        rep.count("imgstyle:" + style)
        rep.count("imgfamily:" + famn)
        rep.count("imgob:" + ("some_empty" if any(not t for t in obmap.values()) else "none_empty"))
        if case["src_special"]:
            rep.count("imgsource:" + dict(S="sum_box", B="bubble_box")[case["src_special"]])
        cache = {}

        def Fof(name, get):
            """F(x), computed once; exceptions are re-raised on every use."""
            if name not in cache:
                try:
                    cache[name] = (True, F(get()))
                except Exception as exc:  # noqa
                    cache[name] = (False, exc)
            ok, v = cache[name]
            if not ok:
                raise v
            return v
        real = ser_ds(lambda: Fof("d", lambda: d))
        # ---- correspondence with the model
        is_modelled = modelled(case)
        if is_modelled:
            ftok = tok_functor_img(obmap, case["armap"])
            line = "functorimg %s %s" % (ftok, tok_expr(e))
            lines = [line,
                     "functorimg %s then %s %s" % (ftok, tok_expr(e), tok_expr(eb)),
                     "functorimg %s tensor %s %s" % (ftok, tok_expr(e), tok_expr(e2)),
                     "functorimgop then %s %s %s" % (ftok, tok_expr(e), tok_expr(eb)),
                     "functorimgop tensor %s %s %s" % (ftok, tok_expr(e), tok_expr(e2))]
            reals = [real,
                     ser_ds(lambda: Fof("then", lambda: d >> b_)),
                     ser_ds(lambda: Fof("tensor", lambda: d @ d2)),
                     ser_ds(lambda: Fof("d", lambda: d) >> Fof("b", lambda: b_)),
                     ser_ds(lambda: Fof("d", lambda: d) @ Fof("d2", lambda: d2))]
            models = drv.ask_many(lines)
            nontriv = len(e[3]) >= 2 and any(kd.startswith("sum") for kd in kinds)
            for ln, rl, ml in zip(lines, reals, models):
                if rl != ml:
                    rep.disagree(ln.split(" ")[0] + (":" + ln.split(" ")[1] if ln.startswith("functorimgop") else ""),
                                 dict(info, request=ln[:3000]), rl[:600], ml[:600])
                rep.case(ln, nontriv)
            rep.count("imgmodel:compared")
            rep.sample(dict(request=line[:300], answer=real[:160]))
        else:
            rep.count("imgmodel:oracle_only")
        rep.count("imgresult:" + " ".join(real.split(" ")[:2]))
        if malformed:
            continue
        if not cache["d"][0]:
            rep.fail("functor_raises:" + real.split(" ")[1], info, real + " " + repr(cache["d"][1])[:300])
            continue
        Fd = cache["d"][1]
        if isinstance(Fd, cat.Sum):
            rep.count("imgterms:%s" % (len(Fd.terms) if len(Fd.terms) < 4 else "4+"))

        def structure(name, get, spec):
            try:
                why = structure_mismatch(get(), ref, spec)
            except Exception as exc:
                why = "raised " + err_class(exc) + " " + repr(exc)[:200]
            rep.count("imgstructure:" + name)
            if why:
                rep.fail("image_structure:" + name, info, "%s: %s" % (name, why))
            return why

        def law(name, lhs, rhs, sig=None, known=None):
            """`known(a, b)` -> signature of a known finding this failure is an instance of, or None."""
            try:
                a, b = lhs(), rhs()
                ok = (a == b) and (b == a)
            except Exception as exc:
                ok, a, b = False, "raised " + err_class(exc) + " " + repr(exc)[:200], ""
            rep.count("imglaw:" + name)
            if not ok:
                s = None
                if known is not None and not isinstance(a, str):
                    try:
                        s = known(a, b)
                    except Exception:  # noqa
                        s = None
                rep.fail(s or sig or ("image_law_" + name), info,
                         "%s: %s != %s" % (name, str(a)[:300], str(b)[:300]))
            return ok
        # every term of the image is a well-typed diagram of the right type
        try:
            terms_of_image = list(Fd.terms) if isinstance(Fd, cat.Sum) else [Fd]
        except Exception as exc:  # noqa
            rep.fail("image_unreadable:" + err_class(exc), info, repr(exc)[:300])
            continue
        for t in terms_of_image:
            why = wf_failure(t)
            if why:
                rep.fail("illtyped_image", info, why)
        structure("apply", lambda: Fd, e)
        # the image of a box is what the box map says
        for bx, x in images:
            law("box", lambda: F(bx), lambda: x)
        m = fam.m

        def mk(dom, cod, bs, os):
            return ("mk", list(dom), list(cod), list(bs), list(os))
        # then
        law("then", lambda: Fof("then", lambda: d >> b_), lambda: Fd >> Fof("b", lambda: b_))
        structure("then", lambda: Fof("then", lambda: d >> b_), mk(e[1], eb[2], e[3] + eb[3], e[4] + eb[4]))
        # tensor
        law("tensor", lambda: Fof("tensor", lambda: d @ d2), lambda: Fd @ Fof("d2", lambda: d2))
        structure("tensor", lambda: Fof("tensor", lambda: d @ d2),
                  mk(e[1] + e2[1], e[2] + e2[2], e[3] + e2[3], e[4] + [o + len(e[2]) for o in e2[4]]))
        # whiskering
        zl, zr = case["scans"][0][:1], case["scans"][-1][-1:]
        law("whisker", lambda: Fof("wh", lambda: m.Id(fam.ty(zl)) @ d @ m.Id(fam.ty(zr))),
            lambda: m.Id(F(fam.ty(zl))) @ Fd @ m.Id(F(fam.ty(zr))))
        structure("whisker", lambda: Fof("wh", None),
                  mk(zl + e[1] + zr, zl + e[2] + zr, e[3], [o + len(zl) for o in e[4]]))
        # layers: a diagram is the composite of its layers `Id(left) @ box @ Id(right)`, so its image is
        # the composite of `Id(F(left)) @ F(box) @ Id(F(right))` with the library's own `>>`, `@`
        # (F(box) for the box itself is what the box map says: sums are distributed by `@` and `>>`)
        def by_layers():
            out = m.Id(F(d.dom))
            for left, box, right in d.layers:
                out = out >> m.Id(F(left)) @ F(box) @ m.Id(F(right))
            return out
        law("layers", lambda: Fd, by_layers)
        # identities
        law("id", lambda: F(m.Id(d.cod)), lambda: m.Id(F(d.cod)))
        law("id_empty", lambda: F(m.Id(m.Ty())), lambda: m.Id(m.Ty()))
        # slices: the image of a diagram is the composite of the images of its two halves
        n = len(d.boxes)
        i = r.randint(0, n)
        law("split", lambda: Fd, lambda: F(d[:i]) >> F(d[i:]))
        structure("slice_head", lambda: F(d[:i]), mk(e[1], case["scans"][i], e[3][:i], e[4][:i]))
        if not isinstance(Fd, cat.Sum):
            j = r.randint(i, n)

            def sliced():
                lens = [len(F(bx).boxes) for bx in d.boxes]
                return Fd[sum(lens[:i]):sum(lens[:j])] if i < j else F(d[i:j])
            law("slice", lambda: F(d[i:j]), sliced)
        # dagger (where `.dagger()` of every box involved is an ordinary diagram operation)
        plain_dagger = not case["src_special"] and all(
            kd not in ("bubble", "sumbox") for _, _, kd in case["armap"])
        if plain_dagger:
            multi = sum(1 for b in e[3] if b["kind"] == "g" and
                        n_terms(imgspec[tok_box(base_of(b))]) >= 2)
            wide = any(b["kind"] == "s" and all(len(img_ty(obmap, [o])) >= 2 for o in b["dom"])
                       for b in e[3])

            def known_dagger(a, b):
                if wide:
                    return "dagger_law:swap_with_both_images_ge2"
                if multi >= 2 and isinstance(a, cat.Sum) and isinstance(b, cat.Sum) and \
                        sorted(map(repr, map(term_key, a.terms))) == \
                        sorted(map(repr, map(term_key, b.terms))):
                    return "dagger_law:sum_images_term_order"
                return None
            law("dagger", lambda: F(d[::-1]), lambda: Fd[::-1], known=known_dagger)
            rep.count("imgdagger:" + ("wide_swap" if wide else "multi_sums>=2" if multi >= 2
                                      else "one_sum" if multi == 1 else "no_multi_sum"))
        # formal sums in the source

        def known_sum(a, b):
            fa, fdd = Fd, Fof("dd", lambda: dd)
            if (isinstance(fa, cat.Sum) or isinstance(fdd, cat.Sum)) and isinstance(a, cat.Sum) \
                    and isinstance(b, cat.Sum) and any(isinstance(t, cat.Sum) for t in a.terms) and \
                    [term_key(t) for t in flat_terms(a)] == [term_key(t) for t in b.terms]:
                return "sum_law:nested_sum_for_sum_images"
            return None
        # "the sum of the images" is taken left to right from the unit, `sum(images, unit)`, the way
        # the library itself adds up terms (cat.py:717): every `+` then has a Sum on its left
        unit = lambda: m.Diagram.sum([], F(d.dom), F(d.cod))
        law("sum", lambda: F(d + dd), lambda: unit() + Fd + Fof("dd", lambda: dd), known=known_sum)
