"""Receivers for C05: diagrams of EVERY diagram class of the library, and of their subclasses with a
constructor of their own, as the library and its users build them.

`receivers(rng, tier)` yields `Receiver` records (label = how it was built, d = the real object,
family, ev = the class's own evaluation or None).  The regions visited (counted by the caller):

  own-ctor    instances of Diagram subclasses whose __init__ does not take (dom, cod, boxes, offsets,
              layers): quantum IQPansatz, cartesian Copy / Discard / Swap / Id shipped by the library,
              and `Own_<class>` (a user-side subclass defined here the way IQPansatz is defined, one
              per diagram class: monoidal, rigid, biclosed, cartesian, tensor, circuit, zx)
  plain       instances of each class's Diagram built with >> and @ from a pool of its boxes, by the
              scanning constructor, and through slicing / dagger / tensor powers
  helper      outputs of swap / permutation / cups / caps / spiders / Id.tensor / ansatz functions
  functor     results of monoidal / rigid / circuit / cartesian functors and of circuit2zx
  one-box     every box class used directly as a one-box diagram (gates, spiders, words, Sum, Bubble,
              Curry, ...) and identities (no box)
  nested / sum-bubble-box / odd-name / odd-str / foreign-box / mixed-kinds
              what can SIT IN `boxes` (section "what can sit in `boxes`" below): composite diagrams,
              formal sums and bubbles, boxes of another class, boxes with non-string / hazardous
              names, boxes that print themselves their own way - in layouts that force refusals

Serialisation is by (name, z) objects exactly as in core.spec_diagram, but tolerant of any box data
(numpy arrays, phases, functions): data and non-string names are reduced to a whitespace-free token.
"""
import hashlib

import numpy as np

from common import box_kind, err_class
from core import tok_ty, tok_box


# ------------------------------------------------------------------ serialisation by (name, z)

def safe_repr(x):
    """repr(x); for an object whose repr itself raises (e.g. a circuit.Box prints its name, which
    need not be a string) a deterministic stand-in built from its class and its parts."""
    try:
        return repr(x)
    except Exception:
        pass
    try:
        if hasattr(x, "boxes") and hasattr(x, "offsets") and list(x.boxes) != [x]:
            return "!%s(%s,%s,[%s],%s)" % (type(x).__name__, safe_repr(x.dom), safe_repr(x.cod),
                                          ",".join(safe_repr(b) for b in x.boxes), list(x.offsets))
        return "!%s(%s,%s,%s)" % (type(x).__name__, safe_repr(getattr(x, "name", None)),
                                  safe_repr(getattr(x, "dom", None)), safe_repr(getattr(x, "cod", None)))
    except Exception:
        return "!" + type(x).__name__


def squeeze(x):
    s = "".join(safe_repr(x).split())
    if len(s) > 60:
        s = s[:20] + "#" + hashlib.sha1(s.encode()).hexdigest()[:16]
    return s


def plain_name(x):
    return x if isinstance(x, (str, int)) and not isinstance(x, bool) else "~" + squeeze(x)


def rspec_ty(t):
    return [(plain_name(x.name), int(getattr(x, "z", 0) or 0)) for x in t.objects]


def is_composite(b):
    """`b` sits in a diagram's `boxes` but is not a generator: a composite diagram used as a box
    (a diagram of diagrams, as built by `foliation` and consumed by `flatten`)."""
    from discopy import cat
    return not isinstance(b, cat.Box)


def box_name(b):
    """The name token of whatever sits in `boxes`.  A composite diagram has no `.name`: it is an
    opaque box for the class-blind model, named by a token of its repr."""
    if is_composite(b):
        return "~D:" + squeeze(b)
    return plain_name(b.name)


def rspec_box(b):
    k = box_kind(b)
    data = getattr(b, "data", None)
    return dict(kind=k, name=box_name(b) if k == "g" else None,
                dom=rspec_ty(b.dom), cod=rspec_ty(b.cod),
                dagger=bool(getattr(b, "is_dagger", False)) if k == "g" else False,
                data=None if (data is None or k != "g") else squeeze(data))


def rspec_diagram(d):
    """`mk` expression of a real diagram of any class (objects by (name, z))."""
    return ("mk", rspec_ty(d.dom), rspec_ty(d.cod), [rspec_box(b) for b in d.boxes],
            [int(o) for o in d.offsets])


def rser_box(b):
    return tok_box(rspec_box(b))


def rser_diagram(d):
    """Same token format as common.ser_diagram (the driver's `ok` answer)."""
    ls = d.layers

    def lst(f, xs):
        xs = list(xs)
        return " ".join([str(len(xs))] + [f(x) for x in xs])

    def layer(l):
        left, box, right = l
        return "%s %s %s" % (tok_ty(rspec_ty(left)), rser_box(box), tok_ty(rspec_ty(right)))
    return "%s %s %s %s %s %s %s" % (
        tok_ty(rspec_ty(d.dom)), tok_ty(rspec_ty(d.cod)), lst(rser_box, d.boxes),
        lst(lambda o: str(int(o)), d.offsets),
        tok_ty(rspec_ty(ls.dom)), tok_ty(rspec_ty(ls.cod)), lst(layer, ls.boxes))


def rser_result(fn):
    try:
        return "ok " + rser_diagram(fn()), None
    except Exception as exc:  # noqa: the class is the observation
        return "err " + err_class(exc), exc


def wf_failure_any(d):
    """common.wf_failure (C01's predicate: the scan by (name, z) lists) for a diagram of any class:
    the box of a layer is compared by identity, then by its (name, z) token, never with the
    library's `==` (which raises on some box classes, e.g. a tensor.Bubble has no array)."""
    from common import ty_key
    try:
        scan = ty_key(d.dom)
        layers = list(d.layers.boxes)
        if not (len(d.boxes) == len(d.offsets) == len(layers)):
            return "lengths of boxes/offsets/layers differ"
        if ty_key(d.layers.dom) != scan or ty_key(d.layers.cod) != ty_key(d.cod):
            return "layers.dom/cod differ from dom/cod"
        for k, (box, off, layer) in enumerate(zip(d.boxes, d.offsets, layers)):
            left, lbox, right = layer
            bdom, bcod = ty_key(box.dom), ty_key(box.cod)
            if not isinstance(off, int) or not 0 <= off <= len(scan) - len(bdom):
                return "offset %r of box %d out of range" % (off, k)
            if scan[off:off + len(bdom)] != bdom:
                return "box %d does not find its domain at its offset" % k
            if not ((lbox is box or rser_box(lbox) == rser_box(box))
                    and ty_key(lbox.dom) == bdom and ty_key(lbox.cod) == bcod
                    and ty_key(left) == scan[:off] and ty_key(right) == scan[off + len(bdom):]):
                return "layer %d disagrees with boxes/offsets" % k
            scan = scan[:off] + bcod + scan[off + len(bdom):]
        if scan != ty_key(d.cod):
            return "scan does not reach the codomain"
        return None
    except Exception as exc:
        return "exception while checking: %r" % (exc,)


# ------------------------------------------------------------------ free integer functor

class FreeIntFunctor:
    """A monoidal functor into integer matrices defined on the free category over the boxes at
    hand: a random dimension (1 or 2) per object name, a random integer matrix per distinct box
    (distinct by its (name, z) token, dagger flag included — no relation imposed between a box
    and its dagger, swaps are generators too).  int64 arithmetic; a wrap-around is a ring
    homomorphism, so equal diagrams still evaluate equal.  Computed layer by layer with Kronecker
    products, nothing of discopy's evaluation is used."""

    def __init__(self, rng, maxdim=2):
        self.rng, self.maxdim, self.dims, self.arrays = rng, maxdim, {}, {}

    def dim(self, ob):
        key = squeeze(ob.name)
        if key not in self.dims:
            self.dims[key] = self.rng.randint(1, self.maxdim)
        return self.dims[key]

    def tydim(self, ty):
        n = 1
        for ob in ty.objects:
            n *= self.dim(ob)
        return n

    def box(self, box):
        key = rser_box(box)
        if key not in self.arrays:
            m, n = self.tydim(box.dom), self.tydim(box.cod)
            self.arrays[key] = np.array(
                [[self.rng.randint(-2, 2) for _ in range(n)] for _ in range(m)],
                dtype=np.int64).reshape(m, n)
        return self.arrays[key]

    def eval(self, d):
        out = np.eye(self.tydim(d.dom), dtype=np.int64)
        for left, box, right in d.layers.boxes:
            layer = np.kron(np.kron(np.eye(self.tydim(left), dtype=np.int64), self.box(box)),
                            np.eye(self.tydim(right), dtype=np.int64))
            out = out @ layer
        return out


class Wide(Exception):
    """A layer too wide for the Kronecker evaluation."""


def eval_deep(F, d, limit=256):
    """`F` (a FreeIntFunctor) on a diagram of diagrams: a composite diagram sitting in `boxes` is
    evaluated recursively through its own layers (the harness's own flattening: nothing of
    `Diagram.flatten` is used), every generator - Sum and Bubble included - by its random matrix."""
    out = np.eye(F.tydim(d.dom), dtype=np.int64)
    for left, box, right in d.layers.boxes:
        l, r = F.tydim(left), F.tydim(right)
        if l * max(F.tydim(box.dom), F.tydim(box.cod)) * r > limit:
            raise Wide()
        m = eval_deep(F, box, limit) if is_composite(box) else F.box(box)
        out = out @ np.kron(np.kron(np.eye(l, dtype=np.int64), m), np.eye(r, dtype=np.int64))
    return out


def max_width(d):
    w = len(d.dom)
    for l in d.layers.boxes:
        w = max(w, len(l.cod), len(l.dom))
    return w


# ------------------------------------------------------------------ class evaluations

def ev_tensor(x, mixed=False):
    """tensor.Diagram / Circuit evaluation (discopy's own), as an array; mixed=True asks a circuit
    for its classical-quantum evaluation whatever its layout."""
    from discopy import tensor
    if not hasattr(x, "eval"):
        x = tensor.Diagram.upgrade(x)
    return np.asarray((x.eval(mixed=True) if mixed else x.eval()).array)


def ev_cartesian(x, mixed=False):
    from discopy import cartesian
    if not isinstance(x, cartesian.Diagram):
        x = cartesian.Diagram.upgrade(x)
    args = tuple(range(10, 10 + len(x.dom)))
    out = x(*args)
    return np.asarray(out if isinstance(out, tuple) else (out,), dtype=object)


def same_value(a, b):
    a, b = np.asarray(a), np.asarray(b)
    if a.shape != b.shape:
        return False
    if a.dtype == object or b.dtype == object:
        return a.tolist() == b.tolist()
    if np.issubdtype(a.dtype, np.integer) and np.issubdtype(b.dtype, np.integer):
        return bool(np.array_equal(a, b))
    return bool(np.allclose(a, b, rtol=1e-9, atol=1e-9))


# ------------------------------------------------------------------ receivers

class Receiver:
    def __init__(self, region, family, label, d, ev=None):
        self.region, self.family, self.label, self.d, self.ev = region, family, label, d, ev
        self.shape = None      # how a box-kinds receiver was laid out (grown / chain / blocked / ...)


_OWN = {}


def own_class(base):
    """A user-side subclass of a diagram class with a constructor of its own (the pattern of
    quantum.circuit.IQPansatz: compute the diagram, hand its fields to the base constructor)."""
    if base not in _OWN:
        class Own(base):
            def __init__(self, inner):
                self.inner = inner
                base.__init__(self, inner.dom, inner.cod, inner.boxes, inner.offsets,
                              layers=inner.layers)
        Own.__name__ = Own.__qualname__ = "Own_" + base.__module__.split(".")[-1]
        _OWN[base] = Own
    return _OWN[base]


def grow(rng, Id, pool, dom, depth, maxw=6):
    """Grow a diagram of the class of `Id` from `dom`, one pool box per layer, with >> and @."""
    d = Id(dom)
    for _ in range(depth):
        cod, n = d.cod, len(d.cod)
        cands = []
        for b in pool:
            k = len(b.dom)
            if n - k + len(b.cod) > maxw:
                continue
            for off in range(n - k + 1):
                if cod[off:off + k] == b.dom:
                    cands.append((b, off))
        if not cands:
            break
        b, off = rng.choice(cands)
        d = d >> Id(cod[:off]) @ b @ Id(cod[off + len(b.dom):])
    return d


class Pools:
    """Boxes of every class (built once; labels are the usual discopy spellings)."""

    def __init__(self):
        from discopy import monoidal, rigid, biclosed, cartesian, tensor
        from discopy.quantum import circuit, gates, zx
        from discopy.grammar import pregroup
        M, R, B, C, T = monoidal, rigid, biclosed, cartesian, tensor
        self.mods = dict(monoidal=M, rigid=R, biclosed=B, cartesian=C, tensor=T,
                         circuit=circuit, zx=zx)
        # ---- monoidal
        x, y, z = M.Ty('x'), M.Ty('y'), M.Ty('z')
        f, f2 = M.Box('f', x, y), M.Box('f2', x, y)
        self.monoidal = dict(
            Id=M.Id, base=M.Diagram, doms=[M.Ty(), x, x @ y, x @ x @ y], ev=None,
            pool=[f, M.Box('g', y, x @ x), M.Box('h', x @ y, z), M.Box('s', M.Ty(), M.Ty()),
                  M.Box('u', M.Ty(), x), M.Box('e', x, M.Ty()), M.Box('k', z, z).dagger(),
                  M.Swap(x, y), M.Swap(y, x), f + f2, M.Bubble(f),
                  M.Box('d', x, x, data={"k": [1, 2.5]})])
        # ---- rigid
        n, s = R.Ty('n'), R.Ty('s')
        self.rigid = dict(
            Id=R.Id, base=R.Diagram, doms=[R.Ty(), n, n @ n.r, s @ n], ev=None,
            pool=[R.Box('a', R.Ty(), n), R.Box('v', R.Ty(), n.r @ s @ n.l), R.Box('t', n, n @ s),
                  R.Cup(n, n.r), R.Cup(n.l, n), R.Cap(n.r, n), R.Cap(n, n.l), R.Swap(n, s),
                  R.Box('q', s, R.Ty()), R.Box('w', n.r, n.r).dagger()])
        # ---- pregroup grammar (rigid diagrams of Words and Cups)
        W = pregroup.Word
        self.pregroup = dict(
            Id=R.Id, base=R.Diagram, doms=[R.Ty()], ev=None,
            pool=[W('Alice', n), W('loves', n.r @ s @ n.l), W('Bob', n), W('who', n.r @ n @ s.l @ n),
                  W('runs', n.r @ s), R.Cup(n, n.r), R.Cup(n.l, n), R.Cup(s.l, s)])
        # ---- biclosed
        bx, by, bz = B.Ty('x'), B.Ty('y'), B.Ty('z')
        self.biclosed = dict(
            Id=B.Id, base=B.Diagram, doms=[B.Ty(), bx, (bx << by) @ by, bx @ (bx >> by)], ev=None,
            pool=[B.FA(bx << by), B.BA(bx >> by), B.FC(bx << by, by << bz), B.BC(bx >> by, by >> bz),
                  B.Box('w', B.Ty(), bx << by), B.Box('o', B.Ty(), by), B.Box('p', B.Ty(), bx),
                  B.Box('m', bx, bx >> by), B.Box('c', by, B.Ty()),
                  B.Curry(B.Box('r', bx @ by, bz)), B.FX(bx << by, bz >> by)])
        # ---- cartesian
        self.cartesian = dict(
            Id=C.Id, base=C.Diagram, doms=[0, 1, 2, 3], ev=ev_cartesian,
            pool=[C.COPY, C.SWAP, C.DISCARD, C.ADD, C.Box('neg', 1, 1, lambda x: -x),
                  C.Box('seven', 0, 1, lambda: 7), C.Box('split', 1, 3, lambda x: (x, x + 1, x + 2)),
                  C.Box('mul', 2, 1, lambda x, y: x * y)])
        # ---- tensor
        D = T.Dim
        self.tensor = dict(
            Id=T.Id, base=T.Diagram, doms=[D(1), D(2), D(2, 3), D(3, 2, 2)], ev=ev_tensor,
            pool=[T.Box('v', D(1), D(2), [1, 2]), T.Box('m', D(2), D(2, 3), [1, 0, 2, -1, 3, 1, 0, 2, 1, 1, -2, 0]),
                  T.Box('e', D(3), D(1), [1, -1, 2]), T.Box('c', D(1), D(1), [3]),
                  T.Box('j', D(2, 2), D(3), list(range(12))), T.Swap(D(2), D(3)),
                  T.Swap(D(3), D(2)), T.Spider(1, 2, D(2)), T.Spider(2, 0, D(3)),
                  T.Box('p', D(3), D(3), list(range(9))).dagger()])
        # ---- circuits
        G, q, b = gates, circuit.qubit, circuit.bit
        self.circuit = dict(
            Id=circuit.Id, base=circuit.Circuit, doms=[q ** 0, q, q ** 2, q ** 3, b @ q], ev=ev_tensor,
            pool=[G.H, G.X, G.Z, G.S, G.CX, G.CZ, G.Rz(0.25), G.Rx(0.125), G.Ry(0.3), G.CRz(0.3),
                  G.CU1(0.75), G.Ket(0), G.Ket(1, 0), G.Bra(0), G.Bra(1), G.SWAP,
                  G.scalar(0.5), G.sqrt(2), circuit.Measure(), circuit.Discard(),
                  circuit.Measure(destructive=False), circuit.Encode(), G.Bits(1), G.Bits(0).dagger(),
                  circuit.MixedState(), G.Copy(), G.Match(), G.Controlled(G.Z),
                  G.T.dagger(), circuit.Swap(b, q)])
        self.pure = dict(
            Id=circuit.Id, base=circuit.Circuit, doms=[q ** 0, q, q ** 2, q ** 3], ev=ev_tensor,
            pool=[G.H, G.X, G.Z, G.S, G.T, G.CX, G.CZ, G.Rz(0.25), G.Rx(0.125), G.CRz(0.3),
                  G.Ket(0), G.Ket(1), G.Bra(0), G.Bra(1), G.SWAP, G.scalar(0.5)])
        # ---- zx
        P = zx.PRO
        self.zx = dict(
            Id=zx.Id, base=zx.Diagram, doms=[P(0), P(1), P(2), P(3)], ev=None,
            pool=[zx.Z(1, 2), zx.X(2, 1, 0.5), zx.Z(0, 1), zx.X(1, 0), zx.Had(), zx.SWAP,
                  zx.scalar(0.5), zx.Y(1, 1, 0.25), zx.Z(2, 2, 0.125), zx.X(0, 2)])

    def families(self):
        return ["monoidal", "rigid", "pregroup", "biclosed", "cartesian", "tensor", "circuit", "zx"]


def _try(out, region, family, label, thunk, ev=None, skipped=None):
    """Build a receiver; a constructor that raises is not C05's business (counted, skipped)."""
    try:
        d = thunk()
        d.boxes, d.offsets, d.layers, d.dom, d.cod
    except Exception as exc:
        if skipped is not None:
            skipped.append((label, "%s: %s" % (type(exc).__name__, exc)))
        return None
    out.append(Receiver(region, family, label, d, ev))
    return d


def own_ctor_library(rng, tier, skipped):
    """Multi-box Diagram subclasses shipped by the library with their own constructor."""
    from discopy import cartesian
    from discopy.quantum.circuit import IQPansatz
    out = []
    thorough = tier != "quick"

    def phase():
        return rng.randint(1, 15) / 16.0
    shapes = [(n, dep) for n in (2, 3, 4) for dep in (1, 2, 3)]
    if not thorough:
        shapes = [(2, 1), (3, 1)] + rng.sample(shapes, 2)
    for n, dep in shapes:
        params = [[phase() for _ in range(n - 1)] for _ in range(dep)]
        _try(out, "own-ctor", "circuit", "IQPansatz(%d, %r)" % (n, params),
             lambda n=n, p=params: IQPansatz(n, p), ev_tensor, skipped)
    p1 = [phase(), phase(), phase()]
    _try(out, "own-ctor", "circuit", "IQPansatz(1, %r)" % (p1,), lambda: IQPansatz(1, p1),
         ev_tensor, skipped)
    copies = range(0, 5) if thorough else [0, 1, 2, rng.choice([3, 4])]
    for n in copies:
        _try(out, "own-ctor", "cartesian", "cartesian.Copy(%d)" % n,
             lambda n=n: cartesian.Copy(n), ev_cartesian, skipped)
    for n in (range(0, 6) if thorough else [0, 1, 3, rng.choice([2, 4, 5])]):
        _try(out, "own-ctor", "cartesian", "cartesian.Discard(%d)" % n,
             lambda n=n: cartesian.Discard(n), ev_cartesian, skipped)
    pairs = [(l, r) for l in range(0, 4) for r in range(0, 4)]
    if not thorough:
        pairs = [(1, 1), (2, 2), (1, 3)] + rng.sample(pairs, 3)
    for l, r in pairs:
        _try(out, "own-ctor", "cartesian", "cartesian.Swap(%d, %d)" % (l, r),
             lambda l=l, r=r: cartesian.Swap(l, r), ev_cartesian, skipped)
    for n in (0, 2):
        _try(out, "own-ctor", "cartesian", "cartesian.Id(%d)" % n,
             lambda n=n: cartesian.Id(n), ev_cartesian, skipped)
    return out


def grown(pools, rng, tier, skipped):
    """Per class: diagrams grown from its pool; each also as the scanning-constructor rebuild, as
    an `Own_<class>` instance, and through dagger / slice / tensor power."""
    out = []
    n_per = 3 if tier == "quick" else 10
    for fam in pools.families():
        P = getattr(pools, fam)
        Id, base, ev = P["Id"], P["base"], P["ev"]
        Own = own_class(base)
        for k in range(n_per):
            dom = rng.choice(P["doms"])
            depth = rng.choice([2, 3, 3, 4, 5, 6]) if k else 4
            seed = rng.getrandbits(32)
            import random as _random

            def build(dom=dom, depth=depth, seed=seed):
                return grow(_random.Random(seed), Id, P["pool"], dom, depth)
            label = "grow(%s, dom=%r, depth=%d, seed=%d)" % (fam, dom, depth, seed)
            d = _try(out, "plain", fam, label, build, ev, skipped)
            if d is None:
                continue
            _try(out, "own-ctor", fam, "Own_%s(%s)" % (fam, label), lambda d=d: Own(d), ev, skipped)
            variant = rng.choice(["ctor", "dagger", "slice", "power", "own_of_ctor"])
            if variant == "ctor":
                _try(out, "plain", fam, "Diagram(dom, cod, boxes, offsets) of " + label,
                     lambda d=d: base(d.dom, d.cod, d.boxes, d.offsets), ev, skipped)
            elif variant == "dagger" and fam not in ("cartesian", "biclosed"):
                _try(out, "plain", fam, "(%s)[::-1]" % label, lambda d=d: d[::-1], ev, skipped)
            elif variant == "slice" and len(d.boxes) >= 3:
                _try(out, "plain", fam, "(%s)[1:]" % label, lambda d=d: d[1:], ev, skipped)
            elif variant == "power" and len(d.boxes) <= 3 and len(d.dom) + len(d.cod) <= 4:
                _try(out, "plain", fam, "(%s) @ same" % label, lambda d=d: d @ d, ev, skipped)
            elif variant == "own_of_ctor":
                _try(out, "own-ctor", fam, "Own_%s(Diagram(...) of %s)" % (fam, label),
                     lambda d=d: Own(base(d.dom, d.cod, d.boxes, d.offsets)), ev, skipped)
    return out


def helpers(pools, rng, tier, skipped):
    """Outputs of the library's diagram-building helpers."""
    from discopy import monoidal, rigid, tensor
    from discopy.quantum import circuit, zx, gates
    out = []
    q, b = circuit.qubit, circuit.bit
    x, y, z = monoidal.Ty('x'), monoidal.Ty('y'), monoidal.Ty('z')
    n, s = rigid.Ty('n'), rigid.Ty('s')
    D = tensor.Dim

    def perm(k):
        p = list(range(k))
        rng.shuffle(p)
        return p
    k1, k2 = rng.randint(1, 2), rng.randint(1, 3)
    p3, p4 = perm(3), perm(4)
    items = [
        ("monoidal", "monoidal.Diagram.swap(x @ y, z @ x)", lambda: monoidal.Diagram.swap(x @ y, z @ x), None),
        ("monoidal", "monoidal.Diagram.permutation(%r, x @ y @ z @ x)" % p4,
         lambda: monoidal.Diagram.permutation(p4, x @ y @ z @ x), None),
        ("rigid", "rigid.Diagram.swap(n @ s, n.r)", lambda: rigid.Diagram.swap(n @ s, n.r), None),
        ("rigid", "rigid.Diagram.permutation(%r, n @ s @ n.l)" % p3,
         lambda: rigid.Diagram.permutation(p3, n @ s @ n.l), None),
        ("rigid", "rigid.Diagram.cups(n @ s @ n.l, (n @ s @ n.l).r)",
         lambda: rigid.Diagram.cups(n @ s @ n.l, (n @ s @ n.l).r), None),
        ("rigid", "rigid.Diagram.caps(n @ s, (n @ s).l)", lambda: rigid.Diagram.caps(n @ s, (n @ s).l), None),
        ("rigid", "(Box('t', n, n @ s)).transpose()",
         lambda: rigid.Box('t', n, n @ s).transpose(), None),
        ("rigid", "(Box('t', n @ s, s)).transpose(left=True)",
         lambda: rigid.Box('t', n @ s, s).transpose(left=True), None),
        ("tensor", "tensor.Diagram.swap(Dim(2, 3), Dim(3))", lambda: tensor.Diagram.swap(D(2, 3), D(3)), ev_tensor),
        ("tensor", "tensor.Diagram.cups(Dim(2, 3), Dim(3, 2))", lambda: tensor.Diagram.cups(D(2, 3), D(3, 2)), ev_tensor),
        ("tensor", "tensor.Diagram.caps(Dim(2, 3, 2), Dim(2, 3, 2))",
         lambda: tensor.Diagram.caps(D(2, 3, 2), D(2, 3, 2)), ev_tensor),
        ("tensor", "tensor.Diagram.spiders(2, 3, Dim(2))", lambda: tensor.Diagram.spiders(2, 3, D(2)), ev_tensor),
        ("tensor", "tensor.Diagram.permutation(%r, Dim(2, 3, 2))" % p3,
         lambda: tensor.Diagram.permutation(p3, D(2, 3, 2)), ev_tensor),
        ("circuit", "Circuit.swap(qubit ** %d, qubit ** %d)" % (k1, k2),
         lambda: circuit.Circuit.swap(q ** k1, q ** k2), ev_tensor),
        ("circuit", "Circuit.swap(bit @ qubit, qubit)", lambda: circuit.Circuit.swap(b @ q, q), ev_tensor),
        ("circuit", "Circuit.permutation(%r)" % p4, lambda: circuit.Circuit.permutation(p4), ev_tensor),
        ("circuit", "Circuit.cups(qubit ** 2, qubit ** 2)", lambda: circuit.Circuit.cups(q ** 2, q ** 2), ev_tensor),
        ("circuit", "Circuit.caps(qubit ** %d, qubit ** %d)" % (k1, k1),
         lambda: circuit.Circuit.caps(q ** k1, q ** k1), ev_tensor),
        ("circuit", "Circuit.cups(bit @ qubit, qubit @ bit)", lambda: circuit.Circuit.cups(b @ q, q @ b), ev_tensor),
        ("circuit", "Id(0).tensor(H, X, Rz(0.25), Ket(0))",
         lambda: circuit.Id(0).tensor(gates.H, gates.X, gates.Rz(0.25), gates.Ket(0)), ev_tensor),
        ("circuit", "Id(3).then(H @ Id(2), Id(1) @ CX, Id(2) @ Bra(0))",
         lambda: circuit.Id(3).then(gates.H @ circuit.Id(2), circuit.Id(1) @ gates.CX,
                                    circuit.Id(2) @ gates.Bra(0)), ev_tensor),
        ("zx", "zx.Diagram.swap(2, %d)" % k2, lambda: zx.Diagram.swap(2, k2), None),
        ("zx", "zx.Diagram.permutation(%r)" % p4, lambda: zx.Diagram.permutation(p4), None),
        ("zx", "zx.Diagram.cups(PRO(2), PRO(2))", lambda: zx.Diagram.cups(zx.PRO(2), zx.PRO(2)), None),
        ("zx", "zx.Diagram.caps(PRO(3), PRO(3))", lambda: zx.Diagram.caps(zx.PRO(3), zx.PRO(3)), None),
    ]
    seed = rng.getrandbits(16)
    nq, dep = rng.randint(2, 4), rng.randint(1, 3)
    items.append(("circuit", "random_tiling(%d, %d, seed=%d)" % (nq, dep, seed),
                  lambda: circuit.random_tiling(nq, dep, seed=seed), ev_tensor))
    items.append(("circuit", "random_tiling(1, seed=%d)" % seed,
                  lambda: circuit.random_tiling(1, seed=seed), ev_tensor))
    for ent in ("full", "linear", "circular"):
        shape = (rng.randint(1, 3), rng.randint(2, 3))
        par = [[rng.randint(1, 15) / 16.0 for _ in range(shape[1])] for _ in range(shape[0])]
        items.append(("circuit", "real_amp_ansatz(%r, entanglement=%r)" % (par, ent),
                      lambda par=par, ent=ent: circuit.real_amp_ansatz(np.array(par), entanglement=ent),
                      ev_tensor))
    if tier == "quick":
        keep = set(rng.sample(range(len(items)), 16))
        items = [it for k, it in enumerate(items) if k in keep]
    for fam, label, thunk, ev in items:
        d = _try(out, "helper", fam, label, thunk, ev, skipped)
        if d is not None and rng.random() < 0.35:
            base = pools.mods[fam].Circuit if fam == "circuit" else pools.mods[fam].Diagram
            _try(out, "own-ctor", fam, "Own_%s(%s)" % (fam, label),
                 lambda d=d, base=base: own_class(base)(d), ev, skipped)
    return out


def functor_results(pools, rng, tier, skipped):
    """Diagrams returned by applying functors (the ar_factory of the functor builds them)."""
    from discopy import monoidal, rigid, cartesian
    from discopy.quantum import circuit, gates, zx
    import random as _random
    out = []
    reps = 1 if tier == "quick" else 5
    for _ in range(reps):
        # monoidal functor doubling wires: x -> x @ y, boxes -> two boxes in sequence
        M = pools.monoidal
        seed = rng.getrandbits(32)
        src = grow(_random.Random(seed), M["Id"], [b for b in M["pool"] if type(b) in
                                                    (monoidal.Box, monoidal.Swap)],
                   rng.choice(M["doms"]), rng.randint(2, 4), maxw=4)
        x, y, z, m = monoidal.Ty('x'), monoidal.Ty('y'), monoidal.Ty('z'), monoidal.Ty('m')
        ob = {x: x @ y, y: y, z: z @ z}

        def F_ob(t, ob=ob):
            res = monoidal.Ty()
            for o in t:
                res = res @ ob[monoidal.Ty(o)]
            return res

        def ar_m(box):
            return monoidal.Box(box.name + "1", F_ob(box.dom), m) >> monoidal.Box(
                box.name + "2", m, F_ob(box.cod))
        _try(out, "functor", "monoidal", "monoidal.Functor(x -> x @ y, box -> two boxes)(grow(seed=%d))" % seed,
             lambda src=src: monoidal.Functor(ob=ob, ar=ar_m)(src), None, skipped)
        # rigid functor on a pregroup sentence, into rigid diagrams and into circuits
        n, s = rigid.Ty('n'), rigid.Ty('s')
        Pg = pools.pregroup
        words = Pg["pool"][:5]
        sent_seed = rng.getrandbits(32)
        sentence = grow(_random.Random(sent_seed), rigid.Id, Pg["pool"], rigid.Ty(), rng.randint(3, 6), maxw=7)
        a, v = rigid.Ty('a'), rigid.Ty('v')

        obr = {n: a @ v, s: v}
        Fr = rigid.Functor(ob=obr, ar=lambda box: rigid.Box(box.name, Fr(box.dom), Fr(box.cod))
                           >> rigid.Box(box.name + "'", Fr(box.cod), Fr(box.cod)))
        _try(out, "functor", "rigid", "rigid.Functor(n -> a @ v, word -> two boxes)(pregroup grow(seed=%d))" % sent_seed,
             lambda sentence=sentence: Fr(sentence), None, skipped)
        G = gates
        q = circuit.qubit

        def ar_c(box):
            k = len(Fc(box.cod))
            state = circuit.Id(0).tensor(*[G.Ket(0)] * k)
            for i in range(k):
                state = state >> circuit.Id(i) @ G.H @ circuit.Id(k - i - 1)
            for i in range(k - 1):
                state = state >> circuit.Id(i) @ G.CX @ circuit.Id(k - i - 2)
            return state
        Fc = circuit.Functor(ob={n: 1, s: rng.choice([0, 1])}, ar=ar_c)
        _try(out, "functor", "circuit", "circuit.Functor(n -> 1, s -> 0|1, word -> Ket H CX state)(pregroup grow(seed=%d))" % sent_seed,
             lambda sentence=sentence: Fc(sentence), ev_tensor, skipped)
        # cartesian functor
        xr = rigid.Ty('x')
        f, g = rigid.Box('f', xr, xr @ xr), rigid.Box('g', xr @ xr, xr)
        cseed = rng.getrandbits(32)
        srcc = grow(_random.Random(cseed), rigid.Id, [f, g, rigid.Box('d', xr, rigid.Ty())],
                    rng.choice([xr, xr @ xr]), rng.randint(3, 6), maxw=5)
        Fk = cartesian.Functor(ob={xr: rigid.PRO(1)}, ar={
            f: cartesian.COPY, g: cartesian.ADD, rigid.Box('d', xr, rigid.Ty()): cartesian.DISCARD})
        _try(out, "functor", "cartesian", "cartesian.Functor(f -> COPY, g -> ADD, d -> DISCARD)(grow(seed=%d))" % cseed,
             lambda srcc=srcc: Fk(srcc), ev_cartesian, skipped)
        # circuit2zx
        zseed = rng.getrandbits(32)
        Pp = pools.pure
        pure = grow(_random.Random(zseed), circuit.Id, [b for b in Pp["pool"] if b.name in
                                                        ("H", "X", "Z", "CX", "CZ", "Rz(0.25)", "Ket(0)", "Bra(0)", "SWAP")],
                    rng.choice(Pp["doms"]), rng.randint(3, 6), maxw=4)
        _try(out, "functor", "zx", "circuit2zx(pure grow(seed=%d))" % zseed,
             lambda pure=pure: zx.circuit2zx(pure), None, skipped)
    return out


def one_box(pools, rng, tier, skipped):
    """Every box class used directly as a diagram, identities, sums and bubbles."""
    from discopy import monoidal, tensor
    from discopy.quantum import gates
    out = []
    for fam in pools.families():
        P = getattr(pools, fam)
        pool = list(P["pool"])
        if tier == "quick":
            pool = rng.sample(pool, min(4, len(pool)))
        for b in pool:
            _try(out, "one-box", fam, "%s box %s" % (fam, squeeze(b)[:60]), lambda b=b: b, None, skipped)
        dom = rng.choice(P["doms"])
        _try(out, "one-box", fam, "%s Id(%r)" % (fam, dom), lambda P=P, dom=dom: P["Id"](dom), None, skipped)
    x, y = monoidal.Ty('x'), monoidal.Ty('y')
    f, g = monoidal.Box('f', x, y), monoidal.Box('g', x, y)
    tb = tensor.Box('a', tensor.Dim(2), tensor.Dim(2), [1, 0, 0, 1])
    extra = [
        ("monoidal", "Box('f', x, y) + Box('g', x, y)", lambda: f + g),
        ("monoidal", "f + g + f", lambda: f + g + f),
        ("monoidal", "monoidal.Sum([], x, y)", lambda: monoidal.Sum([], x, y)),
        ("monoidal", "monoidal.Sum([f])", lambda: monoidal.Sum([f])),
        ("monoidal", "monoidal.Bubble(f >> Box('h', y, x))",
         lambda: monoidal.Bubble(f >> monoidal.Box('h', y, x))),
        ("circuit", "X + Z", lambda: gates.X + gates.Z),
        ("tensor", "tensor.Box('a', ...) + same", lambda: tb + tb),
        ("tensor", "tensor.Bubble(tensor.Box('a', ...))", lambda: tb.bubble()),
    ]
    for fam, label, thunk in extra:
        _try(out, "one-box", fam, label, thunk, None, skipped)
    return out


# ------------------------------------------------------------------ what can sit in `boxes`
#
# `boxes` is a list of arbitrary objects with a dom and a cod.  The regions below put there, for
# every diagram class: composite diagrams (diagrams of diagrams, 1 and 2 levels, identities, the
# library's own `foliation()`), formal sums (0, 1, 2 terms, of composites) and bubbles (nested,
# with their own dom/cod), boxes of a DIFFERENT class than the host diagram, boxes whose name is not
# a string or is a string that is hazardous for message formatting, and boxes of user subclasses
# that print themselves their own way (__str__ / __repr__ / __format__).  Each kind is laid out
#   grown         by the scanning constructor, layer by layer, drawing boxes from pool + odd objects
#   chain         [A, B] with B wired to A (every move must be refused)
#   blocked-*     [A, C, B]: C free on the far right / left, B wired to A (the long moves 0 -> 2 and
#                 2 -> 0 are refused part-way, after one legal step)
#   blocked-2     [A, C, C', B] (two legal steps, then the refusal)
#   side          [A, B] side by side (both orders legal)
# and every receiver gets all (i, j, left) of [-1, n]^2 in the check.

NONSTR_NAMES = [0, 1, -3, 2.5, (1, 2), (), ('f', ('g', 0)), None, True, False, b'f', b'', 10 ** 30,
                frozenset([1]), Ellipsis, 1j]
HAZARD_NAMES = ['', ' ', 'a b', '{}', '{0}', '{1}', '{2}', '{name}', '{0.name}', '{0[0]}', '%s', '%(name)s',
                '%d', '%', '{', '}', 'tab\there', 'new\nline', 'β→', "quo'te", '"', '\\', 'x' * 300]
ODD_NAMES = NONSTR_NAMES + HAZARD_NAMES

ODD_TEXTS = ['{}', '{0} {1}', '{2}', '{box0.name}', '{0.name}', '%s %d', '%(x)s', '', ' ',
             'two\nlines', 'β→', 'y' * 5000, 'Boxes {} and {} do not commute.', '{', '}', '%']


class OddName:
    """A name that is an object of a user class (printed its own way)."""

    def __init__(self, text, rep):
        self.text, self.rep = text, rep

    def __str__(self):
        return self.text

    def __repr__(self):
        return self.rep

    def __eq__(self, other):
        return isinstance(other, OddName) and (self.text, self.rep) == (other.text, other.rep)

    def __hash__(self):
        return hash((self.text, self.rep))


_ODD = {}


def odd_str_box(b, text, rep, fmt=None):
    """The box `b` as an instance of a user subclass of its own class that prints itself its own
    way: __str__ -> text, __repr__ -> rep, and (fmt given) __format__ -> fmt."""
    import copy
    key = (type(b), fmt is not None)
    if key not in _ODD:
        base = type(b)
        ns = {"__str__": lambda self: self.odd_text, "__repr__": lambda self: self.odd_repr,
              "__hash__": lambda self: hash((type(self).__name__, self.odd_repr))}
        if fmt is not None:
            ns["__format__"] = lambda self, spec: self.odd_fmt
        _ODD[key] = type("OddStr_" + base.__name__, (base,), ns)
    b = copy.copy(b)
    b.__class__ = _ODD[key]
    b.odd_text, b.odd_repr, b.odd_fmt = text, rep, fmt
    return b


def _safe(thunk, skipped=None, label=""):
    try:
        x = thunk()
        x.dom, x.cod
        return x
    except Exception as exc:
        if skipped is not None:
            skipped.append((label, "%s: %s" % (type(exc).__name__, exc)))
        return None


def _prod(t):
    n = 1
    for x in t:
        n *= int(getattr(x, "name", x))
    return n


def box_makers(pools):
    """family -> (name, dom, cod) -> a generator of that family's Box class with that name."""
    m = pools.mods
    return dict(
        monoidal=lambda nm, dom, cod: m["monoidal"].Box(nm, dom, cod),
        rigid=lambda nm, dom, cod: m["rigid"].Box(nm, dom, cod),
        pregroup=lambda nm, dom, cod: m["rigid"].Box(nm, dom, cod),
        biclosed=lambda nm, dom, cod: m["biclosed"].Box(nm, dom, cod),
        cartesian=lambda nm, dom, cod: m["cartesian"].Box(
            nm, dom, cod, lambda *xs, k=len(cod): tuple(sum(xs) + t for t in range(k)) if k != 1 else sum(xs)),
        tensor=lambda nm, dom, cod: m["tensor"].Box(nm, dom, cod, list(range(_prod(dom) * _prod(cod)))),
        circuit=lambda nm, dom, cod: m["circuit"].Box(nm, dom, cod, is_mixed=True),
        zx=lambda nm, dom, cod: m["zx"].Box(nm, dom, cod))


def family_dom(P, dom):
    return P["Id"](dom).dom


def raw(base, dom, placed):
    """`base(dom, cod, boxes, offsets)` for boxes placed at the given offsets: the scanning
    constructor, no >> and no @ (which would dissolve a composite box into its own boxes)."""
    scan, boxes, offs = dom, [], []
    for b, off in placed:
        if off < 0 or scan[off:off + len(b.dom)] != b.dom or len(scan[off:off + len(b.dom)]) != len(b.dom):
            raise ValueError("box does not fit at its offset")
        boxes.append(b)
        offs.append(off)
        scan = scan[:off] @ b.cod @ scan[off + len(b.dom):]
    return base(dom, scan, boxes, offs)


def grow_raw(rng, base, pool, odd, dom, depth, maxw=6, p_odd=0.6):
    """Grow layer by layer like `grow`, through the scanning constructor; a fitting odd object is
    preferred with probability p_odd."""
    scan, placed = dom, []
    for _ in range(depth):
        n = len(scan)

        def fits(objs):
            out = []
            for b in objs:
                k = len(b.dom)
                if n - k + len(b.cod) > maxw:
                    continue
                for off in range(n - k + 1):
                    if scan[off:off + k] == b.dom:
                        out.append((b, off))
            return out
        c_odd, c_pool = fits(odd), fits(pool)
        if c_odd and (not c_pool or rng.random() < p_odd):
            b, off = rng.choice(c_odd)
        elif c_pool:
            b, off = rng.choice(c_pool)
        else:
            break
        placed.append((b, off))
        scan = scan[:off] @ b.cod @ scan[off + len(b.dom):]
    return raw(base, dom, placed)


def wirings(a, b):
    """Shifts s such that b's domain, starting s wires right of the start of a's codomain, meets
    it in >= 1 wire and agrees with it on every shared wire."""
    C, D = a.cod, b.dom
    out = []
    for s in range(-len(D) + 1, len(C)):
        lo, hi = max(0, s), min(len(C), s + len(D))
        if hi > lo and all(C[t:t + 1] == D[t - s:t - s + 1] for t in range(lo, hi)):
            out.append(s)
    return out


def wired_pair(a, b, s):
    """(dom, [(a, offa), (b, offb)]) with b wired under a at shift s."""
    C, D = a.cod, b.dom
    lpad = D[:max(0, -s)]
    rpad = D[len(C) - s:] if s + len(D) > len(C) else D[:0]
    dom = lpad @ a.dom @ rpad
    return dom, [(a, len(lpad)), (b, len(lpad) + s)]


def layouts(rng, base, a, b, frees, thorough):
    """Receivers' (shape, thunk) for the pair A over B: wired (chain / blocked) and free (side)."""
    out = []
    ss = wirings(a, b)
    if ss:
        shifts = ss if thorough else [rng.choice(ss)]
        for s in shifts:
            dom, (pa, pb) = wired_pair(a, b, s)
            out.append(("chain", lambda dom=dom, pa=pa, pb=pb: raw(base, dom, [pa, pb])))
        dom, (pa, pb) = wired_pair(a, b, rng.choice(ss))
        after_a = len(dom) - len(a.dom) + len(a.cod)
        c = rng.choice(frees)
        out.append(("blocked-right", lambda dom=dom, pa=pa, pb=pb, c=c, w=after_a: raw(
            base, dom @ c.dom, [pa, (c, w), pb])))
        c = rng.choice(frees)
        out.append(("blocked-left", lambda dom=dom, pa=pa, pb=pb, c=c: raw(
            base, c.dom @ dom, [(pa[0], pa[1] + len(c.dom)), (c, 0), (pb[0], pb[1] + len(c.cod))])))
        if thorough or rng.random() < 0.34:
            c, c2 = rng.choice(frees), rng.choice(frees)
            out.append(("blocked-2", lambda dom=dom, pa=pa, pb=pb, c=c, c2=c2, w=after_a: raw(
                base, c2.dom @ dom @ c.dom,
                [(pa[0], pa[1] + len(c2.dom)), (c, w + len(c2.dom)), (c2, 0),
                 (pb[0], pb[1] + len(c2.cod))])))
    out.append(("side", lambda: raw(base, a.dom @ b.dom, [(a, 0), (b, len(a.cod))])))
    return out


def composites(rng, P, n, skipped):
    """(label, composite diagram) built from a family's pool: sequential, parallel, whiskered,
    grown (>= 2 boxes), identities (no box), and two-level ones (a diagram whose boxes are
    composites)."""
    import random as _random
    Id, pool, base = P["Id"], P["pool"], P["base"]
    doms = [family_dom(P, t) for t in P["doms"]]
    atoms = [t[k:k + 1] for t in doms for k in range(len(t))] or doms
    seqs = [(a, b) for a in pool for b in pool if len(a.cod) and a.cod == b.dom]
    out = []

    def add(label, thunk):
        c = _safe(thunk, skipped, label)
        if c is not None and len(c.dom) <= 4 and len(c.cod) <= 4:
            out.append((label, c))
    for k in range(n):
        kind = ["seq", "par", "whisker", "grown", "ident", "seq", "par"][k % 7]
        if kind == "seq" and seqs:
            a, b = rng.choice(seqs)
            add("%s >> %s" % (a, b), lambda: a >> b)
        elif kind == "par":
            a, b = rng.choice(pool), rng.choice(pool)
            add("%s @ %s" % (a, b), lambda: a @ b)
        elif kind == "whisker":
            a, t = rng.choice(pool), rng.choice(atoms)
            if rng.random() < 0.5:
                add("Id(%s) @ %s" % (t, a), lambda: Id(t) @ a)
            else:
                add("%s @ Id(%s)" % (a, t), lambda: a @ Id(t))
        elif kind == "grown":
            seed, dom, dep = rng.getrandbits(32), rng.choice(doms), rng.randint(2, 3)
            add("grow(seed=%d, dom=%r, depth=%d)" % (seed, dom, dep),
                lambda: grow(_random.Random(seed), Id, pool, dom, dep, maxw=4))
        else:
            t = rng.choice(doms + atoms)
            add("Id(%s)" % (t,), lambda: Id(t))
    out = [(l, c) for l, c in out if len(c.boxes) != 1]
    level1 = list(out)
    for label, c in rng.sample(level1, min(len(level1), max(1, n // 4))):
        add("Diagram(boxes=[%s])" % label, lambda c=c: base(c.dom, c.cod, [c], [0]))
    if level1:
        for _ in range(max(1, n // 6)):
            seed, dom = rng.getrandbits(32), rng.choice(doms)
            add("Diagram(boxes=composites; seed=%d, dom=%r)" % (seed, dom), lambda: grow_raw(
                _random.Random(seed), base, [], [c for _, c in level1], dom, 3, maxw=4))
    return [(l, c) for l, c in out if is_composite(c)]


def sums_bubbles(rng, P, n, skipped, fam):
    """(label, object) formal sums (2 terms, of a composite, 1 term, no term) and bubbles (of a
    box, of a composite, of a bubble, with dom/cod of their own) over the family's pool."""
    pool, out = P["pool"], []
    seqs = [(a, b) for a in pool for b in pool if len(a.cod) and a.cod == b.dom]

    def add(label, thunk):
        c = _safe(thunk, skipped, label)
        if c is not None and not is_composite(c):
            out.append((label, c))
    for k in range(n):
        a = rng.choice(pool)
        kind = ["sum2", "bubble", "sum-of-composite", "bubble-of-composite", "sum1", "sum0",
                "bubble-bubble", "bubble-domcod", "sum3"][k % 9]
        if kind == "sum2":
            add("(%s) + (%s)" % (a, a), lambda: a + a)
        elif kind == "sum3":
            add("(%s) + (%s) + (%s)" % (a, a, a), lambda: a + a + a)
        elif kind == "sum1":
            add("Sum([%s])" % (a,), lambda: type(a + a)([a]))
        elif kind == "sum0":
            add("Sum([], %s, %s)" % (a.dom, a.cod), lambda: type(a + a)([], a.dom, a.cod))
        elif kind == "sum-of-composite" and seqs:
            a, b = rng.choice(seqs)
            add("(%s >> %s) + (%s >> %s)" % (a, b, a, b), lambda: (a >> b) + (a >> b))
        elif kind == "bubble":
            add("(%s).bubble()" % (a,), lambda: a.bubble())
        elif kind == "bubble-of-composite" and seqs:
            a, b = rng.choice(seqs)
            add("(%s >> %s).bubble()" % (a, b), lambda: (a >> b).bubble())
        elif kind == "bubble-bubble":
            add("(%s).bubble().bubble()" % (a,), lambda: a.bubble().bubble())
        elif kind == "bubble-domcod":
            b = rng.choice(pool)
            add("Bubble(%s, dom=%s, cod=%s)" % (a, b.dom, b.cod),
                lambda: type(a.bubble())(a, dom=b.dom, cod=b.cod))
    return out


def odd_named(rng, P, n, skipped, fam, mk):
    """(label, box) generators shaped like the family's pool boxes whose name is not a string (int,
    float, tuple, None, bool, bytes, an object of a user class) or a hazardous string."""
    out = []
    for k in range(n):
        a = rng.choice(P["pool"])
        if k % 5 == 4:
            nm = OddName(rng.choice(ODD_TEXTS), rng.choice(["<name>", "{}", "%s", ""]))
        else:
            nm = rng.choice(NONSTR_NAMES if k % 5 in (0, 2, 3) else HAZARD_NAMES)
        c = _safe(lambda: mk(nm, a.dom, a.cod), skipped, "%s Box(%r, ...)" % (fam, nm))
        if c is not None:
            out.append(("Box(%s, %s, %s)" % (squeeze(nm), a.dom, a.cod), c))
    return out


def odd_printed(rng, P, n, skipped, fam, mk):
    """(label, box) pool boxes (and same-shaped fresh ones) as instances of a user subclass with its
    own __str__ / __repr__ (/ __format__)."""
    out = []
    for k in range(n):
        a = rng.choice(P["pool"])
        if k % 2:
            a = _safe(lambda: mk("p%d" % k, a.dom, a.cod), skipped, "") or a
        text, rep = rng.choice(ODD_TEXTS), rng.choice(ODD_TEXTS + ["<box %d>" % k])
        fmt = rng.choice(ODD_TEXTS) if k % 4 == 3 else None
        c = _safe(lambda: odd_str_box(a, text, rep, fmt), skipped, "%s odd_str_box" % fam)
        if c is not None:
            out.append(("OddStr(%s; str=%s, repr=%s%s)" % (
                squeeze(a.name), squeeze(text), squeeze(rep),
                "" if fmt is None else ", format=" + squeeze(fmt)), c))
    return out


def open_boxes(d):
    """The harness's own flattening, with the class's own >> and @ (no functor): every composite
    box is replaced by its layers, recursively."""
    out = d.id(d.dom)
    for left, box, right in d.layers:
        inner = open_boxes(box) if is_composite(box) else box
        out = out >> d.id(left) @ inner @ d.id(right)
    return out


def flatten_comparable(d):
    """No formal sum and no bubble anywhere inside: `flatten()` distributes sums (the diagram
    becomes one Sum) and rebuilds bubbles, so its output is comparable box by box only without."""
    for b in d.boxes:
        if is_composite(b):
            if not flatten_comparable(b):
                return False
        elif hasattr(b, "terms") or hasattr(b, "inside"):
            return False
    return True


def ev_flat(ev):
    """The class's own evaluation of a diagram of diagrams: of its opened form."""
    if ev is None:
        return None
    return lambda x, mixed=False: ev(open_boxes(x), mixed=mixed)


def rebuilt_flattens(d, r):
    """Does the diagram built directly from r's dom, cod, boxes, offsets (by the first class of d's
    MRO whose constructor takes them) flatten?"""
    for cls in type(d).__mro__:
        try:
            x = cls(r.dom, r.cod, list(r.boxes), list(r.offsets))
        except Exception:
            continue
        try:
            x.flatten()
            return True
        except Exception:
            return False
    return False


FOREIGN_HOSTS = ["monoidal", "rigid", "biclosed", "tensor", "circuit"]


def box_kinds(pools, rng, tier, skipped):
    import random as _random
    thorough = tier != "quick"
    out = []
    mk = box_makers(pools)

    def emit(region, fam, shape, label, thunk, ev=None):
        d = _try(out, region, fam, label, thunk, ev, skipped)
        if d is None:
            return None
        if region == "foreign-box":
            # admitted only if the host class takes the foreign types as they are: its own
            # `upgrade` (applied to every result of a rewrite) must leave the RECEIVER unchanged
            try:
                up = type(d).upgrade(d)
                same = rser_diagram(up) == rser_diagram(d) and wf_failure_any(d) is None \
                    and wf_failure_any(up) is None
            except Exception:
                same = False
            if not same:
                out.pop()
                skipped.append((label, "foreign types are re-typed by the host class"))
                return None
        out[-1].shape = shape
        return d

    def lay(region, fam, host, odd, pool, n_grown, n_pairs, ev=None, what=""):
        """Receivers of class `host` for one kind of odd objects `odd` = [(label, object)]."""
        if not odd:
            return
        P = getattr(pools, fam)
        objs = [c for _, c in odd]
        names = dict((id(c), l) for l, c in odd)

        def nm(b):
            return names.get(id(b), squeeze(b)[:40])
        for _ in range(n_grown):
            seed, dom = rng.getrandbits(32), family_dom(P, rng.choice(P["doms"]))
            dep = rng.choice([2, 3, 3, 4, 5] if not thorough else [2, 3, 4, 5, 6, 8])
            emit(region, fam, "grown", "%s %s.Diagram(dom, cod, boxes, offsets) grown from the pool and %d %s, "
                 "seed=%d, dom=%r, depth=%d" % (what, host.__module__.split(".")[-1], len(objs), region, seed,
                                                dom, dep),
                 lambda: grow_raw(_random.Random(seed), host, pool, objs, dom, dep), ev)
        frees = [b for b in pool + objs if len(b.dom) + len(b.cod) <= 4]
        for _ in range(n_pairs):
            o = rng.choice(objs)
            partners = [p for p in objs + pool if wirings(o, p) or wirings(p, o)]
            if not partners:
                emit(region, fam, "side", "%s [%s] beside itself" % (what, nm(o)),
                     lambda: raw(host, o.dom @ o.dom, [(o, 0), (o, len(o.cod))]), ev)
                continue
            p = rng.choice(partners)
            pairs = [(a, b) for a, b in ((o, p), (p, o)) if wirings(a, b)]
            a, b = rng.choice(pairs)
            for shape, thunk in layouts(rng, host, a, b, frees, thorough):
                emit(region, fam, shape, "%s %s of [%s] over [%s]" % (what, shape, nm(a), nm(b)), thunk, ev)

    n_obj = 8 if not thorough else 20
    kinds = {}
    for fam in pools.families():
        P = getattr(pools, fam)
        base, pool = P["base"], list(P["pool"])
        if fam == "cartesian":
            from discopy import cartesian
            pool += [cartesian.Copy(2), cartesian.Swap(1, 2), cartesian.Discard(2)]
        if fam == "circuit":
            from discopy.quantum.circuit import IQPansatz
            pool += [IQPansatz(2, [[0.25]])]
        ng, npairs = (1, 2) if not thorough else (4, 7)
        comp = composites(rng, P, n_obj, skipped)
        sb = sums_bubbles(rng, P, n_obj, skipped, fam)
        on = odd_named(rng, P, n_obj, skipped, fam, mk[fam])
        op = odd_printed(rng, P, n_obj, skipped, fam, mk[fam])
        kinds[fam] = comp + sb + on + op
        evf = ev_flat(P["ev"])
        lay("nested", fam, base, comp, pool, ng, npairs, evf, fam)
        lay("sum-bubble-box", fam, base, sb, pool, max(1, ng // 2), max(1, npairs - 1), None, fam)
        lay("odd-name", fam, base, on, pool, max(1, ng // 2), max(1, npairs - 1), None, fam)
        lay("odd-str", fam, base, op, pool, max(1, ng // 2), max(1, npairs - 1), None, fam)
        lay("mixed-kinds", fam, base, kinds[fam], pool, 1 if not thorough else ng // 2,
            0 if not thorough else 2, None, fam)
        # the library's own diagrams of diagrams
        for _ in range(1 if not thorough else 4):
            seed, dom, dep = rng.getrandbits(32), rng.choice(P["doms"]), rng.randint(3, 6)
            emit("nested", fam, "foliation", "grow(%s, dom=%r, depth=%d, seed=%d).foliation()" % (fam, dom, dep, seed),
                 lambda: grow(_random.Random(seed), P["Id"], P["pool"], dom, dep, maxw=5).foliation(), evf)
    # boxes of another class than the diagram that holds them
    combos = [(h, s_) for h in FOREIGN_HOSTS for s_ in pools.families() if s_ != h
              and not (h == "rigid" and s_ == "pregroup")] + [("zx", "cartesian"), ("cartesian", "zx")]
    if not thorough:
        combos = [("monoidal", "rigid"), ("rigid", "monoidal")] + rng.sample(combos, 5)
    for h, s_ in combos:
        H, S = getattr(pools, h), getattr(pools, s_)
        src = list(S["pool"])
        plain = [(squeeze(b)[:40], b) for b in src]
        extra = rng.sample(kinds[s_], min(len(kinds[s_]), 4))
        lay("foreign-box", s_, H["base"], plain + extra, [], 1 if not thorough else 2,
            1 if not thorough else 3, None, "%s boxes in a" % s_)
    # pinned: the textbook diagrams of diagrams
    from discopy.monoidal import Ty, Box, Id, Diagram
    x, y, z = Ty('x'), Ty('y'), Ty('z')
    f, g, h = Box('f', x, y), Box('g', y, z), Box('h', z, x)
    fg, gh, hf = f >> g, g >> h, h >> f
    pinned = [
        ("chain", "Diagram(x, x, [f >> g, h], [0, 0])", lambda: Diagram(x, x, [fg, h], [0, 0])),
        ("chain", "Diagram(x, y, [f >> g, h >> f], [0, 0])", lambda: Diagram(x, y, [fg, hf], [0, 0])),
        ("chain", "Diagram(y @ y, x @ z, [g @ g, h @ Id(z)], [0, 0])",
         lambda: Diagram(y @ y, x @ z, [g @ g, h @ Id(z)], [0, 0])),
        ("blocked-right", "Diagram(x @ y, x @ x, [f >> g, g >> h, h], [0, 1, 0])",
         lambda: Diagram(x @ y, x @ x, [fg, gh, h], [0, 1, 0])),
        ("side", "Diagram(x @ y @ z, z @ x @ y, [f >> g, g >> h, h >> f], [0, 1, 2])",
         lambda: Diagram(x @ y @ z, z @ x @ y, [fg, gh, hf], [0, 1, 2])),
        ("chain", "Diagram(x, x, [Id(x), Id(x)], [0, 0])", lambda: Diagram(x, x, [Id(x), Id(x)], [0, 0])),
        ("side", "Diagram(x, x, [Id(Ty()), Id(Ty()), f >> g >> h], [0, 1, 0])",
         lambda: Diagram(x, x, [Id(Ty()), Id(Ty()), fg >> h], [0, 1, 0])),
    ]
    for shape, label, thunk in pinned:
        emit("nested", "monoidal", shape, label, thunk, None)
    return out


def receivers(rng, tier):
    """All receivers of one run, and the list of constructions the library refused."""
    pools = Pools()
    skipped = []
    out = []
    out += own_ctor_library(rng, tier, skipped)
    out += grown(pools, rng, tier, skipped)
    out += helpers(pools, rng, tier, skipped)
    out += functor_results(pools, rng, tier, skipped)
    out += one_box(pools, rng, tier, skipped)
    out += box_kinds(pools, rng, tier, skipped)
    return out, skipped
