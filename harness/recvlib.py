"""Receivers for C05: diagrams of EVERY diagram class of the library, and of their subclasses with a
constructor of their own, as the library and its users build them.

`receivers(rng, tier)` yields `Receiver` records (label = how it was built, d = the real object,
family, ev = the class's own evaluation or None).  The regions visited (counted by the caller):

  own-ctor    instances of Diagram subclasses whose __init__ does not take (dom, cod, boxes, offsets,
              layers): quantum IQPansatz, cartesian Copy / Discard / Swap / Id shipped by the library,
              and `Own_<class>` (a user-side subclass defined here the way IQPansatz is defined, one
              per diagram class: monoidal, rigid, biclosed, cartesian, tensor, circuit, zx)
  plain       instances of each class's Diagram built with >> and @ from a pool of its boxes, by the
              scanning constructor, and through slicing / dagger / tensor powers
  helper      outputs of swap / permutation / cups / caps / spiders / Id.tensor / ansatz functions
  functor     results of monoidal / rigid / circuit / cartesian functors and of circuit2zx
  one-box     every box class used directly as a one-box diagram (gates, spiders, words, Sum, Bubble,
              Curry, ...) and identities (no box)

Serialisation is by (name, z) objects exactly as in core.spec_diagram, but tolerant of any box data
(numpy arrays, phases, functions): data and non-string names are reduced to a whitespace-free token.
"""
import hashlib

import numpy as np

from common import box_kind, err_class
from core import tok_ty, tok_box


# ------------------------------------------------------------------ serialisation by (name, z)

def squeeze(x):
    s = "".join(repr(x).split())
    if len(s) > 60:
        s = s[:20] + "#" + hashlib.sha1(s.encode()).hexdigest()[:16]
    return s


def plain_name(x):
    return x if isinstance(x, (str, int)) and not isinstance(x, bool) else "~" + squeeze(x)


def rspec_ty(t):
    return [(plain_name(x.name), int(getattr(x, "z", 0) or 0)) for x in t.objects]


def rspec_box(b):
    k = box_kind(b)
    data = getattr(b, "data", None)
    return dict(kind=k, name=plain_name(b.name) if k == "g" else None,
                dom=rspec_ty(b.dom), cod=rspec_ty(b.cod),
                dagger=bool(getattr(b, "is_dagger", False)) if k == "g" else False,
                data=None if (data is None or k != "g") else squeeze(data))


def rspec_diagram(d):
    """`mk` expression of a real diagram of any class (objects by (name, z))."""
    return ("mk", rspec_ty(d.dom), rspec_ty(d.cod), [rspec_box(b) for b in d.boxes],
            [int(o) for o in d.offsets])


def rser_box(b):
    return tok_box(rspec_box(b))


def rser_diagram(d):
    """Same token format as common.ser_diagram (the driver's `ok` answer)."""
    ls = d.layers

    def lst(f, xs):
        xs = list(xs)
        return " ".join([str(len(xs))] + [f(x) for x in xs])

    def layer(l):
        left, box, right = l
        return "%s %s %s" % (tok_ty(rspec_ty(left)), rser_box(box), tok_ty(rspec_ty(right)))
    return "%s %s %s %s %s %s %s" % (
        tok_ty(rspec_ty(d.dom)), tok_ty(rspec_ty(d.cod)), lst(rser_box, d.boxes),
        lst(lambda o: str(int(o)), d.offsets),
        tok_ty(rspec_ty(ls.dom)), tok_ty(rspec_ty(ls.cod)), lst(layer, ls.boxes))


def rser_result(fn):
    try:
        return "ok " + rser_diagram(fn()), None
    except Exception as exc:  # noqa: the class is the observation
        return "err " + err_class(exc), exc


def wf_failure_any(d):
    """common.wf_failure (C01's predicate: the scan by (name, z) lists) for a diagram of any class:
    the box of a layer is compared by identity, then by its (name, z) token, never with the
    library's `==` (which raises on some box classes, e.g. a tensor.Bubble has no array)."""
    from common import ty_key
    try:
        scan = ty_key(d.dom)
        layers = list(d.layers.boxes)
        if not (len(d.boxes) == len(d.offsets) == len(layers)):
            return "lengths of boxes/offsets/layers differ"
        if ty_key(d.layers.dom) != scan or ty_key(d.layers.cod) != ty_key(d.cod):
            return "layers.dom/cod differ from dom/cod"
        for k, (box, off, layer) in enumerate(zip(d.boxes, d.offsets, layers)):
            left, lbox, right = layer
            bdom, bcod = ty_key(box.dom), ty_key(box.cod)
            if not isinstance(off, int) or not 0 <= off <= len(scan) - len(bdom):
                return "offset %r of box %d out of range" % (off, k)
            if scan[off:off + len(bdom)] != bdom:
                return "box %d does not find its domain at its offset" % k
            if not ((lbox is box or rser_box(lbox) == rser_box(box))
                    and ty_key(lbox.dom) == bdom and ty_key(lbox.cod) == bcod
                    and ty_key(left) == scan[:off] and ty_key(right) == scan[off + len(bdom):]):
                return "layer %d disagrees with boxes/offsets" % k
            scan = scan[:off] + bcod + scan[off + len(bdom):]
        if scan != ty_key(d.cod):
            return "scan does not reach the codomain"
        return None
    except Exception as exc:
        return "exception while checking: %r" % (exc,)


# ------------------------------------------------------------------ free integer functor

class FreeIntFunctor:
    """A monoidal functor into integer matrices defined on the free category over the boxes at
    hand: a random dimension (1 or 2) per object name, a random integer matrix per distinct box
    (distinct by its (name, z) token, dagger flag included — no relation imposed between a box
    and its dagger, swaps are generators too).  int64 arithmetic; a wrap-around is a ring
    homomorphism, so equal diagrams still evaluate equal.  Computed layer by layer with Kronecker
    products, nothing of discopy's evaluation is used."""

    def __init__(self, rng, maxdim=2):
        self.rng, self.maxdim, self.dims, self.arrays = rng, maxdim, {}, {}

    def dim(self, ob):
        key = squeeze(ob.name)
        if key not in self.dims:
            self.dims[key] = self.rng.randint(1, self.maxdim)
        return self.dims[key]

    def tydim(self, ty):
        n = 1
        for ob in ty.objects:
            n *= self.dim(ob)
        return n

    def box(self, box):
        key = rser_box(box)
        if key not in self.arrays:
            m, n = self.tydim(box.dom), self.tydim(box.cod)
            self.arrays[key] = np.array(
                [[self.rng.randint(-2, 2) for _ in range(n)] for _ in range(m)],
                dtype=np.int64).reshape(m, n)
        return self.arrays[key]

    def eval(self, d):
        out = np.eye(self.tydim(d.dom), dtype=np.int64)
        for left, box, right in d.layers.boxes:
            layer = np.kron(np.kron(np.eye(self.tydim(left), dtype=np.int64), self.box(box)),
                            np.eye(self.tydim(right), dtype=np.int64))
            out = out @ layer
        return out


def max_width(d):
    w = len(d.dom)
    for l in d.layers.boxes:
        w = max(w, len(l.cod), len(l.dom))
    return w


# ------------------------------------------------------------------ class evaluations

def ev_tensor(x):
    """tensor.Diagram / Circuit evaluation (discopy's own), as an array."""
    from discopy import tensor
    if not hasattr(x, "eval"):
        x = tensor.Diagram.upgrade(x)
    return np.asarray(x.eval().array)


def ev_cartesian(x):
    from discopy import cartesian
    if not isinstance(x, cartesian.Diagram):
        x = cartesian.Diagram.upgrade(x)
    args = tuple(range(10, 10 + len(x.dom)))
    out = x(*args)
    return np.asarray(out if isinstance(out, tuple) else (out,), dtype=object)


def same_value(a, b):
    a, b = np.asarray(a), np.asarray(b)
    if a.shape != b.shape:
        return False
    if a.dtype == object or b.dtype == object:
        return a.tolist() == b.tolist()
    if np.issubdtype(a.dtype, np.integer) and np.issubdtype(b.dtype, np.integer):
        return bool(np.array_equal(a, b))
    return bool(np.allclose(a, b, rtol=1e-9, atol=1e-9))


# ------------------------------------------------------------------ receivers

class Receiver:
    def __init__(self, region, family, label, d, ev=None):
        self.region, self.family, self.label, self.d, self.ev = region, family, label, d, ev


_OWN = {}


def own_class(base):
    """A user-side subclass of a diagram class with a constructor of its own (the pattern of
    quantum.circuit.IQPansatz: compute the diagram, hand its fields to the base constructor)."""
    if base not in _OWN:
        class Own(base):
            def __init__(self, inner):
                self.inner = inner
                base.__init__(self, inner.dom, inner.cod, inner.boxes, inner.offsets,
                              layers=inner.layers)
        Own.__name__ = Own.__qualname__ = "Own_" + base.__module__.split(".")[-1]
        _OWN[base] = Own
    return _OWN[base]


def grow(rng, Id, pool, dom, depth, maxw=6):
    """Grow a diagram of the class of `Id` from `dom`, one pool box per layer, with >> and @."""
    d = Id(dom)
    for _ in range(depth):
        cod, n = d.cod, len(d.cod)
        cands = []
        for b in pool:
            k = len(b.dom)
            if n - k + len(b.cod) > maxw:
                continue
            for off in range(n - k + 1):
                if cod[off:off + k] == b.dom:
                    cands.append((b, off))
        if not cands:
            break
        b, off = rng.choice(cands)
        d = d >> Id(cod[:off]) @ b @ Id(cod[off + len(b.dom):])
    return d


class Pools:
    """Boxes of every class (built once; labels are the usual discopy spellings)."""

    def __init__(self):
        from discopy import monoidal, rigid, biclosed, cartesian, tensor
        from discopy.quantum import circuit, gates, zx
        from discopy.grammar import pregroup
        M, R, B, C, T = monoidal, rigid, biclosed, cartesian, tensor
        self.mods = dict(monoidal=M, rigid=R, biclosed=B, cartesian=C, tensor=T,
                         circuit=circuit, zx=zx)
        # ---- monoidal
        x, y, z = M.Ty('x'), M.Ty('y'), M.Ty('z')
        f, f2 = M.Box('f', x, y), M.Box('f2', x, y)
        self.monoidal = dict(
            Id=M.Id, base=M.Diagram, doms=[M.Ty(), x, x @ y, x @ x @ y], ev=None,
            pool=[f, M.Box('g', y, x @ x), M.Box('h', x @ y, z), M.Box('s', M.Ty(), M.Ty()),
                  M.Box('u', M.Ty(), x), M.Box('e', x, M.Ty()), M.Box('k', z, z).dagger(),
                  M.Swap(x, y), M.Swap(y, x), f + f2, M.Bubble(f),
                  M.Box('d', x, x, data={"k": [1, 2.5]})])
        # ---- rigid
        n, s = R.Ty('n'), R.Ty('s')
        self.rigid = dict(
            Id=R.Id, base=R.Diagram, doms=[R.Ty(), n, n @ n.r, s @ n], ev=None,
            pool=[R.Box('a', R.Ty(), n), R.Box('v', R.Ty(), n.r @ s @ n.l), R.Box('t', n, n @ s),
                  R.Cup(n, n.r), R.Cup(n.l, n), R.Cap(n.r, n), R.Cap(n, n.l), R.Swap(n, s),
                  R.Box('q', s, R.Ty()), R.Box('w', n.r, n.r).dagger()])
        # ---- pregroup grammar (rigid diagrams of Words and Cups)
        W = pregroup.Word
        self.pregroup = dict(
            Id=R.Id, base=R.Diagram, doms=[R.Ty()], ev=None,
            pool=[W('Alice', n), W('loves', n.r @ s @ n.l), W('Bob', n), W('who', n.r @ n @ s.l @ n),
                  W('runs', n.r @ s), R.Cup(n, n.r), R.Cup(n.l, n), R.Cup(s.l, s)])
        # ---- biclosed
        bx, by, bz = B.Ty('x'), B.Ty('y'), B.Ty('z')
        self.biclosed = dict(
            Id=B.Id, base=B.Diagram, doms=[B.Ty(), bx, (bx << by) @ by, bx @ (bx >> by)], ev=None,
            pool=[B.FA(bx << by), B.BA(bx >> by), B.FC(bx << by, by << bz), B.BC(bx >> by, by >> bz),
                  B.Box('w', B.Ty(), bx << by), B.Box('o', B.Ty(), by), B.Box('p', B.Ty(), bx),
                  B.Box('m', bx, bx >> by), B.Box('c', by, B.Ty()),
                  B.Curry(B.Box('r', bx @ by, bz)), B.FX(bx << by, bz >> by)])
        # ---- cartesian
        self.cartesian = dict(
            Id=C.Id, base=C.Diagram, doms=[0, 1, 2, 3], ev=ev_cartesian,
            pool=[C.COPY, C.SWAP, C.DISCARD, C.ADD, C.Box('neg', 1, 1, lambda x: -x),
                  C.Box('seven', 0, 1, lambda: 7), C.Box('split', 1, 3, lambda x: (x, x + 1, x + 2)),
                  C.Box('mul', 2, 1, lambda x, y: x * y)])
        # ---- tensor
        D = T.Dim
        self.tensor = dict(
            Id=T.Id, base=T.Diagram, doms=[D(1), D(2), D(2, 3), D(3, 2, 2)], ev=ev_tensor,
            pool=[T.Box('v', D(1), D(2), [1, 2]), T.Box('m', D(2), D(2, 3), [1, 0, 2, -1, 3, 1, 0, 2, 1, 1, -2, 0]),
                  T.Box('e', D(3), D(1), [1, -1, 2]), T.Box('c', D(1), D(1), [3]),
                  T.Box('j', D(2, 2), D(3), list(range(12))), T.Swap(D(2), D(3)),
                  T.Swap(D(3), D(2)), T.Spider(1, 2, D(2)), T.Spider(2, 0, D(3)),
                  T.Box('p', D(3), D(3), list(range(9))).dagger()])
        # ---- circuits
        G, q, b = gates, circuit.qubit, circuit.bit
        self.circuit = dict(
            Id=circuit.Id, base=circuit.Circuit, doms=[q ** 0, q, q ** 2, q ** 3, b @ q], ev=ev_tensor,
            pool=[G.H, G.X, G.Z, G.S, G.CX, G.CZ, G.Rz(0.25), G.Rx(0.125), G.Ry(0.3), G.CRz(0.3),
                  G.CU1(0.75), G.Ket(0), G.Ket(1, 0), G.Bra(0), G.Bra(1), G.SWAP,
                  G.scalar(0.5), G.sqrt(2), circuit.Measure(), circuit.Discard(),
                  circuit.Measure(destructive=False), circuit.Encode(), G.Bits(1), G.Bits(0).dagger(),
                  circuit.MixedState(), G.Copy(), G.Match(), G.Controlled(G.Z),
                  G.T.dagger(), circuit.Swap(b, q)])
        self.pure = dict(
            Id=circuit.Id, base=circuit.Circuit, doms=[q ** 0, q, q ** 2, q ** 3], ev=ev_tensor,
            pool=[G.H, G.X, G.Z, G.S, G.T, G.CX, G.CZ, G.Rz(0.25), G.Rx(0.125), G.CRz(0.3),
                  G.Ket(0), G.Ket(1), G.Bra(0), G.Bra(1), G.SWAP, G.scalar(0.5)])
        # ---- zx
        P = zx.PRO
        self.zx = dict(
            Id=zx.Id, base=zx.Diagram, doms=[P(0), P(1), P(2), P(3)], ev=None,
            pool=[zx.Z(1, 2), zx.X(2, 1, 0.5), zx.Z(0, 1), zx.X(1, 0), zx.Had(), zx.SWAP,
                  zx.scalar(0.5), zx.Y(1, 1, 0.25), zx.Z(2, 2, 0.125), zx.X(0, 2)])

    def families(self):
        return ["monoidal", "rigid", "pregroup", "biclosed", "cartesian", "tensor", "circuit", "zx"]


def _try(out, region, family, label, thunk, ev=None, skipped=None):
    """Build a receiver; a constructor that raises is not C05's business (counted, skipped)."""
    try:
        d = thunk()
        d.boxes, d.offsets, d.layers, d.dom, d.cod
    except Exception as exc:
        if skipped is not None:
            skipped.append((label, "%s: %s" % (type(exc).__name__, exc)))
        return None
    out.append(Receiver(region, family, label, d, ev))
    return d


def own_ctor_library(rng, tier, skipped):
    """Multi-box Diagram subclasses shipped by the library with their own constructor."""
    from discopy import cartesian
    from discopy.quantum.circuit import IQPansatz
    out = []
    thorough = tier != "quick"

    def phase():
        return rng.randint(1, 15) / 16.0
    shapes = [(n, dep) for n in (2, 3, 4) for dep in (1, 2, 3)]
    if not thorough:
        shapes = [(2, 1), (3, 1)] + rng.sample(shapes, 2)
    for n, dep in shapes:
        params = [[phase() for _ in range(n - 1)] for _ in range(dep)]
        _try(out, "own-ctor", "circuit", "IQPansatz(%d, %r)" % (n, params),
             lambda n=n, p=params: IQPansatz(n, p), ev_tensor, skipped)
    p1 = [phase(), phase(), phase()]
    _try(out, "own-ctor", "circuit", "IQPansatz(1, %r)" % (p1,), lambda: IQPansatz(1, p1),
         ev_tensor, skipped)
    copies = range(0, 5) if thorough else [0, 1, 2, rng.choice([3, 4])]
    for n in copies:
        _try(out, "own-ctor", "cartesian", "cartesian.Copy(%d)" % n,
             lambda n=n: cartesian.Copy(n), ev_cartesian, skipped)
    for n in (range(0, 6) if thorough else [0, 1, 3, rng.choice([2, 4, 5])]):
        _try(out, "own-ctor", "cartesian", "cartesian.Discard(%d)" % n,
             lambda n=n: cartesian.Discard(n), ev_cartesian, skipped)
    pairs = [(l, r) for l in range(0, 4) for r in range(0, 4)]
    if not thorough:
        pairs = [(1, 1), (2, 2), (1, 3)] + rng.sample(pairs, 3)
    for l, r in pairs:
        _try(out, "own-ctor", "cartesian", "cartesian.Swap(%d, %d)" % (l, r),
             lambda l=l, r=r: cartesian.Swap(l, r), ev_cartesian, skipped)
    for n in (0, 2):
        _try(out, "own-ctor", "cartesian", "cartesian.Id(%d)" % n,
             lambda n=n: cartesian.Id(n), ev_cartesian, skipped)
    return out


def grown(pools, rng, tier, skipped):
    """Per class: diagrams grown from its pool; each also as the scanning-constructor rebuild, as
    an `Own_<class>` instance, and through dagger / slice / tensor power."""
    out = []
    n_per = 3 if tier == "quick" else 10
    for fam in pools.families():
        P = getattr(pools, fam)
        Id, base, ev = P["Id"], P["base"], P["ev"]
        Own = own_class(base)
        for k in range(n_per):
            dom = rng.choice(P["doms"])
            depth = rng.choice([2, 3, 3, 4, 5, 6]) if k else 4
            seed = rng.getrandbits(32)
            import random as _random

            def build(dom=dom, depth=depth, seed=seed):
                return grow(_random.Random(seed), Id, P["pool"], dom, depth)
            label = "grow(%s, dom=%r, depth=%d, seed=%d)" % (fam, dom, depth, seed)
            d = _try(out, "plain", fam, label, build, ev, skipped)
            if d is None:
                continue
            _try(out, "own-ctor", fam, "Own_%s(%s)" % (fam, label), lambda d=d: Own(d), ev, skipped)
            variant = rng.choice(["ctor", "dagger", "slice", "power", "own_of_ctor"])
            if variant == "ctor":
                _try(out, "plain", fam, "Diagram(dom, cod, boxes, offsets) of " + label,
                     lambda d=d: base(d.dom, d.cod, d.boxes, d.offsets), ev, skipped)
            elif variant == "dagger" and fam not in ("cartesian", "biclosed"):
                _try(out, "plain", fam, "(%s)[::-1]" % label, lambda d=d: d[::-1], ev, skipped)
            elif variant == "slice" and len(d.boxes) >= 3:
                _try(out, "plain", fam, "(%s)[1:]" % label, lambda d=d: d[1:], ev, skipped)
            elif variant == "power" and len(d.boxes) <= 3 and len(d.dom) + len(d.cod) <= 4:
                _try(out, "plain", fam, "(%s) @ same" % label, lambda d=d: d @ d, ev, skipped)
            elif variant == "own_of_ctor":
                _try(out, "own-ctor", fam, "Own_%s(Diagram(...) of %s)" % (fam, label),
                     lambda d=d: Own(base(d.dom, d.cod, d.boxes, d.offsets)), ev, skipped)
    return out


def helpers(pools, rng, tier, skipped):
    """Outputs of the library's diagram-building helpers."""
    from discopy import monoidal, rigid, tensor
    from discopy.quantum import circuit, zx, gates
    out = []
    q, b = circuit.qubit, circuit.bit
    x, y, z = monoidal.Ty('x'), monoidal.Ty('y'), monoidal.Ty('z')
    n, s = rigid.Ty('n'), rigid.Ty('s')
    D = tensor.Dim

    def perm(k):
        p = list(range(k))
        rng.shuffle(p)
        return p
    k1, k2 = rng.randint(1, 2), rng.randint(1, 3)
    p3, p4 = perm(3), perm(4)
    items = [
        ("monoidal", "monoidal.Diagram.swap(x @ y, z @ x)", lambda: monoidal.Diagram.swap(x @ y, z @ x), None),
        ("monoidal", "monoidal.Diagram.permutation(%r, x @ y @ z @ x)" % p4,
         lambda: monoidal.Diagram.permutation(p4, x @ y @ z @ x), None),
        ("rigid", "rigid.Diagram.swap(n @ s, n.r)", lambda: rigid.Diagram.swap(n @ s, n.r), None),
        ("rigid", "rigid.Diagram.permutation(%r, n @ s @ n.l)" % p3,
         lambda: rigid.Diagram.permutation(p3, n @ s @ n.l), None),
        ("rigid", "rigid.Diagram.cups(n @ s @ n.l, (n @ s @ n.l).r)",
         lambda: rigid.Diagram.cups(n @ s @ n.l, (n @ s @ n.l).r), None),
        ("rigid", "rigid.Diagram.caps(n @ s, (n @ s).l)", lambda: rigid.Diagram.caps(n @ s, (n @ s).l), None),
        ("rigid", "(Box('t', n, n @ s)).transpose()",
         lambda: rigid.Box('t', n, n @ s).transpose(), None),
        ("rigid", "(Box('t', n @ s, s)).transpose(left=True)",
         lambda: rigid.Box('t', n @ s, s).transpose(left=True), None),
        ("tensor", "tensor.Diagram.swap(Dim(2, 3), Dim(3))", lambda: tensor.Diagram.swap(D(2, 3), D(3)), ev_tensor),
        ("tensor", "tensor.Diagram.cups(Dim(2, 3), Dim(3, 2))", lambda: tensor.Diagram.cups(D(2, 3), D(3, 2)), ev_tensor),
        ("tensor", "tensor.Diagram.caps(Dim(2, 3, 2), Dim(2, 3, 2))",
         lambda: tensor.Diagram.caps(D(2, 3, 2), D(2, 3, 2)), ev_tensor),
        ("tensor", "tensor.Diagram.spiders(2, 3, Dim(2))", lambda: tensor.Diagram.spiders(2, 3, D(2)), ev_tensor),
        ("tensor", "tensor.Diagram.permutation(%r, Dim(2, 3, 2))" % p3,
         lambda: tensor.Diagram.permutation(p3, D(2, 3, 2)), ev_tensor),
        ("circuit", "Circuit.swap(qubit ** %d, qubit ** %d)" % (k1, k2),
         lambda: circuit.Circuit.swap(q ** k1, q ** k2), ev_tensor),
        ("circuit", "Circuit.swap(bit @ qubit, qubit)", lambda: circuit.Circuit.swap(b @ q, q), ev_tensor),
        ("circuit", "Circuit.permutation(%r)" % p4, lambda: circuit.Circuit.permutation(p4), ev_tensor),
        ("circuit", "Circuit.cups(qubit ** 2, qubit ** 2)", lambda: circuit.Circuit.cups(q ** 2, q ** 2), ev_tensor),
        ("circuit", "Circuit.caps(qubit ** %d, qubit ** %d)" % (k1, k1),
         lambda: circuit.Circuit.caps(q ** k1, q ** k1), ev_tensor),
        ("circuit", "Circuit.cups(bit @ qubit, qubit @ bit)", lambda: circuit.Circuit.cups(b @ q, q @ b), ev_tensor),
        ("circuit", "Id(0).tensor(H, X, Rz(0.25), Ket(0))",
         lambda: circuit.Id(0).tensor(gates.H, gates.X, gates.Rz(0.25), gates.Ket(0)), ev_tensor),
        ("circuit", "Id(3).then(H @ Id(2), Id(1) @ CX, Id(2) @ Bra(0))",
         lambda: circuit.Id(3).then(gates.H @ circuit.Id(2), circuit.Id(1) @ gates.CX,
                                    circuit.Id(2) @ gates.Bra(0)), ev_tensor),
        ("zx", "zx.Diagram.swap(2, %d)" % k2, lambda: zx.Diagram.swap(2, k2), None),
        ("zx", "zx.Diagram.permutation(%r)" % p4, lambda: zx.Diagram.permutation(p4), None),
        ("zx", "zx.Diagram.cups(PRO(2), PRO(2))", lambda: zx.Diagram.cups(zx.PRO(2), zx.PRO(2)), None),
        ("zx", "zx.Diagram.caps(PRO(3), PRO(3))", lambda: zx.Diagram.caps(zx.PRO(3), zx.PRO(3)), None),
    ]
    seed = rng.getrandbits(16)
    nq, dep = rng.randint(2, 4), rng.randint(1, 3)
    items.append(("circuit", "random_tiling(%d, %d, seed=%d)" % (nq, dep, seed),
                  lambda: circuit.random_tiling(nq, dep, seed=seed), ev_tensor))
    items.append(("circuit", "random_tiling(1, seed=%d)" % seed,
                  lambda: circuit.random_tiling(1, seed=seed), ev_tensor))
    for ent in ("full", "linear", "circular"):
        shape = (rng.randint(1, 3), rng.randint(2, 3))
        par = [[rng.randint(1, 15) / 16.0 for _ in range(shape[1])] for _ in range(shape[0])]
        items.append(("circuit", "real_amp_ansatz(%r, entanglement=%r)" % (par, ent),
                      lambda par=par, ent=ent: circuit.real_amp_ansatz(np.array(par), entanglement=ent),
                      ev_tensor))
    if tier == "quick":
        keep = set(rng.sample(range(len(items)), 16))
        items = [it for k, it in enumerate(items) if k in keep]
    for fam, label, thunk, ev in items:
        d = _try(out, "helper", fam, label, thunk, ev, skipped)
        if d is not None and rng.random() < 0.35:
            base = pools.mods[fam].Circuit if fam == "circuit" else pools.mods[fam].Diagram
            _try(out, "own-ctor", fam, "Own_%s(%s)" % (fam, label),
                 lambda d=d, base=base: own_class(base)(d), ev, skipped)
    return out


def functor_results(pools, rng, tier, skipped):
    """Diagrams returned by applying functors (the ar_factory of the functor builds them)."""
    from discopy import monoidal, rigid, cartesian
    from discopy.quantum import circuit, gates, zx
    import random as _random
    out = []
    reps = 1 if tier == "quick" else 5
    for _ in range(reps):
        # monoidal functor doubling wires: x -> x @ y, boxes -> two boxes in sequence
        M = pools.monoidal
        seed = rng.getrandbits(32)
        src = grow(_random.Random(seed), M["Id"], [b for b in M["pool"] if type(b) in
                                                    (monoidal.Box, monoidal.Swap)],
                   rng.choice(M["doms"]), rng.randint(2, 4), maxw=4)
        x, y, z, m = monoidal.Ty('x'), monoidal.Ty('y'), monoidal.Ty('z'), monoidal.Ty('m')
        ob = {x: x @ y, y: y, z: z @ z}

        def F_ob(t, ob=ob):
            res = monoidal.Ty()
            for o in t:
                res = res @ ob[monoidal.Ty(o)]
            return res

        def ar_m(box):
            return monoidal.Box(box.name + "1", F_ob(box.dom), m) >> monoidal.Box(
                box.name + "2", m, F_ob(box.cod))
        _try(out, "functor", "monoidal", "monoidal.Functor(x -> x @ y, box -> two boxes)(grow(seed=%d))" % seed,
             lambda src=src: monoidal.Functor(ob=ob, ar=ar_m)(src), None, skipped)
        # rigid functor on a pregroup sentence, into rigid diagrams and into circuits
        n, s = rigid.Ty('n'), rigid.Ty('s')
        Pg = pools.pregroup
        words = Pg["pool"][:5]
        sent_seed = rng.getrandbits(32)
        sentence = grow(_random.Random(sent_seed), rigid.Id, Pg["pool"], rigid.Ty(), rng.randint(3, 6), maxw=7)
        a, v = rigid.Ty('a'), rigid.Ty('v')

        obr = {n: a @ v, s: v}
        Fr = rigid.Functor(ob=obr, ar=lambda box: rigid.Box(box.name, Fr(box.dom), Fr(box.cod))
                           >> rigid.Box(box.name + "'", Fr(box.cod), Fr(box.cod)))
        _try(out, "functor", "rigid", "rigid.Functor(n -> a @ v, word -> two boxes)(pregroup grow(seed=%d))" % sent_seed,
             lambda sentence=sentence: Fr(sentence), None, skipped)
        G = gates
        q = circuit.qubit

        def ar_c(box):
            k = len(Fc(box.cod))
            state = circuit.Id(0).tensor(*[G.Ket(0)] * k)
            for i in range(k):
                state = state >> circuit.Id(i) @ G.H @ circuit.Id(k - i - 1)
            for i in range(k - 1):
                state = state >> circuit.Id(i) @ G.CX @ circuit.Id(k - i - 2)
            return state
        Fc = circuit.Functor(ob={n: 1, s: rng.choice([0, 1])}, ar=ar_c)
        _try(out, "functor", "circuit", "circuit.Functor(n -> 1, s -> 0|1, word -> Ket H CX state)(pregroup grow(seed=%d))" % sent_seed,
             lambda sentence=sentence: Fc(sentence), ev_tensor, skipped)
        # cartesian functor
        xr = rigid.Ty('x')
        f, g = rigid.Box('f', xr, xr @ xr), rigid.Box('g', xr @ xr, xr)
        cseed = rng.getrandbits(32)
        srcc = grow(_random.Random(cseed), rigid.Id, [f, g, rigid.Box('d', xr, rigid.Ty())],
                    rng.choice([xr, xr @ xr]), rng.randint(3, 6), maxw=5)
        Fk = cartesian.Functor(ob={xr: rigid.PRO(1)}, ar={
            f: cartesian.COPY, g: cartesian.ADD, rigid.Box('d', xr, rigid.Ty()): cartesian.DISCARD})
        _try(out, "functor", "cartesian", "cartesian.Functor(f -> COPY, g -> ADD, d -> DISCARD)(grow(seed=%d))" % cseed,
             lambda srcc=srcc: Fk(srcc), ev_cartesian, skipped)
        # circuit2zx
        zseed = rng.getrandbits(32)
        Pp = pools.pure
        pure = grow(_random.Random(zseed), circuit.Id, [b for b in Pp["pool"] if b.name in
                                                        ("H", "X", "Z", "CX", "CZ", "Rz(0.25)", "Ket(0)", "Bra(0)", "SWAP")],
                    rng.choice(Pp["doms"]), rng.randint(3, 6), maxw=4)
        _try(out, "functor", "zx", "circuit2zx(pure grow(seed=%d))" % zseed,
             lambda pure=pure: zx.circuit2zx(pure), None, skipped)
    return out


def one_box(pools, rng, tier, skipped):
    """Every box class used directly as a diagram, identities, sums and bubbles."""
    from discopy import monoidal, tensor
    from discopy.quantum import gates
    out = []
    for fam in pools.families():
        P = getattr(pools, fam)
        pool = list(P["pool"])
        if tier == "quick":
            pool = rng.sample(pool, min(4, len(pool)))
        for b in pool:
            _try(out, "one-box", fam, "%s box %s" % (fam, squeeze(b)[:60]), lambda b=b: b, None, skipped)
        dom = rng.choice(P["doms"])
        _try(out, "one-box", fam, "%s Id(%r)" % (fam, dom), lambda P=P, dom=dom: P["Id"](dom), None, skipped)
    x, y = monoidal.Ty('x'), monoidal.Ty('y')
    f, g = monoidal.Box('f', x, y), monoidal.Box('g', x, y)
    tb = tensor.Box('a', tensor.Dim(2), tensor.Dim(2), [1, 0, 0, 1])
    extra = [
        ("monoidal", "Box('f', x, y) + Box('g', x, y)", lambda: f + g),
        ("monoidal", "f + g + f", lambda: f + g + f),
        ("monoidal", "monoidal.Sum([], x, y)", lambda: monoidal.Sum([], x, y)),
        ("monoidal", "monoidal.Sum([f])", lambda: monoidal.Sum([f])),
        ("monoidal", "monoidal.Bubble(f >> Box('h', y, x))",
         lambda: monoidal.Bubble(f >> monoidal.Box('h', y, x))),
        ("circuit", "X + Z", lambda: gates.X + gates.Z),
        ("tensor", "tensor.Box('a', ...) + same", lambda: tb + tb),
        ("tensor", "tensor.Bubble(tensor.Box('a', ...))", lambda: tb.bubble()),
    ]
    for fam, label, thunk in extra:
        _try(out, "one-box", fam, label, thunk, None, skipped)
    return out


def receivers(rng, tier):
    """All receivers of one run, and the list of constructions the library refused."""
    pools = Pools()
    skipped = []
    out = []
    out += own_ctor_library(rng, tier, skipped)
    out += grown(pools, rng, tier, skipped)
    out += helpers(pools, rng, tier, skipped)
    out += functor_results(pools, rng, tier, skipped)
    out += one_box(pools, rng, tier, skipped)
    return out, skipped
