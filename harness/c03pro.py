"""C03 on the PRO type classes (monoidal.PRO, rigid.PRO) and on boxes / diagrams / sums over them.

`PRO(n)` is the type Ty(1, ..., 1) of a PRO, printed `PRO(n)`; the class has its own constructor,
`upgrade` and `__repr__`, and takes `==` / `hash` from `monoidal.Ty`.  The property speaks of "types
... of the same class": here every comparand is a PRO value of the SAME class (the cross-class
`PRO(n) == Ty(1, ..., 1)`, whose hashes differ, stays outside, as declared in `rep.assumptions`).

Streams
  pro-ty       one PRO type through 10-16 construction histories (constructor, default, tensor in 2 and
               n pieces, slices with positive / negative / omitted bounds, powers, PRO(PRO(n)), PRO(Ob(n)),
               upgrade, `@ Ty(1, ...)`, .l / .r in rigid, derivations of a value that was USED before:
               hashed, keyed in a dict / set / functor) plus near misses (n +- 1, 2n, 0): all pairs and
               triples through the pool oracle (hash defined, == reflexive / symmetric / transitive /
               structural, equal => equal hash, eval(repr) == v), mutual dict / set / frozenset lookup,
               hash stable; the model answers `proty`, `protensor`, `proslice`, `reprpro`, `proeqv`.
  pro-diagram  boxes, diagrams and sums whose types are PRO types: the diagram pools of the main check
               (construction histories + near misses) evaluated over PRO; values whose types left the
               class (rigid composition rebuilds its types as rigid.Ty) are dropped from the pool — cross
               class — and counted; hash of every box, of dom / cod, sets of boxes, dict keyed by the
               value and looked up under its twin; `==` against the model's `eqv`.
  pro-functor  a PRO type (built through a random history) keys the `ob` mapping of a monoidal / rigid
               Functor, PRO-typed boxes (or their wrapping diagrams) key `ar`; the functor is applied to
               PRO types, identities, boxes, daggers and constructor-built diagrams made afresh: every
               key must be found (no KeyError / TypeError) and the image is k wires per wire.
"""
import itertools

import common
from common import ser_ty
from core import Family, tok_expr, tok_ty

ONE = (1, 0)


class ProFamily(Family):
    """Every type of the expression language becomes a PRO type of `base` (monoidal | rigid)."""

    def __init__(self, base):
        super().__init__(base)
        self.base = base

    def ty(self, spec):
        assert all(tuple(o) == ONE for o in spec), spec
        return self.m.PRO(len(spec))


def is_pro(F, t):
    return type(t) is F.m.PRO


def pro_typed(F, v):
    """dom, cod and the types of every box are values of the family's PRO class."""
    from discopy import cat
    if isinstance(v, cat.Sum):
        return is_pro(F, v.dom) and is_pro(F, v.cod) and all(pro_typed(F, t) for t in v.terms)
    return is_pro(F, v.dom) and is_pro(F, v.cod) and all(
        is_pro(F, b.dom) and is_pro(F, b.cod) for b in v.boxes)


def key_pro(t):
    return "P " + ser_ty(t)


def opt(i):
    return "N" if i is None else str(i)


# --------------------------------------------------------------------------- histories of one type

def slice_bounds(r, n):
    """(m, i, j) with len(PRO(m)[i:j]) == n; positive, negative and omitted bounds."""
    a, b = r.randint(0, 3), r.randint(0, 3)
    m = n + a + b
    i = r.choice([a, a - m] + ([None] if a == 0 else []))
    j = r.choice([m - b] + ([-b] if b else [None, m + r.randint(0, 2)]))
    return m, i, j


def pro_histories(F, r, n, used):
    """[(label, thunk, model request or None, real answer of that request)]: ways to PRO(n).
    `used` is a PRO(n) value that has a past (hashed, keyed, compared)."""
    m = F.m
    PRO = m.PRO
    k = r.randint(0, n)
    parts = []
    left = n
    while left:
        p = r.randint(1, left)
        parts.append(p)
        left -= p
    sm, si, sj = slice_bounds(r, n)
    hs = [
        ("ctor", lambda: PRO(n), None),
        ("tensor", lambda: PRO(k) @ PRO(n - k), "protensor %d %d" % (k, n - k)),
        ("tensor_many", lambda: PRO(0).tensor(*[PRO(p) for p in parts]), None),
        ("slice", lambda: PRO(sm)[si:sj], "proslice %d %s %s" % (sm, opt(si), opt(sj))),
        ("full_slice", lambda: PRO(n)[:], "proslice %d N N" % n),
        ("pow_1", lambda: PRO(1) ** n, None),
        ("copy", lambda: PRO(PRO(n)), None),
        ("of_ob", lambda: PRO(F.ob((n, 0))), None),
        ("upgrade", lambda: PRO.upgrade(m.Ty(*(n * [1]))), None),
        ("at_ty", lambda: PRO(k) @ m.Ty(*((n - k) * [1])), None),
        ("unit_both_sides", lambda: PRO() @ PRO(n) @ PRO(0), None),
        # values derived from an object with a past
        ("used_itself", lambda: used, None),
        ("used_copy", lambda: PRO(used), None),
        ("used_unit", lambda: used @ PRO(0), "protensor %d 0" % n),
        ("used_slices", lambda: used[:k] @ used[k:], None),
    ]
    if n == 0:
        hs.append(("default", lambda: PRO(), None))
    divs = [d for d in range(2, n + 1) if n % d == 0]
    if divs:
        d = r.choice(divs)
        hs.append(("pow_%d" % d, lambda: PRO(n // d) ** d, None))
    if F.rigid:
        hs += [("l", lambda: PRO(n).l, None), ("r", lambda: PRO(n).r, None),
               ("used_l_r", lambda: used.l.r, None)]
    muts = [("more", lambda: PRO(n + 1), None), ("tensor_one", lambda: PRO(n) @ PRO(1), "protensor %d 1" % n)]
    if n:
        muts += [("less", lambda: PRO(n - 1), None), ("doubled", lambda: PRO(n) @ PRO(n), "protensor %d %d" % (n, n)),
                 ("empty", lambda: PRO(0), None), ("drop_first", lambda: PRO(n)[1:], "proslice %d 1 N" % n)]
    return hs, muts


def use(rep, r, F, v, case):
    """Give the PRO value a past; every use must work (returns the hash read, or None)."""
    h = None
    ways = [w for w in ("hash", "dict", "set", "functor", "eq", "repr") if r.random() < 0.6]
    rep.count("pro-used:%d-ways" % len(ways))
    for w in ways:
        try:
            if w == "hash":
                h = hash(v)
            elif w == "dict":
                assert {v: 1}[v] == 1
            elif w == "set":
                assert v in {v}
            elif w == "functor":
                F.m.Functor({F.m.PRO(1): F.m.PRO(1)}, {}, ob_factory=F.m.PRO)(v)
            elif w == "eq":
                assert v == v
            else:
                repr(v)
        except Exception as exc:  # noqa
            rep.fail("pro_use_raises:" + w, dict(case, use=w), "using %r (%s) raised %r" % (v, w, exc))
    return h


def lookups(rep, kind, pool, eq, case):
    """Equal values find each other in dicts, sets and frozensets."""
    for i, j in itertools.permutations(range(len(pool)), 2):
        (li, a), (lj, b) = pool[i], pool[j]
        if not eq[i][j]:
            continue
        try:
            ok = {a: "image"}[b] == "image" and b in {a} and b in frozenset([a]) and len({a, b}) == 1
            if not ok:
                rep.fail("key_lookup:" + kind, dict(case, a=li, b=lj), "lookup of %s under %s failed" % (lj, li))
        except Exception as exc:  # noqa
            rep.fail("key_lookup:" + kind, dict(case, a=li, b=lj, repr_a=repr(a)[:200], repr_b=repr(b)[:200]),
                     "looking %s up in a dict / set keyed by the equal value %s raised %r" % (lj, li, exc))
            return
    rep.count("pro-lookups:" + kind)


def run_types(rep, rng, oracle, ask, fams, quick):
    import random
    n_t = 60 if quick else 600
    for k in range(n_t):
        fam = "rigid" if k % 2 else "monoidal"
        F = fams[fam]
        r = random.Random(rng.getrandbits(64))
        n = k // 2 if k < 12 else r.choice([0, 1, 1, 2, 2, 3, 3, 4, 5, 6, 8, 12])
        case = dict(family=fam, pro=n)
        try:
            used = F.m.PRO(n)
        except Exception as exc:  # noqa
            rep.fail("pro_history_raises:ctor", case, "PRO(%d) raised %r" % (n, exc))
            continue
        h0 = use(rep, r, F, used, case)
        hs, ms = pro_histories(F, r, n, used)
        pool = []
        for label, thunk, line in hs + ms:
            try:
                v = thunk()
            except Exception as exc:  # noqa
                rep.fail("pro_history_raises:" + label, dict(case, history=label),
                         "building PRO(%d) through %s raised %r" % (n, label, exc))
                continue
            if not is_pro(F, v):       # left the class: comparison would be cross-class
                rep.count("pro-ty-left-class:" + label)
                continue
            pool.append((label, v))
            if line is not None:
                ask("pro-ops", dict(case, history=label), line, "ok %d" % len(v))
            ask("pro-repr", dict(case, history=label), "reprpro " + ser_ty(v), "ok " + repr(v), n >= 2)
        ask("pro-objects", case, "proty %d" % n, "ok " + ser_ty(used))
        eq = oracle.check("pro", fam, pool, key_pro, case)
        lookups(rep, "pro", pool, eq, case)
        for i, j in itertools.combinations(range(len(pool)), 2):
            ask("pro-eqv", dict(case, a=pool[i][0], b=pool[j][0]),
                "proeqv %s %s" % (ser_ty(pool[i][1]), ser_ty(pool[j][1])), "ok %d" % eq[i][j], n >= 2)
        try:                       # hash is stable over the object's life
            h1 = hash(used)
            if h0 is not None and h0 != h1:
                rep.fail("hash_unstable:pro", case, "hash(PRO(%d)) changed between two calls" % n)
        except Exception as exc:  # noqa
            rep.fail("hash_raises:pro", dict(case, kind="pro", value=repr(used)), "hash(%r) raised %r" % (used, exc))
        rep.count("pro-ty-pools:" + fam)
        rep.count("pro-ty-wires:%s" % (n if n < 6 else "6+"))
        rep.case("pro %s %d %s" % (fam, n, " ".join(l for l, _ in pool)), n >= 2)
        if k < 4:
            rep.sample(dict(kind="pro", family=fam, repr=repr(used), histories=[l for l, _ in pool]))


# --------------------------------------------------------------------------- boxes, diagrams, sums

def run_diagrams(rep, rng, oracle, ask, fams, quick, Gen3, histories, mutants, key_diagram, key_sum):
    import random
    n_d = 60 if quick else 600
    for k in range(n_d):
        fam = "rigid" if k % 2 else "monoidal"
        F = fams[fam]
        m = F.m
        g = Gen3(random.Random(rng.getrandbits(64)), rigid=False)
        g.names = [1]
        if k % 5 == 4:
            b = g.gbox(g.ty(0, 3))
            e, scans = ("mk", b["dom"], b["cod"], [b], [0]), [list(b["dom"]), list(b["cod"])]
        else:
            e, scans = g.diagram(depth=g.rng.choice([0, 1, 1, 2, 2, 3, 4]))
        # the constructor form twice: in rigid the only history that keeps the class
        specs = [("mk_again", e)] + histories(g, e, scans) + mutants(g, e, scans)
        case = dict(family=fam, expr=repr(e)[:800], types="PRO")
        pool, kept = [], []
        for label, x in specs:
            try:
                v = F.run(x)
            except Exception as exc:  # noqa
                rep.fail("pro_history_raises:" + label, dict(case, history=label),
                         "building the PRO-typed value through %s raised %r" % (label, exc))
                continue
            if not pro_typed(F, v):
                rep.count("pro-diagram-left-class:%s:%s" % (fam, label))
                continue
            pool.append((label, v))
            kept.append((label, x))
        eq = oracle.check("prodiagram", fam, pool, key_diagram, case)
        lookups(rep, "prodiagram", pool, eq, case)
        # the parts: hash of the types, of every box, sets of boxes
        for label, v in pool:
            try:
                hs = [hash(v.dom), hash(v.cod)] + [hash(b) for b in v.boxes]
                hs += [hash(t) for b in v.boxes for t in (b.dom, b.cod)]
                assert len(set(v.boxes)) <= len(v.boxes) and all(b in set(v.boxes) for b in v.boxes)
                assert {v.dom: 1}[m.PRO(len(v.dom))] == 1 and m.PRO(len(v.cod)) in {v.cod}
                assert hs == [hash(v.dom), hash(v.cod)] + [hash(b) for b in v.boxes] + [
                    hash(t) for b in v.boxes for t in (b.dom, b.cod)]
            except Exception as exc:  # noqa
                rep.fail("parts_hash:prodiagram", dict(case, history=label, value=repr(v)[:300]),
                         "hashing dom / cod / boxes of the value built through %s raised %r" % (label, exc))
                break
        for i, j in itertools.combinations(range(len(pool)), 2):
            (li, xi), (lj, xj) = kept[i], kept[j]
            if xi[0] == "box" or xj[0] == "box":
                continue
            ask("pro-diagram-eqv", dict(case, a=li, b=lj), "eqv %s %s" % (tok_expr(xi), tok_expr(xj)),
                "ok %d" % eq[i][j], len(e[3]) >= 2)
        # sums of PRO-typed terms
        try:
            d1, d2 = F.run(e), F.run(e)
            other = F.run(("then", e, ("box", g.gbox(e[2], e[2])))) if fam == "monoidal" else None
            spool = [("Sum", type(d1 + d2)([d1, d2])),
                     ("plus", d1 + d2), ("typed", type(d1 + d2)([d2, d1], d1.dom, d1.cod)),
                     ("one_term", d1 + type(d1 + d2)([], d1.dom, d1.cod)),
                     ("empty", type(d1 + d2)([], d1.dom, d1.cod))]
            if other is not None and pro_typed(F, other):
                spool.append(("other_term", d1 + other))
            spool = [(l, s) for l, s in spool if pro_typed(F, s)]
        except Exception as exc:  # noqa
            rep.fail("pro_history_raises:sum", case, "building a sum of PRO-typed terms raised %r" % (exc,))
            spool = []
        if spool:
            seq = oracle.check("prosum", fam, spool, key_sum, case)
            lookups(rep, "prosum", spool, seq, case)
        nb = len(e[3])
        rep.count("pro-diagram-pools:" + fam)
        rep.count("pro-diagram-pool-size:%d" % len(pool))
        rep.count("pro-diagram-boxes:%s" % (nb if nb < 4 else "4+"))
        rep.case("prodiagram %s %s" % (fam, tok_expr(e)), nb >= 2)
        if k < 4:
            rep.sample(dict(kind="prodiagram", family=fam, repr=repr(pool[0][1])[:300] if pool else None,
                            histories=[l for l, _ in pool]))


# --------------------------------------------------------------------------- functor keys

def key_histories(F, r):
    """PRO(1), the generating object of the PRO, built in different ways."""
    PRO = F.m.PRO
    hs = [("ctor", lambda: PRO(1)), ("slice", lambda: PRO(3)[r.randint(0, 2):][:1]),
          ("tensor", lambda: PRO(1) @ PRO(0)), ("of_ob", lambda: PRO(F.ob(ONE))),
          ("pow", lambda: PRO(1) ** 1), ("copy", lambda: PRO(PRO(1))),
          ("upgrade", lambda: PRO.upgrade(F.m.Ty(1))), ("first_wire", lambda: PRO(2)[:1])]
    if F.rigid:
        hs.append(("l", lambda: PRO(1).l))
    return hs


def run_functors(rep, rng, fams, quick, Gen3):
    import random
    n_f = 60 if quick else 600
    for k in range(n_f):
        fam = "rigid" if k % 2 else "monoidal"
        F = fams[fam]
        m = F.m
        PRO = m.PRO
        r = random.Random(rng.getrandbits(64))
        g = Gen3(random.Random(r.getrandbits(64)), rigid=False)
        g.names = [1]
        e, scans = g.diagram(depth=r.choice([0, 1, 2, 2, 3, 4]))
        _, dom, cod, boxes, offsets = e
        mult = r.choice([0, 1, 2, 2, 3])
        factory = r.choice(["PRO", "default"])
        gens = []
        for b in boxes:
            if b["kind"] == "g":
                u = dict(b, dagger=False)
                if b["dagger"]:
                    u["dom"], u["cod"] = b["cod"], b["dom"]
                if all(u != x for x in gens):
                    gens.append(u)
        (lk, mk_key), (lp, mk_probe) = r.choice(key_histories(F, r)), r.choice(key_histories(F, r))
        case = dict(family=fam, expr=repr(e)[:600], wires_per_wire=mult, ob_factory=factory,
                    key_history=lk, probe_history=lp, types="PRO")
        try:
            def img(u):
                return m.Box(("img", u["name"]), PRO(mult * len(u["dom"])), PRO(mult * len(u["cod"])))
            ob = {mk_key(): PRO(mult)}
            ar = {}
            for i, u in enumerate(gens):
                box = F.box(u)
                ar[box if i % 2 == 0 else m.Diagram(box.dom, box.cod, [box], [0])] = img(u)
            kw = dict(ob_factory=PRO) if factory == "PRO" else {}
            functor = m.Functor(ob, ar, **kw)
            probe = mk_probe()
            if probe not in ob or not bool(ob[probe] == PRO(mult)) or not bool(functor(probe) == PRO(mult)):
                rep.fail("functor_key_lookup:pro", case, "PRO(1) built through %s is not found under the "
                         "key built through %s" % (lp, lk))
            for n in (0, 1, len(dom), r.randint(2, 6)):
                image = functor(PRO(n))
                if len(image) != mult * n or (factory == "PRO" and not bool(image == PRO(mult * n))):
                    rep.fail("functor_key_lookup:pro", dict(case, applied_to="PRO(%d)" % n),
                             "image of PRO(%d) is %r, expected %d wires" % (n, image, mult * n))
                ident = functor(m.Id(PRO(n)))
                if len(ident.dom) != mult * n or ident.boxes:
                    rep.fail("functor_key_lookup:pro", dict(case, applied_to="Id(PRO(%d))" % n),
                             "image of Id(PRO(%d)) is %r" % (n, ident))
            for u in gens:
                box = F.box(u)
                wrap = m.Diagram(box.dom, box.cod, [box], [0])
                for what, probe in (("box", box), ("wrapping diagram", wrap)):
                    if probe not in ar or not bool(ar[probe] == img(u)):
                        rep.fail("functor_key_lookup:pro", dict(case, box=repr(box)),
                                 "the %s of %r is not found in the arrow mapping" % (what, box))
                for what, probe, want in (("box", box, img(u)), ("dagger", box.dagger(), img(u).dagger())):
                    out = functor(probe)
                    if not bool(out == want):
                        rep.fail("functor_key_lookup:pro", dict(case, box=repr(box)),
                                 "image of the %s %r is %r, expected %r" % (what, probe, out, want))
            d = F.run(e)                       # constructor form, built afresh: keeps its PRO types
            out = functor(d)
            if len(out.dom) != mult * len(dom) or len(out.cod) != mult * len(cod):
                rep.fail("functor_key_lookup:pro", case, "image %r has the wrong ends" % (out,))
            if all(b["kind"] == "g" for b in boxes):
                want = [("img", b["name"]) for b in boxes]
                got = [b.name for b in out.boxes]
                if got != want or [int(o) for o in out.offsets] != [mult * o for o in offsets]:
                    rep.fail("functor_key_lookup:pro", case, "image has boxes %r at %r, expected %r at %r" % (
                        got, list(out.offsets), want, [mult * o for o in offsets]))
            # cups and caps of the self-adjoint PRO(1); its image must be self-adjoint too: a PRO type
            if fam == "rigid" and factory == "PRO":
                snake = m.Diagram(PRO(2), PRO(2), [m.Cup(PRO(1), PRO(1)), m.Cap(PRO(1), PRO(1))], [0, 0])
                out = functor(snake)
                if len(out.dom) != 2 * mult or len(out.boxes) != 2 * mult:
                    rep.fail("functor_key_lookup:pro", dict(case, applied_to=repr(snake)),
                             "image of cup >> cap is %r" % (out,))
                rep.count("pro-functor-cupcap")
        except Exception as exc:  # noqa
            rep.fail("functor_key_lookup:pro", case,
                     "a functor whose object mapping is keyed by PRO(1) raised %r" % (exc,))
        rep.count("pro-functor:%s:%s" % (fam, factory))
        rep.count("pro-functor-wires-per-wire:%d" % mult)
        rep.count("pro-functor-key:%s" % lk)
        rep.case("profunctor %s %d %s %s %s %s" % (fam, mult, factory, lk, lp, tok_expr(e)), len(boxes) >= 2)


def run_pro(rep, rng, oracle, ask, quick, Gen3, histories, mutants, key_diagram, key_sum):
    import random
    fams = {"monoidal": ProFamily("monoidal"), "rigid": ProFamily("rigid")}
    run_types(rep, random.Random(rng.getrandbits(64)), oracle, ask, fams, quick)
    run_diagrams(rep, random.Random(rng.getrandbits(64)), oracle, ask, fams, quick,
                 Gen3, histories, mutants, key_diagram, key_sum)
    run_functors(rep, random.Random(rng.getrandbits(64)), fams, quick, Gen3)
