"""Shared generators and comparison helpers of C14 (substitution) and C15 (gradients).

Everything random comes from the `random.Random` handed in.  Box data never contains a
Python string (cat.py:500-507 recurses forever on strings).

Families
  tensor  : tensor.Diagram of tensor.Box (list / nested list / tuple data), Swap, Spider, daggers
  containers : the same entries handed to a box in every container type (`array_container`:
            tuples, nested mixes of lists and tuples, numpy object arrays flat / shaped / inside
            lists and tuples, 0-d arrays, a bare expression) and nested data that is not an array
            (`wild_container`: sets, frozensets, dicts of lists / tuples / sets / arrays, ...)
  pure    : Circuit over Ket/Bra/H/X/CX/SWAP, Rx/Ry/Rz/CRz/CRx/CU1, scalar, sqrt
  mixed   : the same plus Measure, Discard, mixed scalars, ClassicalGate (also daggered), Bits, Copy
  zx      : zx.Diagram over Z/X spiders, Had, SWAP, zx.scalar   (evaluated by `zx_eval`, the
            standard interpretation written here: discopy 0.3.5 has no evaluation of ZX diagrams)
"""
import math
import numbers

import numpy as np
import sympy

TOL = 1e-9


# --------------------------------------------------------------------------- symbols, expressions

def symbols(real, n=4, prefix="x"):
    return [sympy.Symbol("%s%d" % (prefix, i), real=True) if real
            else sympy.Symbol("%s%d" % (prefix, i)) for i in range(n)]


class ExprGen:
    """Sympy expressions over a symbol pool."""

    def __init__(self, rng, syms):
        self.rng, self.syms = rng, syms

    def number(self, allow_float=True):
        r = self.rng
        k = r.random()
        if k < 0.4:
            return r.choice([-2, -1, 1, 2, 3])
        if k < 0.7 or not allow_float:
            return sympy.Rational(r.choice([-3, -1, 1, 1, 2, 5]), r.choice([2, 3, 4, 7]))
        return r.choice([0.5, 0.25, -0.75, 1.5, 0.1])

    def affine(self, k=None):
        r = self.rng
        k = k or r.choice([1, 1, 2])
        e = 0
        for s in r.sample(self.syms, min(k, len(self.syms))):
            e = e + self.number() * s
        if r.random() < 0.5:
            e = e + self.number()
        return e

    def poly(self):
        r = self.rng
        e = 0
        for _ in range(r.randint(1, 2)):
            m = self.number(allow_float=False)
            for s in r.sample(self.syms, r.randint(1, min(2, len(self.syms)))):
                m = m * s ** r.choice([1, 1, 2])
            e = e + m
        if r.random() < 0.4:
            e = e + self.number(allow_float=False)
        return e

    def nonlinear(self):
        r = self.rng
        s, t = r.choice(self.syms), r.choice(self.syms)
        return r.choice([
            lambda: sympy.sin(s) + t, lambda: s * t + s ** 2, lambda: sympy.cos(2 * s) * t,
            lambda: s ** 3 - t / 3, lambda: sympy.exp(s / 2) - t, lambda: s * sympy.sin(t)])()

    def phase(self):
        k = self.rng.random()
        if k < 0.5:
            return self.affine()
        if k < 0.8:
            return self.poly()
        return self.nonlinear()

    def int_poly(self, maxdeg=2):
        """Integer-coefficient polynomial (used by the stream compared with the Lean model)."""
        r = self.rng
        e = sympy.Integer(0)
        for _ in range(r.randint(1, 2)):
            m = sympy.Integer(r.choice([-2, -1, 1, 1, 2, 3]))
            for s in r.sample(self.syms, r.randint(0, min(2, len(self.syms)))):
                m = m * s ** r.randint(1, maxdeg)
            e = e + m
        return sympy.expand(e)


# --------------------------------------------------------------------------- data walking

def data_symbols(data):
    """Symbols occurring in nested box data: the property's own definition of free symbols."""
    if data is None:
        return set()
    if hasattr(data, "free_symbols") and not isinstance(data, np.ndarray):
        return set(data.free_symbols)
    if isinstance(data, dict):
        return set().union(*[data_symbols(v) for v in data.values()]) if data else set()
    if isinstance(data, np.ndarray):
        return set().union(*[data_symbols(v) for v in data.flatten().tolist()]) if data.size else set()
    if isinstance(data, (list, tuple, set, frozenset)):
        return set().union(*[data_symbols(v) for v in data]) if data else set()
    return set()


def leaf_boxes(d):
    """The boxes of `d`, bubbles opened (recursively): the boxes that carry parameters."""
    out = []
    for b in d.boxes:
        if hasattr(b, "inside"):
            out.extend(leaf_boxes(b.inside))
        else:
            out.append(b)
    return out


def diagram_symbols(d):
    """Symbols occurring in the parameters of the boxes of `d` (boxes inside bubbles included: a
    bubble has no parameter of its own, its inside is part of the diagram)."""
    out = set()
    for b in leaf_boxes(d):
        out |= data_symbols(getattr(b, "data", None))
    return out


def outside_symbols(d):
    """Symbols of the boxes of `d` that are NOT inside a bubble."""
    out = set()
    for b in d.boxes:
        if not hasattr(b, "inside"):
            out |= data_symbols(getattr(b, "data", None))
    return out


def bubble_depth(d):
    return max([1 + bubble_depth(b.inside) for b in d.boxes if hasattr(b, "inside")] or [0])


def flat_data(data):
    if data is None:
        return []
    if isinstance(data, np.ndarray):
        return data.flatten().tolist()
    if isinstance(data, dict):
        return [x for v in data.values() for x in flat_data(v)]
    if isinstance(data, (list, tuple)):
        return [x for v in data for x in flat_data(v)]
    if isinstance(data, (set, frozenset)):
        # unordered: a canonical order (by printed form) so that runs are reproducible
        return [x for v in sorted(data, key=str) for x in flat_data(v)]
    return [data]


def is_number(v):
    if isinstance(v, numbers.Number) or isinstance(v, np.generic):
        return True
    v = sympy.sympify(v)
    return bool(v.is_number) and not v.free_symbols


# --------------------------------------------------------------------------- containers of box data

def _prod(xs):
    out = 1
    for x in xs:
        out *= int(x)
    return out


# ways of handing the SAME entries to a box whose data is read as an array (tensor.Box,
# ClassicalGate): np.array(data).reshape(...) accepts every rectangular nesting
ARRAY_KINDS = ["list", "tuple", "nested_list", "nested_tuple", "tuple_in_list", "list_in_tuple",
               "deep_mixed", "ndarray_flat", "ndarray_shaped", "list_of_ndarrays", "tuple_of_ndarrays"]
# only for one entry
SINGLE_KINDS = ["singleton_tuple", "bare", "zero_d"]


def array_container(rng, flat, dims, kind):
    """The entries `flat` (row-major, axes `dims`) arranged in a container of the given kind."""
    n = len(flat)
    dims = [int(k) for k in dims] or [1]
    k = rng.randint(1, max(1, len(dims) - 1))
    rows = _prod(dims[:k]) if len(dims) >= 2 else 1
    w = n // rows
    chunks = [flat[i * w:(i + 1) * w] for i in range(rows)]
    if kind == "list":
        return list(flat)
    if kind == "tuple":
        return tuple(flat)
    if kind == "nested_list":
        return [list(c) for c in chunks]
    if kind == "nested_tuple":
        return tuple(tuple(c) for c in chunks)
    if kind == "tuple_in_list":
        return [tuple(c) for c in chunks]
    if kind == "list_in_tuple":
        return tuple(list(c) for c in chunks)
    if kind == "deep_mixed":
        def nest(es, ds):
            ctor = rng.choice([list, tuple])
            if len(ds) <= 1:
                return ctor(es)
            step = len(es) // ds[0]
            return ctor([nest(es[i * step:(i + 1) * step], ds[1:]) for i in range(ds[0])])
        return nest(list(flat), dims)
    if kind == "ndarray_flat":
        return np.array(list(flat), dtype=object)
    if kind == "ndarray_shaped":
        return np.array(list(flat), dtype=object).reshape(dims)
    if kind == "list_of_ndarrays":
        return [np.array(list(c), dtype=object) for c in chunks]
    if kind == "tuple_of_ndarrays":
        return tuple(np.array(list(c), dtype=object) for c in chunks)
    if kind == "singleton_tuple":
        return (flat[0], )
    if kind == "bare":
        return flat[0]
    if kind == "zero_d":
        return np.array(flat[0], dtype=object)
    raise ValueError(kind)


# containers that are NOT arrays (no evaluation): any box class keeps them as `data`
WILD_KINDS = ["set", "frozenset", "dict", "dict_of_lists", "dict_of_tuples", "dict_of_sets", "dict_nested",
              "list_of_dicts", "tuple_of_sets", "set_of_tuples", "list_of_sets", "dict_of_ndarrays", "wild"]


def wild_container(rng, leaf, kind, depth=3):
    """Nested data of the given kind with entries from `leaf()`.  Dict keys are ints or strings
    (keys are not data); members of sets are entries, tuples or frozensets of entries."""
    def leaves(lo=1, hi=3):
        return [leaf() for _ in range(rng.randint(lo, hi))]

    def keys(n):
        pool = rng.choice([["k0", "k1", "k2", "k3"], [0, 1, 2, 3], ["w", 7, "b", 11]])
        return pool[:n]

    def hashable(d):
        k = rng.random()
        if d <= 0 or k < 0.5:
            return leaf()
        if k < 0.8:
            return tuple(hashable(d - 1) for _ in range(rng.randint(1, 2)))
        return frozenset(hashable(d - 1) for _ in range(rng.randint(1, 2)))

    def wild(d):
        k = rng.random()
        if d <= 0 or k < 0.25:
            return leaf()
        n = rng.randint(1, 3)
        if k < 0.40:
            return [wild(d - 1) for _ in range(n)]
        if k < 0.55:
            return tuple(wild(d - 1) for _ in range(n))
        if k < 0.65:
            return set(hashable(d - 1) for _ in range(n))
        if k < 0.72:
            return frozenset(hashable(d - 1) for _ in range(n))
        if k < 0.92:
            return dict(zip(keys(n), [wild(d - 1) for _ in range(n)]))
        return np.array(leaves(1, 3), dtype=object)
    if kind == "set":
        return set(leaves(1, 4))
    if kind == "frozenset":
        return frozenset(leaves(1, 4))
    if kind == "dict":
        vs = leaves(1, 4)
        return dict(zip(keys(len(vs)), vs))
    if kind == "dict_of_lists":
        return {k: leaves() for k in keys(rng.randint(1, 3))}
    if kind == "dict_of_tuples":
        return {k: tuple(leaves()) for k in keys(rng.randint(1, 3))}
    if kind == "dict_of_sets":
        return {k: set(leaves()) for k in keys(rng.randint(1, 3))}
    if kind == "dict_nested":
        return {k: {kk: rng.choice([leaf, leaves, lambda: tuple(leaves())])() for kk in keys(rng.randint(1, 2))}
                for k in keys(rng.randint(1, 2))}
    if kind == "list_of_dicts":
        return [dict(zip(keys(2), leaves(2, 2))) for _ in range(rng.randint(1, 2))]
    if kind == "tuple_of_sets":
        return tuple(set(leaves()) for _ in range(rng.randint(1, 2)))
    if kind == "list_of_sets":
        return [frozenset(leaves()) if rng.random() < 0.5 else set(leaves()) for _ in range(rng.randint(1, 2))]
    if kind == "set_of_tuples":
        return set(tuple(leaves(1, 2)) for _ in range(rng.randint(1, 3)))
    if kind == "dict_of_ndarrays":
        return {k: np.array(leaves(), dtype=object) for k in keys(rng.randint(1, 2))}
    if kind == "wild":
        return rng.choice([lambda: [wild(depth - 1) for _ in range(rng.randint(1, 3))],
                           lambda: tuple(wild(depth - 1) for _ in range(rng.randint(1, 3))),
                           lambda: dict(zip(keys(3), [wild(depth - 1) for _ in range(rng.randint(1, 3))]))])()
    raise ValueError(kind)


def canon_repr(data):
    """repr of nested data that does not depend on the iteration order of sets."""
    if isinstance(data, dict):
        return "{%s}" % ", ".join("%r: %s" % (k, canon_repr(v)) for k, v in data.items())
    if isinstance(data, np.ndarray):
        return "array(%s)" % canon_repr(data.tolist())
    if isinstance(data, list):
        return "[%s]" % ", ".join(canon_repr(v) for v in data)
    if isinstance(data, tuple):
        return "(%s)" % "".join(canon_repr(v) + ", " for v in data)
    if isinstance(data, (set, frozenset)):
        return "%s{%s}" % ("frozen" if isinstance(data, frozenset) else "", ", ".join(sorted(canon_repr(v) for v in data)))
    return str(data)


def data_symbols_outside_zero_d(data):
    """`data_symbols` of the data with its 0-d arrays left out."""
    if isinstance(data, np.ndarray) and data.shape == ():
        return set()
    if isinstance(data, dict):
        return set().union(*[data_symbols_outside_zero_d(v) for v in data.values()]) if data else set()
    if isinstance(data, (list, tuple, set, frozenset)):
        return set().union(*[data_symbols_outside_zero_d(v) for v in data]) if data else set()
    return data_symbols(data)


def container_types(data):
    """Names of the container types occurring in nested data (for the input distribution and to
    tell which cases sympy.lambdify is able to print)."""
    out = set()
    if isinstance(data, dict):
        out.add("dict")
        for v in data.values():
            out |= container_types(v)
    elif isinstance(data, np.ndarray):
        out.add("ndarray0" if data.shape == () else "ndarray")
    elif isinstance(data, (list, tuple, set, frozenset)):
        out.add(type(data).__name__)
        for v in data:
            out |= container_types(v)
    return out


def has_str_keys(data):
    """A dict with a string key somewhere in the data (sympy.lambdify prints keys unquoted: the
    generated code reads them as NAMES, e.g. 'k0' becomes numpy's Bessel function)."""
    if isinstance(data, dict):
        return any(isinstance(k, str) for k in data) or any(has_str_keys(v) for v in data.values())
    if isinstance(data, (list, tuple, set, frozenset)):
        return any(has_str_keys(v) for v in data)
    return False


def has_nested_ndarray(data, top=True):
    """An ndarray strictly inside another container."""
    if isinstance(data, np.ndarray):
        return not top
    if isinstance(data, dict):
        return any(has_nested_ndarray(v, False) for v in data.values())
    if isinstance(data, (list, tuple, set, frozenset)):
        return any(has_nested_ndarray(v, False) for v in data)
    return False


def zero_d_symbols(data):
    """Symbols that occur in 0-d arrays of the data."""
    if isinstance(data, np.ndarray):
        return data_symbols(data) if data.shape == () else set()
    if isinstance(data, dict):
        return set().union(*[zero_d_symbols(v) for v in data.values()]) if data else set()
    if isinstance(data, (list, tuple, set, frozenset)):
        return set().union(*[zero_d_symbols(v) for v in data]) if data else set()
    return set()


def ref_rmap(func, data):
    """The property's reading of an operation on the parameters of a box: the ENTRIES are mapped,
    every container stays what it is (written here independently of discopy.cat.rmap)."""
    if isinstance(data, dict):
        return {k: ref_rmap(func, v) for k, v in data.items()}
    if isinstance(data, np.ndarray):
        out = np.empty(data.shape, dtype=object)
        if data.shape == ():
            out[()] = func(data.item())
        else:
            for idx in np.ndindex(*data.shape):
                out[idx] = func(data[idx])
        return out
    if isinstance(data, list):
        return [ref_rmap(func, v) for v in data]
    if isinstance(data, tuple):
        return tuple(ref_rmap(func, v) for v in data)
    if isinstance(data, (set, frozenset)):
        return type(data)(ref_rmap(func, v) for v in data)
    return func(data)


def nested_same(got, want, point, sequences_alike=True):
    """Nested data equal as VALUES: same nesting (list / tuple / ndarray are all 'a sequence' when
    `sequences_alike`: lambdify returns lists for arrays), same dict keys, sets compared as sets,
    entries numerically equal at `point`.  Returns None or a text saying where they differ."""
    def seq(x):
        if isinstance(x, np.ndarray):
            return x.tolist() if x.shape != () else None
        if isinstance(x, (list, tuple)):
            return list(x)
        if type(x).__name__ == "Tuple":           # sympy.Tuple, what sympify makes of a tuple
            return list(x)
        return None

    def leaf_same(x, y):
        if isinstance(x, np.ndarray) and x.shape == ():
            x = x.item()
        if isinstance(y, np.ndarray) and y.shape == ():
            y = y.item()
        try:
            return close([numeval(x, point)], [numeval(y, point)])
        except Exception:
            return False

    def walk(x, y, path):
        if isinstance(y, dict):
            if not isinstance(x, dict) or sorted(map(repr, x)) != sorted(map(repr, y)):
                return "%s: %r is not a dict with the keys of %r" % (path, x, y)
            for k in y:
                bad = walk(x[k], y[k], "%s[%r]" % (path, k))
                if bad:
                    return bad
            return None
        if isinstance(y, (set, frozenset)):
            if not isinstance(x, (set, frozenset)):
                return "%s: %r is not a set" % (path, x)
            for a in y:
                if not any(walk(b, a, path) is None for b in x):
                    return "%s: %r has no member equal to %r" % (path, x, a)
            for b in x:
                if not any(walk(b, a, path) is None for a in y):
                    return "%s: member %r is not in %r" % (path, b, y)
            return None
        sy = seq(y)
        if sy is not None:
            sx = seq(x)
            if sx is None or len(sx) != len(sy) or (not sequences_alike and type(x) is not type(y)):
                return "%s: %r is not a sequence like %r" % (path, x, y)
            for i, (a, b) in enumerate(zip(sx, sy)):
                bad = walk(a, b, "%s[%d]" % (path, i))
                if bad:
                    return bad
            return None
        if seq(x) is not None or isinstance(x, (dict, set, frozenset)):
            return "%s: %r where the entry %r is expected" % (path, x, y)
        return None if leaf_same(x, y) else "%s: %r != %r" % (path, x, y)
    return walk(got, want, "data")


# --------------------------------------------------------------------------- numeric comparison

def entries(t):
    """Flat list of the entries of a Tensor / CQMap / plain number (0 of an empty sum)."""
    if isinstance(t, (int, float, complex)):
        return [t]
    return np.asarray(t.array, dtype=object).flatten().tolist()


def numeval(e, point):
    """Complex value of entry `e` at the (rational) point; raises if symbols remain."""
    if isinstance(e, (numbers.Number, np.generic)):
        return complex(e)
    v = sympy.sympify(e)
    if v.free_symbols:
        v = v.subs(point)
    return complex(sympy.N(v, 30))


def numvec(es, point):
    return np.array([numeval(e, point) for e in es], dtype=complex)


def close(a, b):
    a, b = np.asarray(a, dtype=complex), np.asarray(b, dtype=complex)
    if a.shape != b.shape:
        return False
    if a.size == 0:
        return True
    scale = max(1.0, float(np.abs(a).max()), float(np.abs(b).max()))
    return bool(np.abs(a - b).max() <= TOL * scale)


def rational_point(rng, syms):
    return {s: sympy.Rational(rng.randint(-9, 9), rng.choice([4, 5, 7, 9, 11])) for s in syms}


def ref_subs(es, args):
    """Reference semantics of substitution on a flat list of entries: sympy's own `subs`
    applied to every entry, numbers unchanged."""
    return [sympy.sympify(e).subs(*args) for e in es]


def exact_zero(a, b):
    """Cheap exact comparison; None when it is not cheap / undecided."""
    try:
        diff = sympy.sympify(a) - sympy.sympify(b)
        if diff.has(sympy.Float):
            return None
        if sympy.count_ops(diff) > 60:
            return None
        r = sympy.simplify(diff)
        return bool(r == 0)
    except Exception:
        return None


# --------------------------------------------------------------------------- box attributes

def box_attrs(b):
    """The non-numeric attributes the property asks to be preserved.  A bubble additionally keeps
    its function (the object), its drawing name and the shape of the diagram inside."""
    out = dict(kind=type(b).__name__, module=type(b).__module__.split(".")[-1],
               sname=str(getattr(b, "_name", None)),
               dom=str(b.dom), cod=str(b.cod),
               dagger=bool(b.is_dagger),
               mixed=(bool(b.is_mixed) if hasattr(b, "is_mixed") else None))
    if hasattr(b, "inside"):
        out["bubble"] = dict(func=id(getattr(b, "func", None)), drawing_name=getattr(b, "drawing_name", None),
                             inside=diagram_shape(b.inside))
    return out


def diagram_shape(d):
    return dict(dom=str(d.dom), cod=str(d.cod), offsets=[int(o) for o in getattr(d, "offsets", [])],
                boxes=[box_attrs(b) for b in d.boxes])


# --------------------------------------------------------------------------- ZX interpretation

def _spider_array(n, phase, xcolour):
    symbolic = bool(getattr(phase, "free_symbols", None))
    if symbolic:
        ph = sympy.exp(2 * sympy.pi * sympy.I * phase)
        arr = np.zeros((2, ) * n or (1, ), dtype=object)
        arr[...] = 0
    else:
        ph = complex(np.exp(2j * np.pi * complex(sympy.N(phase) if hasattr(phase, "free_symbols") else phase)))
        arr = np.zeros((2, ) * n or (1, ), dtype=complex)
    if n == 0:
        arr[0] = 1 + ph
        return arr
    arr[(0, ) * n] = 1
    arr[(1, ) * n] = ph
    if xcolour:
        h = np.array([[1, 1], [1, -1]]) / math.sqrt(2)
        if symbolic:
            h = h.astype(object)
        for i in range(n):
            arr = np.moveaxis(np.tensordot(arr, h, ([i], [0])), -1, i)
    return arr


def zx_box_array(b):
    from discopy.quantum import zx
    if isinstance(b, zx.Z) or isinstance(b, zx.X):
        n = len(b.dom) + len(b.cod)
        return _spider_array(n, b.phase, isinstance(b, zx.X))
    if isinstance(b, zx.Had):
        return np.array([[1, 1], [1, -1]]) / math.sqrt(2)
    if isinstance(b, zx.Scalar):
        return np.array([b.data], dtype=object if hasattr(b.data, "free_symbols") else complex)
    raise NotImplementedError(type(b).__name__)


def zx_eval(d):
    """Standard interpretation of a ZX diagram (phases in full turns, as gate2zx uses them),
    composed by discopy's own tensor.Functor."""
    from discopy import tensor
    from discopy.rigid import PRO
    return tensor.Functor(ob={PRO(1): 2}, ar=zx_box_array)(d)


# --------------------------------------------------------------------------- alike diagrams (histories)

# constants with at most three significant digits: c * (1 + t), |t| <= 3e-4, prints as c under
# '{:.3g}' (half a unit of the third digit is at least 5e-4 relative)
ALIKE_BASES = [0.123, 0.25, 1.37, 12.3, 31.4, -0.517, 2.5, 0.75, -1.5]


class Tail:
    """Perturbation of numeric constants: c -> c * (1 + u * 10**-(digits + 1)), u in +-[0.5, 3].
    Variants made with different tails agree on the first `digits` significant digits of every
    constant (digits = 3: they print alike under '{:.3g}'; 8: alike under numpy's repr of
    float arrays; 2: they already differ in what is printed -- the neighbouring region)."""

    def __init__(self, rng, digits):
        self.rng, self.digits = rng, digits

    def __call__(self, c):
        if not c:
            return c
        u = self.rng.choice([-1, 1]) * self.rng.uniform(0.5, 3.0)
        return float(c) * (1 + round(u, 3) * 10.0 ** -(self.digits + 1))


def alike_variants(rng, k, make, mode=None):
    """`k` diagrams that look alike, for checks of state carried between calls: the same
    structural seed is given to `make(structure_rng, data_rng, tail)` k times;
      mode 'tails:<n>'  -- equal expressions, numeric constants agreeing on n significant digits
      mode 'data'       -- equal shape / names / types / gate classes, independent data
      mode 'same'       -- the very same diagram built again (a distinct but equal object)
    Returns (variants, mode)."""
    import random
    mode = mode or rng.choice(["tails:3"] * 5 + ["tails:2", "tails:5", "tails:9", "data", "data", "same"])
    s, ds = rng.getrandbits(64), rng.getrandbits(64)
    out = []
    for _ in range(k):
        own = random.Random(rng.getrandbits(64))
        if mode == "data":
            out.append(make(random.Random(s), own, None))
        elif mode == "same":
            out.append(make(random.Random(s), random.Random(ds), Tail(random.Random(ds), 3)))
        else:
            out.append(make(random.Random(s), random.Random(ds), Tail(own, int(mode.split(":")[1]))))
    return out, mode


# --------------------------------------------------------------------------- terms of formal sums

# which term stands at which place of the sum: 0 and 1 are different diagrams of the same type,
# 2 is EQUAL to 0 but a distinct object (built again from the same seeds)
SUM_PATTERNS = [[0, 0], [0, 2], [0, 1, 0], [0, 1, 2], [0, 0, 0], [0, 1, 1, 0], [2, 1, 0], [0, 0, 1],
                [1, 0, 0, 1], [0, 1, 0, 1], [0, 1], [0, 1, 1]]


def same_type_terms(rng, make):
    """Three diagrams of one type for the terms of a formal sum: `make(structure_rng, data_rng)` is
    called with the same structural seed, so all have the same shape; [0] and [1] have independent
    data, [2] is built from the seeds of [0] again (equal, not the same object)."""
    import random
    s, d0, d1 = rng.getrandbits(64), rng.getrandbits(64), rng.getrandbits(64)
    return [make(random.Random(s), random.Random(d0)), make(random.Random(s), random.Random(d1)),
            make(random.Random(s), random.Random(d0))]


def build_sum(terms, how):
    """The formal sum of the terms, built the way `how` says."""
    if how == "plus":
        out = terms[0]
        for t in terms[1:]:
            out = out + t
        return out
    if how == "sum_class":
        return terms[0].sum(list(terms))
    if how == "builtin_sum":
        return sum(terms[1:], terms[0])
    if how == "nested":                 # (a + b) + (c + ...): sums of sums flatten
        k = max(1, len(terms) // 2)
        left, right = build_sum(terms[:k], "plus"), build_sum(terms[k:], "plus")
        return left + right
    raise ValueError(how)


SUM_BUILDERS = ["plus", "plus", "sum_class", "builtin_sum", "nested"]


# --------------------------------------------------------------------------- generators

class TensorGen:
    """Random tensor diagrams with symbolic boxes.  `spec` mirrors the diagram for the model
    stream when `polyonly` (integer polynomial entries, plain boxes and daggered boxes)."""

    def __init__(self, rng, syms, polyonly=False, maxdim=8, ndarray_data=0.0, data_rng=None, tail=None):
        self.rng, self.syms, self.polyonly, self.maxdim = rng, syms, polyonly, maxdim
        # data_rng (default: the structural rng): source of the box ENTRIES.  Two generators with
        # equal `rng` seeds and different `data_rng` give diagrams of the same shape, box names,
        # types, offsets and dagger flags whose data differ ("alike" diagrams, see `alike_variants`)
        self.drng = data_rng or rng
        self.eg = ExprGen(self.drng, syms)
        # tail (default off): a `Tail`; numeric constants become c * tail() -- variants that agree
        # on the leading significant digits of every constant
        self.tail = tail
        self.ndarray_data = ndarray_data
        self.count = 0
        self.maxdeg = 2         # degree bound of the integer polynomials (polyonly)
        self.repeat = 0.0       # probability that a layer re-uses an EARLIER box (the same object)

    def entry(self, p_sym):
        r = self.drng
        if r.random() < p_sym:
            if self.polyonly:
                return self.eg.int_poly(self.maxdeg)
            return r.choice([self.eg.affine, self.eg.poly, self.eg.poly, self.eg.nonlinear])()
        if self.tail is not None:
            return self.tail(r.choice(ALIKE_BASES + [0, 1]))
        return r.choice([0, 0, 1, 1, 2, -1])

    def box(self, dom, cod, symbolic=True):
        """(box, spec) with box.dom == Dim(*dom), box.cod == Dim(*cod)."""
        from discopy.tensor import Box, Dim
        r = self.rng
        dagger = r.random() < 0.3
        size = int(np.prod(dom + cod)) if dom + cod else 1
        p = (0.45 if symbolic else 0.0)
        flat = [self.entry(p) for _ in range(size)]
        if symbolic and not any(hasattr(e, "free_symbols") and e.free_symbols for e in flat):
            dr = self.drng
            flat[dr.randrange(size)] = self.eg.int_poly(self.maxdeg) + dr.choice(self.syms) if self.polyonly \
                else self.eg.affine() + dr.choice(self.syms) * 2
        name = "f%d" % self.count
        self.count += 1
        d0, c0 = (cod, dom) if dagger else (dom, cod)       # the un-daggered box
        data, shape = list(flat), "flat"
        if not self.polyonly:
            k = r.random()
            rows = int(np.prod(d0)) if d0 else 1
            if k < 0.2 and rows > 1 and size % rows == 0:
                w = size // rows
                data, shape = [flat[i * w:(i + 1) * w] for i in range(rows)], "nested"
            elif k < 0.35:
                data, shape = tuple(flat), "tuple"
            elif k < 0.35 + self.ndarray_data:
                data, shape = np.array(flat, dtype=object), "ndarray"
        b = Box(name, Dim(*d0), Dim(*c0), data)
        if dagger:
            b = b.dagger()
        spec = dict(name=name, dom=list(dom), cod=list(cod), dagger=dagger, data=flat, shape=shape)
        return b, spec

    def diagram(self, depth, p_symbolic=0.7, plain_only=False):
        from discopy.tensor import Dim, Id, Swap, Spider
        r = self.rng
        dims = [2, 2, 2, 3] if not self.polyonly else [2, 2, 3]
        scan = [r.choice(dims) for _ in range(r.randint(0, 2))]
        dom = list(scan)
        d = Id(Dim(*scan))
        layers = []
        for _ in range(depth):
            n = len(scan)
            kinds = ["box"] * 6
            if not plain_only and n >= 2:
                kinds += ["swap"]
            if not plain_only and n >= 1:
                kinds += ["spider"]
            kind = r.choice(kinds)
            if kind == "swap":
                off = r.randrange(n - 1)
                left, right = scan[:off], scan[off + 2:]
                b = Swap(Dim(scan[off]), Dim(scan[off + 1]))
                new = [scan[off + 1], scan[off]]
                spec = dict(kind="swap")
            elif kind == "spider":
                off = r.randrange(n)
                left, right = scan[:off], scan[off + 1:]
                k = r.choice([1, 2]) if int(np.prod(scan)) * scan[off] <= self.maxdim else 1
                b = Spider(1, k, Dim(scan[off]))
                new = [scan[off]] * k
                spec = dict(kind="spider")
            elif self.repeat and kind == "box" and self._reusable(layers, scan) \
                    and r.random() < self.repeat:
                # the same box object again, at any place where its domain fits (other offset,
                # other depth, other boxes in between)
                j, off = r.choice(self._reusable(layers, scan))
                b, spec = layers[j]["_box"], dict(layers[j])
                k = len(spec["dom"])
                left, right = scan[:off], scan[off + k:]
                new = list(spec["cod"])
                spec["repeated"] = True
            else:
                off = r.randint(0, n)
                k = r.randint(0, min(2, n - off))
                left, right, bdom = scan[:off], scan[off + k:], scan[off:off + k]
                rest = int(np.prod(left + right)) if left + right else 1
                cod = []
                for _ in range(r.choice([0, 1, 1, 1, 2])):
                    c = r.choice(dims)
                    if rest * int(np.prod(cod + [c])) <= self.maxdim:
                        cod.append(c)
                b, spec = self.box(bdom, cod, symbolic=r.random() < p_symbolic)
                spec["kind"] = "box"
                spec["_box"] = b
                new = cod
            d = d >> Id(Dim(*left)) @ b @ Id(Dim(*right))
            spec.update(left=list(left), right=list(right))
            layers.append(spec)
            scan = left + new + right
        for l in layers:
            l.pop("_box", None)
        return d, dict(dom=dom, layers=layers)

    def _reusable(self, layers, scan):
        """(index of an earlier box layer, offset) pairs at which that box fits the current wires
        without exceeding `maxdim`."""
        out = []
        for j, l in enumerate(layers):
            if l.get("kind") != "box" or "_box" not in l:
                continue
            k = len(l["dom"])
            for off in range(len(scan) - k + 1):
                if scan[off:off + k] == l["dom"]:
                    rest = scan[:off] + scan[off + k:]
                    if int(np.prod(rest + l["cod"])) <= self.maxdim:
                        out.append((j, off))
        return out


# functions applied elementwise by a tensor bubble: polynomials, so that they commute with every
# substitution (func(e).subs(s) == func(e.subs(s))) and map numbers to numbers
BUBBLE_FUNCS = [("sq", lambda v: v ** 2), ("inc", lambda v: v + 1), ("dbl", lambda v: 2 * v),
                ("quad", lambda v: v * v - v), ("neg", lambda v: -v), ("cube1", lambda v: v ** 3 + 1)]


class BubbleGen:
    """Random tensor diagrams WITH BUBBLES (tensor.Bubble: a polynomial applied elementwise to the
    evaluation of the diagram inside).  A diagram is a sequence of stages on a few wires; a stage is
    a whiskered plain box, a swap, or a whiskered bubble around a recursively generated diagram
    (nesting <= `nesting`).
    `split`: how the symbols are shared between the boxes outside every bubble and the boxes inside:
      "inside_only"  -- plain boxes outside the bubbles are numeric or use OTHER symbols
      "shared"       -- the same pool everywhere
      "nested_only"  -- only boxes at nesting depth >= 2 carry the distinguished symbol."""

    def __init__(self, rng, syms, split="inside_only", maxdim=4, nesting=2):
        self.rng, self.syms, self.split, self.maxdim, self.nesting = rng, list(syms), split, maxdim, nesting
        self.g = TensorGen(rng, syms, maxdim=maxdim)
        r = rng
        pool = list(syms)
        r.shuffle(pool)
        k = r.randint(1, max(1, len(pool) - 1))
        if split == "shared":
            self.by_level = lambda lvl: pool
        elif split == "inside_only":
            outer, inner = pool[k:], pool[:k]
            self.by_level = lambda lvl: (outer if lvl == 0 else inner)
        else:
            outer, inner = pool[1:], pool[:1]
            self.by_level = lambda lvl: (outer if lvl < 2 else inner + outer[:1])
        self.stats = dict(bubbles=0, redeclared=0)
        self.redeclare = False

    def box(self, dom, cod, level):
        g, r = self.g, self.rng
        syms = self.by_level(level)
        symbolic = bool(syms) and r.random() < (0.8 if level else 0.6)
        if symbolic:
            g.syms = list(syms)
            g.eg = ExprGen(g.drng, g.syms)
        return g.box(dom, cod, symbolic=symbolic)[0]

    def stage(self, scan, level, force_bubble=False):
        """(layer diagram from Dim(*scan), new scan)."""
        from discopy.tensor import Dim, Id, Swap
        r = self.rng
        n = len(scan)
        kinds = ["box"] * 4 + (["swap"] if n >= 2 else [])
        if level < self.nesting:
            kinds += ["bubble"] * 2
        kind = "bubble" if force_bubble and level < self.nesting else r.choice(kinds)
        if kind == "swap":
            off = r.randrange(n - 1)
            return (Id(Dim(*scan[:off])) @ Swap(Dim(scan[off]), Dim(scan[off + 1])) @ Id(Dim(*scan[off + 2:])),
                    scan[:off] + [scan[off + 1], scan[off]] + scan[off + 2:])
        off = r.randint(0, n)
        k = r.randint(0, min(2, n - off))
        left, right, bdom = scan[:off], scan[off + k:], scan[off:off + k]
        rest = int(np.prod(left + right)) if left + right else 1
        if kind == "box":
            cod = []
            for _ in range(r.choice([0, 1, 1, 2])):
                c = r.choice([2, 2, 3])
                if rest * int(np.prod(cod + [c])) <= self.maxdim:
                    cod.append(c)
            b = self.box(bdom, cod, level)
        else:
            sub = BubbleGen.__new__(BubbleGen)
            sub.__dict__.update(self.__dict__)
            sub.maxdim = max(2, self.maxdim // rest)
            inside, cod = sub.diagram(r.randint(1, 2), level + 1, dom=bdom,
                                      force_bubble=(self.split == "nested_only" and level == 0))
            name, func = r.choice(BUBBLE_FUNCS)
            params = dict(func=func, drawing_name=name)
            if self.redeclare and len(cod) == 2 and not right and r.random() < 0.5:
                # re-declared codomain: the two wires merged into one.  Off by default: the
                # evaluation of a bubble keeps the type of its inside (tensor.py:336), so such a
                # bubble only composes with what follows when nothing is contracted across it
                cod = [cod[0] * cod[1]]
                params["cod"] = Dim(*cod)
                self.stats["redeclared"] += 1
            b = inside.bubble(**params)
            self.stats["bubbles"] += 1
        return Id(Dim(*left)) @ b @ Id(Dim(*right)), left + cod + right

    def diagram(self, depth, level=0, dom=None, force_bubble=False):
        """(diagram, cod as a list).  At level 0 at least one stage is a bubble and depth >= 2."""
        from discopy.tensor import Dim, Id
        r = self.rng
        scan = list(dom) if dom is not None else [r.choice([2, 2, 3]) for _ in range(r.randint(0, 1))]
        d = Id(Dim(*scan))
        where = r.randrange(depth) if (level == 0 or force_bubble) else -1
        for i in range(depth):
            layer, scan = self.stage(scan, level, force_bubble=(i == where))
            d = d >> layer
        if level and len(d.boxes) == 1 and r.random() < 0.5:
            d = d.boxes[0] if not d.offsets[0] and d.dom == d.boxes[0].dom and d.cod == d.boxes[0].cod else d
        return d, scan


ROT1 = ["Rx", "Ry", "Rz"]
ROT2 = ["CRz", "CRx", "CU1"]


class CircuitGen:
    def __init__(self, rng, syms, mixed=False, max_qubits=2, rot2=True, classical=True,
                 scalars=True, bits=0.15, ket=0.6, repeat=0.0, numeric=0.0, tail=None, data_rng=None):
        # repeat: probability that a parametrised gate is an EARLIER one again (the same object:
        # equal class and phase expression) at a random position
        self.repeat = repeat
        self.rng, self.syms, self.mixed, self.max_qubits = rng, syms, mixed, max_qubits
        # data_rng (default: the structural rng): source of the phase EXPRESSIONS; numeric: the
        # probability that a phase / scalar is a plain number (a constant gate) instead of an
        # expression; tail: a `Tail` applied to those numbers.  All default-off: the case stream
        # of callers that do not set them is unchanged.
        self.drng = data_rng or rng
        self.numeric, self.tail = numeric, tail
        self.eg = ExprGen(self.drng, syms)
        self.rot2, self.classical, self.scalars, self.bits = rot2, classical, scalars, bits
        self.ket = ket

    def circuit(self, depth, phase=None):
        from discopy.quantum import (Ket, Bra, H, X, Z, CX, SWAP, Rx, Ry, Rz, CRz, CRx, CU1,
                                     Measure, Discard, Bits, qubit, bit)
        from discopy.quantum.circuit import Id
        from discopy.quantum.gates import scalar, sqrt, MixedScalar, ClassicalGate, Copy
        r = self.rng
        phase = phase or self.eg.phase
        if self.numeric:
            symbolic_phase, dr = phase, self.drng

            def phase():
                if r.random() < self.numeric:
                    c = dr.choice(ALIKE_BASES)
                    return self.tail(c) if self.tail is not None else c
                return symbolic_phase()
        rots = dict(Rx=Rx, Ry=Ry, Rz=Rz, CRz=CRz, CRx=CRx, CU1=CU1)
        nq = r.randint(1, self.max_qubits)
        if r.random() < self.ket:
            c = Ket(*[r.choice([0, 1]) for _ in range(nq)])
        else:
            c = Id(qubit ** nq)
        wires = ["q"] * nq
        used = []
        pool = dict(rot1=[], rot2=[])

        def layer(off, box, new):
            nonlocal c, wires
            nin = len(box.dom)
            left = Id(qubit ** 0).tensor(*[Id(qubit if w == "q" else bit) for w in wires[:off]]) \
                if off else Id(qubit ** 0)
            right = Id(qubit ** 0).tensor(*[Id(qubit if w == "q" else bit) for w in wires[off + nin:]]) \
                if wires[off + nin:] else Id(qubit ** 0)
            c = c >> left @ box @ right
            wires = wires[:off] + new + wires[off + nin:]

        for _ in range(depth):
            qs = [i for i, w in enumerate(wires) if w == "q"]
            qq = [i for i in range(len(wires) - 1) if wires[i] == wires[i + 1] == "q"]
            bs = [i for i, w in enumerate(wires) if w == "b"]
            kinds = []
            if qs:
                kinds += ["rot1"] * 5 + ["fixed1"]
            if qq:
                kinds += (["rot2"] * 3 if self.rot2 else []) + ["fixed2"]
            if self.scalars:
                kinds += ["scalar"] * 2
            if self.mixed:
                if qs:
                    kinds += ["measure", "discard"]
                if self.scalars:
                    kinds += ["mscalar"] * 2
                if bs and self.classical:
                    kinds += ["cgate"] * 3
                if self.classical and len(wires) < 3 and r.random() < self.bits:
                    kinds += ["bits"] * 2
            if not kinds:
                break
            k = r.choice(kinds)
            used.append(k)
            if self.repeat and k in ("rot1", "rot2") and pool[k] and r.random() < self.repeat:
                g = r.choice(pool[k])
                used[-1] = k + ":repeated"
                layer(r.choice(qs if k == "rot1" else qq), g, ["q"] * len(g.dom))
            elif k == "rot1":
                g = rots[r.choice(ROT1)](phase())
                pool[k].append(g)
                layer(r.choice(qs), g, ["q"])
            elif k == "rot2":
                g = rots[r.choice(ROT2)](phase())
                pool[k].append(g)
                layer(r.choice(qq), g, ["q", "q"])
            elif k == "fixed1":
                layer(r.choice(qs), r.choice([H, X, Z]), ["q"])
            elif k == "fixed2":
                layer(r.choice(qq), r.choice([CX, SWAP]), ["q", "q"])
            elif k == "scalar":
                if r.random() < 0.2:
                    s = r.choice(self.syms)
                    layer(r.randint(0, len(wires)), sqrt(s ** 2 + 1), [])
                else:
                    layer(r.randint(0, len(wires)), scalar(phase()), [])
            elif k == "mscalar":
                e = phase()
                layer(r.randint(0, len(wires)),
                      MixedScalar(e) if r.random() < 0.4 else scalar(e, is_mixed=True), [])
            elif k == "measure":
                layer(r.choice(qs), Measure(), ["b"])
            elif k == "discard":
                layer(r.choice(qs), Discard(), [])
            elif k == "bits":
                layer(r.randint(0, len(wires)), Bits(r.choice([0, 1])), ["b"])
            elif k == "cgate":
                off = r.choice(bs)
                ncod = r.choice([1, 1, 2]) if len(wires) < 3 else 1
                if r.random() < 0.15 and ncod == 2:
                    layer(off, Copy(), ["b", "b"])
                    continue
                size = 2 ** (1 + ncod)
                data = [phase() if r.random() < 0.4 else r.choice([0, 1, 1, 2]) for _ in range(size)]
                if not any(getattr(e, "free_symbols", None) for e in data):
                    data[r.randrange(size)] = phase()
                if r.random() < 0.4:
                    g = ClassicalGate("g", ncod, 1, data).dagger()
                else:
                    g = ClassicalGate("g", 1, ncod, data)
                layer(off, g, ["b"] * ncod)
        if not self.mixed and r.random() < 0.3:
            nq = len(wires)
            c = c >> Bra(*[r.choice([0, 1]) for _ in range(nq)])
        return c, used


def repeated_gate_circuit(rng, syms, two_qubit_rotations=True, max_qubits=3, small=False):
    """A circuit in which the SAME parametrised gate (one object: equal class, equal phase
    expression) occurs two or three times, on different wires and/or separated by gates it does
    not commute with, among other parametrised gates in the same symbols.
    Returns (circuit, description)."""
    from discopy.quantum import Ket, H, X, CX, Rx, Ry, Rz, CRz, CRx, CU1, qubit
    from discopy.quantum.circuit import Id
    r = rng
    eg = ExprGen(r, syms)
    rots1 = dict(Rx=Rx, Ry=Ry, Rz=Rz)
    rots2 = dict(CRz=CRz, CRx=CRx, CU1=CU1)
    if small:
        # CQ evaluation + symbolic differentiation of the doubled map is costly: one symbol in the
        # repeated phase, separators without symbols or with one
        ph = r.choice(syms) * r.choice([1, 1, 2, sympy.Rational(1, 2)])
    else:
        ph = r.choice([lambda: r.choice(syms), eg.affine, eg.poly, lambda: r.choice(syms) * r.choice(syms)])()
    if not getattr(ph, "free_symbols", None):
        ph = ph + r.choice(syms)
    shapes = ["same_wire", "two_wires", "two_wires_cx", "three_times"]
    if two_qubit_rotations and max_qubits >= 2:
        shapes += ["rot2_sep", "rot2_shifted"] if max_qubits >= 3 else ["rot2_sep"]
    if max_qubits < 2:
        shapes = ["same_wire", "three_times_1q"]
    if small:
        shapes = [x for x in shapes if x not in ("three_times", "three_times_1q")]
    shape = r.choice(shapes)
    name = r.choice(sorted(rots1))
    g = rots1[name](ph)
    other = rots1[r.choice([n for n in sorted(rots1) if n != name])]   # does not commute with g

    def sep():
        if small:
            return r.choice([H, other(sympy.Rational(1, 4)), other(r.choice(syms))])
        return other(eg.phase()) if r.random() < 0.7 else H

    def on(n, i, box):
        return Id(qubit ** i) @ box @ Id(qubit ** (n - i - len(box.dom)))
    if shape == "same_wire":
        n = 1
        c = g >> sep() >> g
    elif shape == "three_times_1q":
        n = 1
        c = g >> sep() >> g >> sep() >> g
    elif shape == "two_wires":
        n = 2
        c = g @ g
        if r.random() < 0.5:
            c = on(2, r.randrange(2), sep()) >> c
    elif shape == "two_wires_cx":
        n = 2
        c = on(2, 0, g) >> CX >> on(2, 1, g)
    elif shape == "three_times":
        n = 2
        c = on(2, 0, g) >> on(2, 1, sep()) >> CX >> on(2, 1, g) >> on(2, 0, sep()) >> on(2, 0, g)
    elif shape == "rot2_sep":
        n = 2
        name = r.choice(sorted(rots2))
        g = rots2[name](ph)
        c = g >> on(2, r.randrange(2), H if name != "CRx" or r.random() < 0.5 else Rz(eg.phase())) >> g
    else:                                   # rot2_shifted: the same controlled rotation on wires 0,1 and 1,2
        n = 3
        name = r.choice(sorted(rots2))
        g = rots2[name](ph)
        c = on(3, 0, g) >> on(3, 1, H) >> on(3, 1, g)
    if small or r.random() < 0.6:           # small: states only (a CQ map has 16^n entries otherwise)
        c = Ket(*[r.choice([0, 1]) for _ in range(n)]) >> c
    elif r.random() < 0.5:
        c = on(n, r.randrange(n), r.choice([H, X])) >> c
    return c, "repeat:%s:%s" % (shape, name)


class ZXGen:
    def __init__(self, rng, syms, tail=None, data_rng=None):
        self.rng, self.syms = rng, syms
        self.drng = data_rng or rng
        self.tail = tail        # a `Tail` applied to numeric phases / scalars (default off)
        self.eg = ExprGen(self.drng, syms)

    def diagram(self, depth):
        from discopy.quantum import zx
        r = self.rng
        n = r.randint(0, 2)
        d = zx.Id(n)
        for _ in range(depth):
            kinds = ["spider"] * 5 + ["scalar"]
            if n >= 1:
                kinds += ["had"]
            if n >= 2:
                kinds += ["swap"]
            k = r.choice(kinds)
            if k == "spider":
                off = r.randint(0, n)
                nin = r.randint(0, min(2, n - off))
                nout = r.choice([0, 1, 1, 2]) if n - nin < 3 else r.choice([0, 1])
                if n - nin + nout > 3:
                    nout = 1
                ph = self.eg.phase() if r.random() < 0.7 else r.choice([0, 0.5, 0.25, 1])
                if self.tail is not None and not hasattr(ph, "free_symbols"):
                    ph = self.tail(self.drng.choice(ALIKE_BASES))
                b = r.choice([zx.Z, zx.X])(nin, nout, ph)
            elif k == "scalar":
                off, nin, nout = r.randint(0, n), 0, 0
                sc = self.eg.phase() if r.random() < 0.8 else 2
                if self.tail is not None and not hasattr(sc, "free_symbols"):
                    sc = self.tail(self.drng.choice(ALIKE_BASES))
                b = zx.scalar(sc)
            elif k == "had":
                off, nin, nout = r.randrange(n), 1, 1
                b = zx.Had()
            else:
                off, nin, nout = r.randrange(n - 1), 2, 2
                b = zx.SWAP
            d = d >> zx.Id(off) @ b @ zx.Id(n - off - nin)
            n = n - nin + nout
        return d


# --------------------------------------------------------------------------- polynomial tokens (Lean driver)

def poly_tokens(e, syms):
    """Canonical token form of an integer polynomial in `syms`:
    `<nterms> (<coeff> <e0> <e1> ... )*`, monomials sorted, exponents padded to len(syms).
    Coefficients that are integer-valued floats (discopy multiplies by a float identity) are
    accepted when they are within 1e-9 of an integer; anything else raises ValueError."""
    e = sympy.expand(sympy.nsimplify(sympy.sympify(e), rational=True))
    if e == 0:
        return "0"
    p = sympy.Poly(e, *syms)
    terms = []
    for mono, c in p.terms():
        c = sympy.nsimplify(c)
        if not c.is_Integer:
            raise ValueError("non-integer coefficient %r" % (c, ))
        terms.append((tuple(int(k) for k in mono), int(c)))
    terms.sort()
    return " ".join([str(len(terms))] + ["%d %s" % (c, " ".join(map(str, m))) for m, c in terms])
