"""Pure-circuit generator and independent numpy semantics shared by C11 and C16.

A gate is described by a small tuple (its *descriptor*):
    ("N", name)              a gate of gates.GATES            ("D", g)   g.dagger()
    ("C", g)                 Controlled(g)                    ("W",)     SWAP
    ("R", kind, n, phase)    rotation; n = phase*8 (int) in exact mode, None for a float phase
    ("K", bits) / ("B", bits)  Ket / Bra                      ("S", cyc8_tuple | None, value)  scalar
    ("Q", name)              user-defined QuantumGate(name, n_qubits, array) from the CUSTOM table below
                             (n_qubits = 0, 1, 2, 3; the 0-qubit ones are global phases)
    ("P", value)             user-defined 0-qubit QuantumGate('phase', 0, [value]) with a float entry (float mode)
    ("Z", z_tuple | None, root_tuple | None, data)   the square-root scalar sqrt(data) (gates.Sqrt); in exact
                             mode data = root², both given as cyc8 tuples, root = the principal root
    ("U", g)                 g (a Ket / Bra / rotation / scalar / sqrt descriptor) built as an instance of a
                             TRIVIAL USER SUBCLASS of its class (`class MyRz(Rz): pass`): the same gate for
                             every `isinstance` test and for evaluation, a different `type(box)`
`build` makes the discopy object the way a user would, `tok` the driver tokens (exact mode only),
`std_io` the INDEPENDENT textbook matrix of the map in discopy's [input, output] order (transpose of
the usual U[out][in]); nothing in `std_io` calls discopy.
"""
import cmath
import math

import numpy as np

import cyc8
import numtypes

ROT1 = ("Rx", "Ry", "Rz")
ROT2 = ("CU1", "CRz", "CRx")
NAMED1 = ("H", "S", "T", "X", "Y", "Z")
NAMED2 = ("CX", "CZ")

I2 = np.eye(2, dtype=complex)
SQ = math.sqrt(0.5)

# textbook matrices U[out][in] (column-vector convention), written out independently of discopy
STD_U = {
    "H": np.array([[SQ, SQ], [SQ, -SQ]], dtype=complex),
    "S": np.array([[1, 0], [0, 1j]], dtype=complex),
    "T": np.array([[1, 0], [0, cmath.exp(1j * math.pi / 4)]], dtype=complex),
    "X": np.array([[0, 1], [1, 0]], dtype=complex),
    "Y": np.array([[0, -1j], [1j, 0]], dtype=complex),
    "Z": np.array([[1, 0], [0, -1]], dtype=complex),
    "CX": np.array([[1, 0, 0, 0], [0, 1, 0, 0], [0, 0, 0, 1], [0, 0, 1, 0]], dtype=complex),
    "CZ": np.diag([1, 1, 1, -1]).astype(complex),
    "SWAP": np.array([[1, 0, 0, 0], [0, 0, 1, 0], [0, 1, 0, 0], [0, 0, 0, 1]], dtype=complex),
}


def std_rot_u(kind, phase):
    """Standard tket matrix U[out][in] of the rotation; discopy phase φ (full turns) = tket angle 2φ
    (half turns), i.e. the rotation angle is θ = 2πφ."""
    h = math.pi * phase                       # θ/2
    c, s = math.cos(h), math.sin(h)
    if kind == "Rx":
        return np.array([[c, -1j * s], [-1j * s, c]], dtype=complex)
    if kind == "Ry":
        return np.array([[c, -s], [s, c]], dtype=complex)
    if kind == "Rz":
        return np.diag([cmath.exp(-1j * h), cmath.exp(1j * h)]).astype(complex)
    if kind == "CU1":
        return np.diag([1, 1, 1, cmath.exp(2j * h)]).astype(complex)
    if kind == "CRz":
        return controlled_u(std_rot_u("Rz", phase))
    if kind == "CRx":
        return controlled_u(std_rot_u("Rx", phase))
    raise KeyError(kind)


def controlled_u(u):
    """|0><0| (x) 1 + |1><1| (x) u, control = left = most significant qubit."""
    p0, p1 = np.diag([1, 0]).astype(complex), np.diag([0, 1]).astype(complex)
    return np.kron(p0, np.eye(u.shape[0])) + np.kron(p1, u)


def basis(bits):
    v = np.zeros(2 ** len(bits), dtype=complex)
    v[int("".join(str(int(b)) for b in bits) or "0", 2)] = 1
    return v



def _custom_table():
    """User-defined multi-qubit gates, arrays in [input, output] order, all entries in Z[zeta_8]/2^e.
    None of the 2- and 3-qubit ones is symmetric under reversing the order of its qubits, none is a
    symmetric matrix, so wire order and transposition both matter for their daggers."""
    io = {k: v.T.copy() for k, v in STD_U.items()}
    ch = controlled_u(STD_U["H"]).T                       # controlled-H, control on the left
    t = {}
    t["SH"] = io["S"] @ io["H"]                           # one qubit: S then H
    t["TX"] = io["T"] @ io["X"]                           # one qubit: T then X (not symmetric)
    t["HCX"] = np.kron(io["H"], I2) @ io["CX"]            # H on qubit 0, then CX
    t["CH"] = ch
    t["CST"] = np.kron(io["S"], io["T"]) @ io["CX"] @ np.kron(I2, io["H"])
    tof = np.eye(8, dtype=complex)
    tof[[6, 7]] = tof[[7, 6]]                             # Toffoli: controls 0, 1, target 2
    t["TOF"] = tof
    t["U3"] = np.kron(np.kron(io["H"], io["S"]), I2) @ tof @ np.kron(I2, io["CX"])
    # ZERO qubits: a global phase QuantumGate(name, 0, [w]).  It touches no wire, so only its scalar entry
    # and its dagger flag matter: non-real unit entries (i, zeta_8, zeta_8^3, zeta_8^5) and one real one
    # (-1, for which conjugation is invisible)
    z8 = cmath.exp(1j * math.pi / 4)
    t["PI"] = np.array([[1j]], dtype=complex)
    t["PZ"] = np.array([[z8]], dtype=complex)
    t["PW"] = np.array([[z8 ** 3]], dtype=complex)
    t["PV"] = np.array([[z8 ** 5]], dtype=complex)
    t["PM"] = np.array([[-1]], dtype=complex)
    return t


CUSTOM = _custom_table()
CUSTOM_NQ = {k: int(round(math.log2(v.shape[0]))) for k, v in CUSTOM.items()}
CUSTOM0 = tuple(k for k, n in CUSTOM_NQ.items() if n == 0)
CUSTOM1 = tuple(k for k, n in CUSTOM_NQ.items() if n == 1)
CUSTOM2 = tuple(k for k, n in CUSTOM_NQ.items() if n == 2)
CUSTOM3 = tuple(k for k, n in CUSTOM_NQ.items() if n == 3)


def std_io(g):
    """Independent matrix of the descriptor, shape (2^dom, 2^cod), rows = input."""
    k = g[0]
    if k == "N":
        return STD_U[g[1]].T.copy()
    if k == "W":
        return STD_U["SWAP"].T.copy()
    if k == "D":
        return std_io(g[1]).conj().T
    if k == "C":
        return controlled_u(std_io(g[1]).T).T
    if k == "R":
        return std_rot_u(g[1], g[3]).T
    if k == "K":
        return basis(g[1]).reshape(1, -1)
    if k == "B":
        return basis(g[1]).reshape(-1, 1)
    if k == "S":
        return np.array([[g[2]]], dtype=complex)
    if k == "Z":
        return np.array([[cmath.sqrt(complex(g[3]))]], dtype=complex)     # the principal root
    if k == "Q":
        return CUSTOM[g[1]].copy()
    if k == "U":
        return std_io(g[1])
    if k == "P":
        return np.array([[complex(g[1])]], dtype=complex)
    raise KeyError(k)


def arity(g):
    k = g[0]
    if k == "U":
        return arity(g[1])
    if k == "N":
        return (1, 1) if g[1] in NAMED1 else (2, 2)
    if k == "W":
        return (2, 2)
    if k == "D":
        a, b = arity(g[1])
        return (b, a)
    if k == "C":
        a, b = arity(g[1])
        return (a + 1, b + 1)
    if k == "R":
        return (1, 1) if g[1] in ROT1 else (2, 2)
    if k == "K":
        return (0, len(g[1]))
    if k == "B":
        return (len(g[1]), 0)
    if k == "Q":
        return (CUSTOM_NQ[g[1]],) * 2
    return (0, 0)


_SUBCLASSES = {}


def user_subclass(cls):
    """`class My<cls>(cls): pass` — what a user writes to give a gate a name of their own."""
    if cls not in _SUBCLASSES:
        _SUBCLASSES[cls] = type("My" + cls.__name__, (cls,), {"__doc__": "trivial user subclass"})
    return _SUBCLASSES[cls]


def build(g):
    """The discopy object, built through the public API."""
    from discopy.quantum import gates
    k = g[0]
    if k == "U":
        b = g[1]
        if b[0] == "K":
            return user_subclass(gates.Ket)(*b[1])
        if b[0] == "B":
            return user_subclass(gates.Bra)(*b[1])
        if b[0] == "R":
            return user_subclass(getattr(gates, b[1]))(b[3])
        if b[0] == "S":
            return user_subclass(gates.Scalar)(b[2])
        if b[0] == "Z":
            return user_subclass(gates.Sqrt)(b[3])
        raise KeyError(b[0])
    if k == "N":
        return getattr(gates, g[1])
    if k == "W":
        return gates.SWAP
    if k == "D":
        return build(g[1]).dagger()
    if k == "C":
        return gates.Controlled(build(g[1]))
    if k == "R":
        return getattr(gates, g[1])(g[3])
    if k == "K":
        return gates.Ket(*g[1])
    if k == "B":
        return gates.Bra(*g[1])
    if k == "S":
        return gates.scalar(g[2])
    if k == "Z":
        return gates.sqrt(g[3])
    if k == "Q":
        return gates.QuantumGate(g[1], CUSTOM_NQ[g[1]], CUSTOM[g[1]].reshape(-1))
    if k == "P":
        return gates.QuantumGate("phase", 0, [g[1]])
    raise KeyError(k)


def tok(g):
    k = g[0]
    if k == "U":
        return tok(g[1])                  # the model has no classes: the gate the subclass IS
    if k == "N":
        return "N " + g[1]
    if k == "W":
        return "W"
    if k in "DC":
        return k + " " + tok(g[1])
    if k == "R":
        assert g[2] is not None
        return "R %s %d" % (g[1], g[2])
    if k in "KB":
        return "%s %d %s" % (k, len(g[1]), " ".join(str(int(b)) for b in g[1])) if g[1] \
            else "%s 0" % k
    if k == "S":
        assert g[1] is not None
        return "S " + cyc8.scalar_tok(g[1])
    if k == "Z":
        assert g[1] is not None and g[2] is not None
        return "Z %s %s" % (cyc8.scalar_tok(g[1]), cyc8.scalar_tok(g[2]))
    if k == "Q":
        flat = CUSTOM[g[1]].reshape(-1)
        ents = [cyc8.recognise(z) for z in flat]
        assert all(e is not None for e in ents), g
        return "Q %s %d 0 %d %s" % (g[1], CUSTOM_NQ[g[1]], len(ents),
                                    " ".join(cyc8.scalar_tok(e) for e in ents))
    raise KeyError(k)


def show(g):
    k = g[0]
    if k == "U":
        b = g[1]
        cls = {"K": "Ket", "B": "Bra", "S": "Scalar", "Z": "Sqrt"}.get(b[0]) or b[1]
        args = show(b)
        return "My%s(%s  [class My%s(%s): pass]" % (cls, args[args.index("(") + 1:], cls, cls)
    if k == "N":
        return g[1]
    if k == "W":
        return "SWAP"
    if k == "D":
        return show(g[1]) + ".dagger()"
    if k == "C":
        return "Controlled(%s)" % show(g[1])
    if k == "R":
        return "%s(%s)" % (g[1], numtypes.show(g[3]))      # plain repr for builtin numbers
    if k == "K":
        return "Ket(%s)" % ", ".join(str(int(b)) for b in g[1])
    if k == "B":
        return "Bra(%s)" % ", ".join(str(int(b)) for b in g[1])
    if k == "Q":
        return "QuantumGate(%r, %d, CUSTOM[%r])" % (g[1], CUSTOM_NQ[g[1]], g[1])
    if k == "P":
        return "QuantumGate('phase', 0, [%s])" % numtypes.show(g[1])
    if k == "Z":
        return "sqrt(%s)" % numtypes.show(g[3])
    return "scalar(%s)" % numtypes.show(g[2])


def show_number(x):
    """repr with the Python type made visible (int / float / complex / numpy scalar behave differently
    under `** .5` and `.conjugate()`)."""
    return numtypes.show(x)


def kinds(g):
    """Names of the gate classes occurring in a descriptor (for coverage and signatures)."""
    k = g[0]
    if k == "N":
        return [g[1]]
    if k == "W":
        return ["SWAP"]
    if k == "D":
        return ["dagger"] + kinds(g[1])
    if k == "C":
        return ["Controlled"] + kinds(g[1])
    if k == "R":
        return [g[1]]
    if k == "Q":
        return ["QuantumGate%d" % CUSTOM_NQ[g[1]]]
    if k == "U":
        return ["user-subclass"] + kinds(g[1])
    if k == "P":
        return ["QuantumGate0"]
    return [{"K": "Ket", "B": "Bra", "S": "scalar", "Z": "sqrt"}[k]]


EXACT_SCALARS = [(1, 0, 0, 0, 0), (-1, 0, 0, 0, 0), (0, 0, 1, 0, 0), (0, 1, 0, 0, 0),
                 (0, 1, 0, -1, 1), (2, 0, 0, 0, 0), (1, 0, 1, 0, 1), (0, 0, 0, 1, 0),
                 (1, 0, 0, 0, 1), (3, 0, -2, 0, 0), (0, 1, 0, -1, 0)]


# more exact scalar data for the single-box stream (zero, negative and non-real dyadics)
EXACT_SCALARS_EXTRA = [(0, 0, 0, 0, 0), (-3, 0, 0, 0, 0), (-1, 0, 0, 0, 1), (0, 0, -1, 0, 0), (-2, 0, -3, 0, 0),
                       (1, 0, -1, 0, 2), (0, -1, 0, 1, 0), (0, -1, 0, 0, 0), (-4, 0, 0, 0, 0), (0, 0, 2, 0, 0)]

# Roots w ∈ ℤ[ζ₈]/2^e for exact square-root scalars: the box is sqrt(w²), w² computed exactly, and the value
# the model is given is the PRINCIPAL root ±w.  Covers data that are positive, NEGATIVE real (w on the
# imaginary axis), purely imaginary, general Gaussian, irrational (ζ, √2) and zero.
EXACT_ROOTS = [
    (0, 1, 0, -1, 0),     # √2        -> sqrt(2)           (the one the library itself uses: cups, caps)
    (0, 1, 0, -1, 1),     # 1/√2      -> sqrt(0.5)
    (1, 0, 0, 0, 0),      # 1         -> sqrt(1)
    (3, 0, 0, 0, 0),      # 3         -> sqrt(9)
    (3, 0, 0, 0, 1),      # 3/2       -> sqrt(2.25)
    (0, 0, 0, 0, 0),      # 0         -> sqrt(0)
    (0, 0, 1, 0, 0),      # i         -> sqrt(-1)          negative real data
    (0, 0, 2, 0, 0),      # 2i        -> sqrt(-4)
    (0, 0, 1, 0, 1),      # i/2       -> sqrt(-0.25)
    (0, 1, 0, 1, 0),      # i√2       -> sqrt(-2)
    (1, 0, 1, 0, 0),      # 1+i       -> sqrt(2i)          purely imaginary data
    (1, 0, -1, 0, 0),     # 1-i       -> sqrt(-2i)
    (0, 1, 0, 0, 0),      # ζ         -> sqrt(i)
    (0, 0, 0, -1, 0),     # -ζ³=conj ζ -> sqrt(-i)
    (1, 0, 2, 0, 0),      # 1+2i      -> sqrt(-3+4i)       general Gaussian data, every quadrant
    (2, 0, -1, 0, 0),     # 2-i       -> sqrt(3-4i)
    (1, 0, -2, 0, 0),     # 1-2i      -> sqrt(-3-4i)
    (2, 0, 1, 0, 0),      # 2+i       -> sqrt(3+4i)
    (3, 0, 2, 0, 1),      # (3+2i)/2  -> sqrt((5+12i)/4)
    (1, 0, -3, 0, 2),     # (1-3i)/4  -> sqrt((-8-6i)/16)
    (1, 1, 0, 0, 0),      # 1+ζ       -> irrational non-real data
    (1, 1, 0, -1, 0),     # 1+√2      -> sqrt(3+2√2)       irrational positive
    (0, 1, 2, 1, 0),      # i(2+√2)   -> irrational negative real data
]


def principal(w):
    """±w with the sign of the principal square root: Re > 0, or Re = 0 and Im >= 0."""
    z = cyc8.to_complex(w)
    if z.real < -1e-12 or (abs(z.real) <= 1e-12 and z.imag < 0):
        return cyc8.neg(w)
    return w


def number_of(t, as_type="auto"):
    """The Python number a user would type for the exact value `t`: int / float for a real value (so that
    `data.conjugate() == data` holds exactly as it does for typed-in reals), complex otherwise.
    `as_type`: "auto" | "complex" | "np.complex128" | "np.float64" (real, non-negative values only)."""
    a, b, c, d, e = t
    s = 2.0 ** e
    if b == 0 and d == 0:                       # Gaussian dyadic: exactly representable
        val = complex(a / s, c / s) if c else (a if e == 0 else a / s)
    elif cyc8.is_real(t):                       # a + b√2
        val = (a + b * math.sqrt(2.0)) / s
    else:
        val = complex(cyc8.to_complex(t))
    if as_type == "complex":
        return complex(val)
    if as_type == "float":
        return float(val)
    if as_type == "np.complex128":
        return np.complex128(val)
    if as_type == "np.float64":
        return np.float64(val)
    return val


def sqrt_exact(w, as_type="auto"):
    """Descriptor of sqrt(w²) with the exact data and its principal root."""
    zt = cyc8.mul(w, w)
    return ("Z", zt, principal(w), number_of(zt, as_type))


def is_negative_real(x):
    """Data on which finding F4k shows: conjugation-invariant (so the box is taken for self-adjoint) with
    a non-real square root."""
    try:
        return bool(x.conjugate() == x) and complex(x).real < 0
    except Exception:
        return False


def has_f4k(g):
    k = g[0]
    if k in "DC":
        return has_f4k(g[1])
    return k == "Z" and is_negative_real(g[3])


class QGen:
    """Random pure circuits: 0-4 wires, depth <= 8, gates at random offsets, kets/bras with
    random bitstrings.  `exact=True`: phases n/8 (even n for all kinds but CU1) and scalars in
    ℤ[ζ₈]/2^e, so that the model evaluates the same circuit exactly."""

    def __init__(self, rng, exact, gateset=None, max_wires=4, roots=False, phases0=False):
        self.rng, self.exact, self.max_wires = rng, exact, max_wires
        self.gateset = gateset
        self.roots = roots      # also square-root scalars sqrt(z) among the scalar boxes (C11)
        self.phases0 = phases0  # also user-defined 0-qubit QuantumGates (global phases), half of them daggered

    def phase(self, kind):
        if self.exact:
            n = self.rng.randint(-16, 16)
            if kind != "CU1" and n % 2:
                n += 1
            return n, n / 8.0
        return None, round(self.rng.uniform(-2, 2), 6) if self.rng.random() < 0.9 \
            else self.rng.choice([0.0, 0.5, 1.0, -0.25, 0.125])

    def rot(self, kind):
        n, ph = self.phase(kind)
        return ("R", kind, n, ph)

    def sqrt_box(self):
        """sqrt(z): exact mode z = w² for a root of the table (any Python type of the data); float mode a
        random complex z (every quadrant), a negative or positive real, or a point next to the branch cut."""
        rng = self.rng
        if self.exact:
            w = rng.choice(EXACT_ROOTS)
            zt = cyc8.mul(w, w)
            types = ["auto", "auto", "complex", "np.complex128"]
            if cyc8.is_real(zt) and cyc8.to_complex(zt).real >= 0:
                types += ["float", "np.float64"]
            return sqrt_exact(w, rng.choice(types))
        r = rng.random()
        if r < 0.6:
            z = complex(round(rng.uniform(-3, 3), 3), round(rng.uniform(-3, 3), 3))
        elif r < 0.7:
            z = -round(rng.uniform(0.01, 4), 3)                      # negative real (F4k)
        elif r < 0.8:
            z = round(rng.uniform(0.01, 4), 3)
        elif r < 0.9:
            z = complex(-round(rng.uniform(0.01, 4), 3), rng.choice((1e-3, -1e-3, 1e-6, -1e-6)))
        else:
            z = complex(0.0, round(rng.uniform(-3, 3), 3))
        if isinstance(z, complex) and z.imag == 0:
            z = complex(z.real, 0.5)
        return ("Z", None, None, z)

    def scalar(self):
        if self.roots and self.rng.random() < 0.5:
            return self.sqrt_box()
        if self.exact:
            t = self.rng.choice(EXACT_SCALARS)
            return ("S", t, cyc8.to_complex(t))
        z = complex(round(self.rng.uniform(-2, 2), 3), round(self.rng.uniform(-2, 2), 3))
        return ("S", None, z if abs(z) > 1e-3 else 1j)

    def gate0(self):
        """A user-defined QuantumGate on ZERO qubits, with or without the dagger flag (once or twice)."""
        if self.exact or self.rng.random() < 0.4:
            g = ("Q", self.rng.choice(CUSTOM0))
        else:
            g = ("P", cmath.exp(1j * round(self.rng.uniform(-3.1, 3.1), 3)))     # a unitary on 0 qubits
        r = self.rng.random()
        return ("D", g) if r < 0.5 else ("D", ("D", g)) if r < 0.6 else g

    def gate1(self):
        r = self.rng.random()
        if r < 0.4:
            g = ("N", self.rng.choice(NAMED1))
        elif r < 0.5:
            g = ("Q", self.rng.choice(CUSTOM1))
        else:
            g = self.rot(self.rng.choice(ROT1))
        if self.rng.random() < 0.3:
            g = ("D", g)
        return g

    def gate2(self):
        r = self.rng.random()
        if r < 0.3:
            g = ("N", self.rng.choice(NAMED2))
        elif r < 0.55:
            g = self.rot(self.rng.choice(ROT2))
        elif r < 0.62:
            g = ("W",)
        elif r < 0.8:
            g = ("Q", self.rng.choice(CUSTOM2))
        else:
            inner = self.gate1()
            g = ("C", inner)
        if self.rng.random() < 0.3:
            g = ("D", g)
        return g

    def bits(self, k):
        return tuple(self.rng.randint(0, 1) for _ in range(k))

    def pick(self, w):
        """One gate that fits on `w` wires (uniform over the gate classes that fit)."""
        if self.gateset is not None:
            return self.gateset(self, w)
        opts = ["scalar"]
        if w >= 1:
            opts += ["g1", "g1", "g1", "bra"]
        if w >= 2:
            opts += ["g2", "g2", "g2"]
        if w >= 3:
            opts += ["g3"]
        if w < self.max_wires:
            opts += ["ket"] * (3 if w == 0 else 1)
        if self.phases0:
            opts += ["g0"] * 2
        o = self.rng.choice(opts)
        if o == "g0":
            return self.gate0()
        if o == "g1":
            return self.gate1()
        if o == "g2":
            return self.gate2()
        if o == "g3":
            g = ("Q", self.rng.choice(CUSTOM3))
            return ("D", g) if self.rng.random() < 0.5 else g
        if o == "ket":
            return ("K", self.bits(self.rng.randint(1, min(2, self.max_wires - w))))
        if o == "bra":
            return ("B", self.bits(self.rng.randint(1, min(2, w))))
        return self.scalar()

    def twin(self, g):
        """A gate that discopy's `Box.__eq__` confuses (or nearly confuses) with `g` although it denotes
        a different matrix: the dagger (same name, only the flag / the target's flag / the sign of the
        phase differs), or the same (controlled) rotation at a phase that prints the same 3 digits."""
        if not self.exact and self.rng.random() < 0.5:
            base = g[1] if g[0] == "C" else g
            if base[0] == "R":
                near = ("R", base[1], None, base[3] + self.rng.choice((1, -1, 2)) * 1e-4 * max(1.0, abs(base[3])))
                return ("C", near) if g[0] == "C" else near
        return ("D", g)

    def circuit(self, n_in=None, depth=None, twins=0.0, unitary=False):
        """Returns (n_in, layers) with layers = [(left, descriptor, right)].
        `twins`: probability that a layer is followed DIRECTLY (same wires) by a twin of its gate.
        `unitary`: gates only (no ket / bra / scalar), at least one wire."""
        w = self.rng.randint(1 if unitary else 0, self.max_wires) if n_in is None else n_in
        n_in = w
        depth = self.rng.randint(1, 8) if depth is None else depth
        layers = []
        while len(layers) < depth:
            g = self.pick(w)
            while unitary and g[0] in "KBSZ":
                g = self.pick(w)            # (0-qubit QuantumGates are unitaries: they stay)
            d, c = arity(g)
            off = self.rng.randint(0, w - d)
            layers.append((off, g, w - off - d))
            w = w - d + c
            if d == c and d > 0 and self.rng.random() < twins:
                layers.append((off, self.twin(g), w - off - d))
        return n_in, layers


def build_circuit(n_in, layers):
    from discopy.quantum import Id
    c = Id(n_in)
    for l, g, r in layers:
        c = c >> Id(l) @ build(g) @ Id(r)
    return c


def tok_circuit(layers):
    return "%d %s" % (len(layers), " ".join("%d %s %d" % (l, tok(g), r) for l, g, r in layers)) \
        if layers else "0"


def show_circuit(n_in, layers):
    return "Id(%d)" % n_in + "".join(
        " >> Id(%d) @ %s @ Id(%d)" % (l, show(g), r) for l, g, r in layers)


def product_io(n_in, layers, mat):
    """Ordered product of 1 (x) gate (x) 1 in [input, output] order; `mat(g)` gives each gate."""
    m = np.eye(2 ** n_in, dtype=complex)
    for l, g, r in layers:
        m = m @ np.kron(np.kron(np.eye(2 ** l), mat(g)), np.eye(2 ** r))
    return m


def eval_io(circuit):
    """discopy's pure evaluation as a (2^dom, 2^cod) numpy matrix."""
    t = circuit.eval(mixed=False)
    return np.asarray(t.array, dtype=complex).reshape(2 ** len(circuit.dom), 2 ** len(circuit.cod))


def close(a, b, tol=1e-9):
    return a.shape == b.shape and bool(np.all(np.abs(a - b) <= tol))


# --------------------------------------------------------------------------- known-defect shapes
# Used ONLY to give failures a narrow signature: a failure is attributed to a listed finding only if
# the real result equals what that finding predicts; anything else is reported as a new failure.

SELF_ADJOINT = ("H", "X", "Z", "CZ")


def _conj_tuple(t):
    return None if t is None else cyc8.conj(t)


def _dag(y, f4k=True):
    k = y[0]
    if k == "N":
        if y[1] in SELF_ADJOINT or y[1] == "CX":
            return y
        return ("D", y)
    if k == "D":
        return y[1]
    if k == "C":
        return ("C", _dag(y[1], f4k))
    if k == "R":
        return ("R", y[1], None if y[2] is None else -y[2], -y[3])
    if k == "K":
        return ("B", y[1])
    if k == "B":
        return ("K", y[1])
    if k == "W":
        return y
    if k in "QP":
        return ("D", y)
    if k == "Z":
        # gates.py:556-558: `self` if the DATA is conjugation-invariant, else Scalar(conj(data ** .5)).
        # `f4k=True`: as the code is (a negative real is its own dagger, finding F4k); False: the adjoint.
        root = cmath.sqrt(complex(y[3]))
        if root.conjugate() == root or (f4k and is_negative_real(y[3])):
            return y
        return ("S", _conj_tuple(y[2]), root.conjugate())
    t = y[1]
    return ("S", None if t is None else (t[0], -t[3], -t[2], -t[1], t[4]), y[2].conjugate())


def norm(g, f4k=True):
    """Push `.dagger()` through discopy's dagger mechanisms (gates.py:43, 225, 253, 286, 361, 556):
    afterwards a "D" only wraps a flagged table gate S, T or Y or a user-defined QuantumGate."""
    k = g[0]
    if k == "D":
        return _dag(norm(g[1], f4k), f4k)
    if k == "C":
        return ("C", norm(g[1], f4k))
    return g


def masked_io(g, f17=False, f2=False, f4k=False):
    """The matrix the descriptor has if finding F17 (Y, Ry stored transposed) and/or F2
    (Controlled reads the target's array and ignores its dagger flag) and/or F4k (sqrt of a negative real
    is its own dagger) are in effect."""
    return _masked(norm(g, f4k), f17, f2)


def _masked(g, f17, f2):
    k = g[0]
    if f17 and ((k == "N" and g[1] == "Y") or (k == "R" and g[1] == "Ry")):
        return std_io(g).T
    if k == "D":
        return _masked(g[1], f17, f2).conj().T
    if k == "C":
        inner = g[1]
        if f2 and inner[0] == "D":
            inner = inner[1]
        return controlled_u(_masked(inner, f17, f2).T).T
    return std_io(g)


def has_f17(g):
    ks = kinds(g)
    return "Y" in ks or "Ry" in ks


def has_f2_target(g):
    """Contains Controlled(<S or T, possibly daggered>): the inputs on which F2 can show."""
    k = g[0]
    if k == "C":
        inner = g[1]
        while inner[0] == "D":
            inner = inner[1]
        return inner[0] == "N" and inner[1] in ("S", "T")
    if k == "D":
        return has_f2_target(g[1])
    return False
