"""Expression language over the free categories (monoidal, rigid): specs, real-code
evaluation, token form for the Lean driver, seeded generators."""
import random

from common import tokname

NAMES = ["a", "b", "c", "d"]


# ------------------------------------------------------------------ families

class Family:
    def __init__(self, name):
        self.name = name
        if name == "monoidal":
            from discopy import monoidal as m
            self.m = m
            self.rigid = False
        elif name in ("rigid", "pro", "mixed"):
            # "mixed": rigid diagrams in which every generic box whose wires all have winding
            # number 0 is a plain monoidal.Box on monoidal.Ty (cat.Ob objects) — supported by
            # rigid.Ob.__eq__/rigid.Ty.__init__; same (name, z) reading as the rigid family.
            from discopy import rigid as m
            self.m = m
            self.rigid = True
        else:
            raise ValueError(name)

    def ob(self, o):
        name, z = o
        if self.rigid:
            return self.m.Ob(name, z)
        assert z == 0
        from discopy.cat import Ob
        return Ob(name)

    def ty(self, spec):
        if self.name == "pro":          # self-adjoint types PRO(n): objects named 1, z = 0
            assert all(o == (1, 0) for o in spec)
            return self.m.PRO(len(spec))
        return self.m.Ty(*[self.ob(o) for o in spec])

    watch = None     # optional callable(what, value) -> value, sees every sub-result of `run`
    problems = None  # optional list: (signature, text) for every accepted ill-typed composition

    def nary(self, op, form, recv, args):
        """`recv.then(*args)` / `recv.tensor(*args)` in one of the calling forms of the library:
        bound method, the function of the receiver's class, the function of the family's Diagram
        class, or (one argument only) the operators `>>`, `<<`, `@`."""
        m = self.m
        if form == "method":
            return getattr(recv, op)(*args)
        if form == "class":
            return getattr(type(recv), op)(recv, *args)
        if form == "base":
            return getattr(m.Diagram, op)(recv, *args)
        if form == "op":
            return recv >> args[0] if op == "then" else recv @ args[0]
        if form == "rop":           # a << b is b.then(a)
            return args[0] << recv
        raise ValueError(form)

    def check_then(self, recv, args, out, what):
        """The property on one composition: an ill-typed request is refused."""
        if self.problems is None:
            return
        from common import ty_key
        scan, prev = ty_key(recv.cod), recv
        for k, x in enumerate(args):
            if ty_key(x.dom) != scan and prev.cod != x.dom:
                self.problems.append((
                    "illtyped_request_accepted:" + what,
                    "%r.then(%s) was accepted although argument %d starts on %r and what comes "
                    "before it ends on %r; it handed back %r : %r -> %r" % (
                        recv, ", ".join(map(repr, args)), k, x.dom, prev.cod, out, out.dom,
                        out.cod)))
                return
            scan, prev = ty_key(x.cod), x
        if ty_key(out.dom) != ty_key(recv.dom) or ty_key(out.cod) != scan:
            self.problems.append((
                "composite_with_other_ends:" + what,
                "%r.then(%s) handed back %r : %r -> %r" % (
                    recv, ", ".join(map(repr, args)), out, out.dom, out.cod)))

    # Object identity.  By default every box spec is turned into a FRESH Box object, so no object
    # ever occurs twice in a diagram.  With `intern` set to a dict the same spec is handed out as the
    # very SAME Python object again (with probability `intern_p`, drawn from `intern_rng`; otherwise
    # an equal-but-distinct copy is built), so that diagrams like `f >> f` with one object `f` — what
    # a user who names a box and uses it twice writes — are generated.
    intern = None
    intern_p = 1.0
    intern_rng = None

    def shared(self, rng, p=1.0):
        """A family like this one that interns its boxes (fresh table)."""
        fam = Family(self.name)
        fam.intern, fam.intern_p, fam.intern_rng = {}, p, rng
        fam.watch, fam.problems = self.watch, self.problems
        return fam

    def box(self, b):
        if self.intern is None:
            return self._box(b)
        key = repr(sorted(b.items(), key=lambda kv: kv[0]))
        old = self.intern.get(key)
        if old is not None and (self.intern_p >= 1.0 or self.intern_rng.random() < self.intern_p):
            return old
        new = self._box(b)
        self.intern.setdefault(key, new)
        return new

    def _box(self, b):
        m = self.m
        if b["kind"] == "g":
            kw = {}
            if b["data"] is not None:
                kw["data"] = b["data"]
            if b["dagger"]:
                kw["_dagger"] = True
            if self.name == "mixed" and all(z == 0 for _, z in b["dom"] + b["cod"]):
                from discopy import monoidal
                from discopy.cat import Ob
                return monoidal.Box(b["name"], monoidal.Ty(*[Ob(n) for n, _ in b["dom"]]),
                                    monoidal.Ty(*[Ob(n) for n, _ in b["cod"]]), **kw)
            return m.Box(b["name"], self.ty(b["dom"]), self.ty(b["cod"]), **kw)
        if b["kind"] == "s":
            return m.Swap(self.ty(b["dom"][:1]), self.ty(b["dom"][1:]))
        if b["kind"] == "u":
            return m.Cup(self.ty(b["dom"][:1]), self.ty(b["dom"][1:]))
        if b["kind"] == "a":
            return m.Cap(self.ty(b["cod"][:1]), self.ty(b["cod"][1:]))
        raise ValueError(b)

    def run(self, e):
        """Evaluate an expression on the real code."""
        out = self._run(e)
        if self.watch is not None:
            self.watch(e[0], out)
        return out

    def _run(self, e):
        m = self.m
        op = e[0]
        if op == "mk":
            _, dom, cod, boxes, offsets = e
            if self.name == "mixed" and all(
                    b["kind"] == "g" for b in boxes) and all(
                    z == 0 for _, z in sum([b["dom"] + b["cod"] for b in boxes], dom + cod)):
                from discopy import monoidal       # an entirely plain sub-diagram
                from discopy.cat import Ob
                return monoidal.Diagram(monoidal.Ty(*[Ob(n) for n, _ in dom]),
                                        monoidal.Ty(*[Ob(n) for n, _ in cod]),
                                        [self.box(b) for b in boxes], list(offsets))
            return m.Diagram(self.ty(dom), self.ty(cod),
                             [self.box(b) for b in boxes], list(offsets))
        if op == "box":
            return self.box(e[1])
        if op == "id":
            return m.Id(self.ty(e[1]))
        if op == "then":
            a, b = self.run(e[1]), self.run(e[2])
            out = a >> b
            self.check_then(a, [b], out, "then")
            return out
        if op == "tensor":
            return self.run(e[1]) @ self.run(e[2])
        if op in ("thenN", "tensorN"):
            _, form, recv_e, args_e = e
            recv = self.run(recv_e)
            args = [self.run(a) for a in args_e]
            out = self.nary("then" if op == "thenN" else "tensor", form, recv, args)
            if op == "thenN":
                self.check_then(recv, args, out, "thenN")
            return out
        if op == "dagger":
            return self.run(e[1])[::-1]
        if op == "slice":
            return self.run(e[1])[e[2]:e[3]]
        if op == "slicerev":
            return self.run(e[1])[e[2]:e[3]:-1]
        if op == "getitem":
            return self.run(e[1])[e[2]]
        if op == "interchange":
            return self.run(e[1]).interchange(e[2], e[3], left=e[4])
        if op == "normal_form":
            from discopy import monoidal
            return monoidal.Diagram.normal_form(
                self.run(e[1]), normalizer=monoidal.Diagram.normalize, left=e[2])
        if op == "swap":
            return m.Diagram.swap(self.ty(e[1]), self.ty(e[2]))
        if op == "perm":
            return m.Diagram.permutation(list(e[1]), self.ty(e[2]))
        if op == "cups":
            return m.Diagram.cups(self.ty(e[1]), self.ty(e[2]))
        if op == "caps":
            return m.Diagram.caps(self.ty(e[1]), self.ty(e[2]))
        if op == "transpose":
            d = self.run(e[1])
            if self.name == "mixed" and not isinstance(d, m.Diagram):
                d = m.Id(m.Ty()) @ d        # a bare plain box/diagram: make it a rigid diagram
            return d.transpose(left=e[2])
        raise ValueError(op)


# ------------------------------------------------------------------ tokens

def tok_ty(spec):
    return " ".join([str(len(spec))] + ["%s %d" % (tokname(n), z) for n, z in spec])


def tok_box(b):
    name = tokname(b["name"]) if b["kind"] == "g" else "-"
    data = "-" if b["data"] is None else tokname(b["data"])
    return "%s %s %d %s %s %s" % (b["kind"], name, 1 if b["dagger"] else 0, data,
                                  tok_ty(b["dom"]), tok_ty(b["cod"]))


def tok_opt(i):
    return "N" if i is None else str(i)


def tok_expr(e):
    op = e[0]
    if op == "mk":
        _, dom, cod, boxes, offsets = e
        return "mk %s %s %s %s" % (
            tok_ty(dom), tok_ty(cod),
            " ".join([str(len(boxes))] + [tok_box(b) for b in boxes]),
            " ".join([str(len(offsets))] + [str(o) for o in offsets]))
    if op == "box":
        return "box " + tok_box(e[1])
    if op == "id":
        return "id " + tok_ty(e[1])
    if op in ("then", "tensor"):
        return "%s %s %s" % (op, tok_expr(e[1]), tok_expr(e[2]))
    if op in ("thenN", "tensorN"):      # the calling form is not the model's business
        return "%s %s %s" % (op, tok_expr(e[2]), " ".join(
            [str(len(e[3]))] + [tok_expr(a) for a in e[3]]))
    if op == "dagger":
        return "dagger " + tok_expr(e[1])
    if op == "slice":
        return "slice %s %s %s" % (tok_expr(e[1]), tok_opt(e[2]), tok_opt(e[3]))
    if op == "slicerev":
        return "slicerev %s %s %s" % (tok_expr(e[1]), tok_opt(e[2]), tok_opt(e[3]))
    if op == "getitem":
        return "getitem %s %d" % (tok_expr(e[1]), e[2])
    if op == "interchange":
        return "interchange %s %d %d %d" % (tok_expr(e[1]), e[2], e[3], 1 if e[4] else 0)
    if op == "normal_form":
        return "normal_form %s %d" % (tok_expr(e[1]), 1 if e[2] else 0)
    if op in ("swap", "cups", "caps"):
        return "%s %s %s" % (op, tok_ty(e[1]), tok_ty(e[2]))
    if op == "transpose":
        return "transpose %s %d" % (tok_expr(e[1]), 1 if e[2] else 0)
    if op == "perm":
        return "perm %s %s" % (" ".join([str(len(e[1]))] + [str(x) for x in e[1]]), tok_ty(e[2]))
    raise ValueError(op)


# ------------------------------------------------------------------ generators

def adj(o, k):
    return (o[0], o[1] + k)


def ty_l(t):
    return [adj(o, -1) for o in reversed(t)]


def ty_r(t):
    return [adj(o, 1) for o in reversed(t)]


class Gen:
    """All randomness from one `random.Random`; `rigid` enables winding numbers, cups, caps."""

    def __init__(self, rng, rigid=False, maxw=6, names=NAMES):
        self.rng, self.rigid, self.maxw, self.names = rng, rigid, maxw, names
        self.counter = 0

    def ob(self):
        z = 0
        if self.rigid and self.rng.random() < 0.35:
            z = self.rng.choice([-2, -1, -1, 1, 1, 2])
        return (self.rng.choice(self.names), z)

    def ty(self, lo=0, hi=3):
        return [self.ob() for _ in range(self.rng.randint(lo, hi))]

    def gbox(self, dom, cod=None):
        r = self.rng
        if cod is None:
            cod = self.ty(0, 3 if r.random() < 0.85 else 0)
        name = "f%d" % r.randint(0, 5)
        data = None
        if r.random() < 0.2:
            data = r.choice([0, 1, [1, 2], {"k": 3}, 2.5])
        return dict(kind="g", name=name, dom=list(dom), cod=list(cod),
                    dagger=r.random() < 0.25, data=data)

    def grow(self, dom, depth):
        """Grow a well-typed diagram layer by layer from `dom`.
        Returns (mk-expression, scans) where scans[k] is the type after k layers."""
        r = self.rng
        scan = list(dom)
        boxes, offsets, scans = [], [], [list(scan)]
        for _ in range(depth):
            n = len(scan)
            choices = ["gen"] * 6
            if n >= 2:
                choices += ["swap"] * 2
            if self.rigid:
                choices += ["cap"] * 2
                if any(self._adjoint(scan[i], scan[i + 1]) for i in range(n - 1)):
                    choices += ["cup"] * 4
            kind = r.choice(choices)
            if kind == "gen":
                off = r.randint(0, n)
                k = r.randint(0, min(3, n - off))
                if r.random() < 0.15:
                    k = 0
                box = self.gbox(scan[off:off + k])
                if len(scan) - k + len(box["cod"]) > self.maxw:
                    box["cod"] = box["cod"][:max(0, self.maxw - len(scan) + k)]
            elif kind == "swap":
                off = r.randint(0, n - 2)
                l, rr = scan[off], scan[off + 1]
                box = dict(kind="s", name=None, dom=[l, rr], cod=[rr, l], dagger=False, data=None)
            elif kind == "cup":
                offs = [i for i in range(n - 1) if self._adjoint(scan[i], scan[i + 1])]
                off = r.choice(offs)
                box = dict(kind="u", name=None, dom=[scan[off], scan[off + 1]], cod=[],
                           dagger=False, data=None)
            else:  # cap
                if n + 2 > self.maxw + 2:
                    continue
                off = r.randint(0, n)
                x = self.ob()
                pair = [x, adj(x, 1)] if r.random() < 0.5 else [adj(x, 1), x]
                box = dict(kind="a", name=None, dom=[], cod=pair, dagger=False, data=None)
            k = len(box["dom"])
            boxes.append(box)
            offsets.append(off)
            scan = scan[:off] + list(box["cod"]) + scan[off + k:]
            scans.append(list(scan))
        return ("mk", list(dom), list(scan), boxes, offsets), scans

    @staticmethod
    def _adjoint(x, y):
        return x[0] == y[0] and abs(x[1] - y[1]) == 1

    def diagram(self, dom=None, depth=None):
        r = self.rng
        if dom is None:
            dom = self.ty(0, 4)
        if depth is None:
            depth = r.choice([0, 1, 1, 2, 2, 3, 3, 4, 5, 6])
        return self.grow(dom, depth)


def expr_size(e):
    if e[0] == "mk":
        return len(e[3])
    if e[0] in ("box",):
        return 1
    if e[0] in ("thenN", "tensorN"):
        return expr_size(e[2]) + sum(expr_size(x) for x in e[3])
    return sum(expr_size(x) for x in e[1:] if isinstance(x, tuple))


def expr_ops(e, acc=None):
    acc = [] if acc is None else acc
    acc.append(e[0])
    if e[0] in ("thenN", "tensorN"):
        expr_ops(e[2], acc)
        for x in e[3]:
            expr_ops(x, acc)
        return acc
    for x in e[1:]:
        if isinstance(x, tuple):
            expr_ops(x, acc)
    return acc


# ------------------------------------------------------------------ real value -> spec

def spec_ty(t):
    return [(x.name, getattr(x, "z", 0)) for x in t.objects]


def spec_box(b):
    from common import box_kind
    k = box_kind(b)
    if k == "g":
        return dict(kind="g", name=b.name, dom=spec_ty(b.dom), cod=spec_ty(b.cod),
                    dagger=bool(b.is_dagger), data=b.data)
    return dict(kind=k, name=None, dom=spec_ty(b.dom), cod=spec_ty(b.cod), dagger=False, data=None)


def spec_diagram(d):
    """`mk` expression rebuilding a real diagram through the scanning constructor."""
    return ("mk", spec_ty(d.dom), spec_ty(d.cod), [spec_box(b) for b in d.boxes],
            [int(o) for o in d.offsets])


# ------------------------------------------------------------------ small-scope enumeration

def enumerate_diagrams(signature, doms, max_depth, max_width):
    """ALL well-typed diagrams (as `mk` expressions) with domain in `doms`, at most `max_depth`
    boxes drawn from `signature` (box specs), every intermediate type at most `max_width` wide.
    Exhaustive for that finite space; used by the thorough tiers."""
    out = []

    def rec(dom, scan, boxes, offsets):
        out.append(("mk", list(dom), list(scan), list(boxes), list(offsets)))
        if len(boxes) == max_depth:
            return
        for b in signature:
            k = len(b["dom"])
            for off in range(0, len(scan) - k + 1):
                if scan[off:off + k] != b["dom"]:
                    continue
                new = scan[:off] + b["cod"] + scan[off + k:]
                if len(new) > max_width:
                    continue
                rec(dom, new, boxes + [b], offsets + [off])
    for dom in doms:
        rec(dom, list(dom), [], [])
    return out


def small_signature():
    a, b = ("a", 0), ("b", 0)

    def bx(name, dom, cod, dagger=False):
        return dict(kind="g", name=name, dom=dom, cod=cod, dagger=dagger, data=None)
    return [bx("s", [], []), bx("u", [], [a]), bx("e", [a], []), bx("f", [a], [b]),
            bx("g", [b], [a, a]), bx("h", [a, b], [b]), bx("k", [a], [a], dagger=True),
            dict(kind="s", name=None, dom=[a, b], cod=[b, a], dagger=False, data=None)]
