"""Formal sums over the free categories: spec language, real-code evaluation, token form for
the Lean driver (`seval`, `srepr`, `seqv` in Driver/ReprCmd.lean), serialiser, generators.

Spec (nested tuples, diagram sub-expressions are the `core` expressions):
    ("smk", [expr, ...], dom|None, cod|None)   Sum(terms, dom, cod)
    ("ssingle", expr)                          a diagram met by a sum operation (Python wraps it)
    ("sadd", s, t)  ("sthen", s, t)  ("stensor", s, t)  ("sdagger", s)
"""
from common import ser_ty, ser_list, ser_diagram, err_class
from core import tok_expr, tok_ty


def sum_class(fam):
    return fam.m.Diagram.sum


def run_sum(fam, e):
    """Evaluate on the real code.  `ssingle` yields the bare diagram: the binary operators of
    the library wrap it (`self.sum([self])`), which is the code path the model's `single` is."""
    op = e[0]
    if op == "smk":
        _, terms, dom, cod = e
        ts = [fam.run(t) for t in terms]
        return sum_class(fam)(ts, None if dom is None else fam.ty(dom),
                              None if cod is None else fam.ty(cod))
    if op == "ssingle":
        return fam.run(e[1])
    if op == "sadd":
        return run_sum(fam, e[1]) + run_sum(fam, e[2])
    if op == "sthen":
        return run_sum(fam, e[1]) >> run_sum(fam, e[2])
    if op == "stensor":
        return run_sum(fam, e[1]) @ run_sum(fam, e[2])
    if op == "sdagger":
        return run_sum(fam, e[1]).dagger()
    raise ValueError(op)


def is_sum_spec(e):
    """Does the expression evaluate to a Sum on the real code (not to a bare diagram)?"""
    op = e[0]
    if op == "ssingle":
        return False
    if op == "smk":
        return True
    if op == "sdagger":
        return is_sum_spec(e[1])
    return is_sum_spec(e[1]) or is_sum_spec(e[2])


def tok_optty(t):
    return "N" if t is None else "T " + tok_ty(t)


def tok_sexpr(e, tok=tok_expr):
    op = e[0]
    if op == "smk":
        _, terms, dom, cod = e
        return "smk %s %s %s" % (" ".join([str(len(terms))] + [tok(t) for t in terms]),
                                 tok_optty(dom), tok_optty(cod))
    if op == "ssingle":
        return "ssingle " + tok(e[1])
    if op == "sdagger":
        return "sdagger " + tok_sexpr(e[1], tok)
    return "%s %s %s" % (op, tok_sexpr(e[1], tok), tok_sexpr(e[2], tok))


def ser_sum(s):
    return "%s %s %s" % (ser_ty(s.dom), ser_ty(s.cod), ser_list(ser_diagram, s.terms))


def ser_sum_result(fn):
    try:
        return "ok " + ser_sum(fn())
    except Exception as exc:  # noqa
        return "err " + err_class(exc)


class SumGen:
    """Sums of 0-3 terms of a common type, built on a `core.Gen`."""

    def __init__(self, gen):
        self.g = gen
        self.rng = gen.rng

    def close(self, e, scans, cod):
        """Make a grown mk-expression end on `cod` (append one box eating the whole type)."""
        if scans[-1] == list(cod):
            return e
        closer = self.g.gbox(scans[-1], list(cod))
        _, d0, _, boxes, offsets = e
        return ("mk", d0, list(cod), boxes + [closer], offsets + [0])

    def terms(self, dom, n, cod=None):
        """n diagrams dom -> cod with a common cod (chosen by the first term unless given)."""
        r = self.rng
        if n == 0:
            return [], list(self.g.ty(0, 2)) if cod is None else list(cod)
        out = []
        for k in range(n):
            if k and r.random() < 0.3:
                out.append(out[0])                   # repeated term
                continue
            e, sc = self.g.diagram(dom, r.choice([0, 1, 1, 2, 3]))
            if cod is None:
                cod = sc[-1]
            out.append(self.close(e, sc, cod))
        return out, list(cod)

    def sum(self, dom=None, nterms=None, cod=None):
        """Returns (spec, dom, cod, nterms)."""
        r = self.rng
        if dom is None:
            dom = self.g.ty(0, 3)
        n = r.choice([0, 1, 1, 2, 2, 3]) if nterms is None else nterms
        ts, cod = self.terms(dom, n, cod)
        explicit = n == 0 or r.random() < 0.3
        spec = ("smk", ts, list(dom) if explicit else None, list(cod) if explicit else None)
        return spec, list(dom), list(cod), n
