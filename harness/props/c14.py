"""C14 — substituting parameters commutes with evaluation.

Oracle = the property's own four clauses, executed with sympy on the real code:
  E1  d.subs(s).eval() == d.eval().subs(s)           (right-hand side also recomputed by sympy's
                                                       own entrywise subs, so a wrong Tensor.subs /
                                                       CQMap.subs is told apart from a wrong box)
  E2  d.lambdify(*xs)(*vs) is the same diagram as d.subs(zip(xs, vs)) and evaluates alike
  E3  both keep dom, cod, offsets, box kinds, dagger flags, mixedness
  E4  d.free_symbols == symbols occurring in the parameters; substituting all of them gives a
      diagram that reports none and evaluates to numbers
Correspondence = the same substitutions on small integer-polynomial tensor diagrams and on the
attribute records of every box class, executed by the Lean model (Model/Param.lean).
"""
import random
import time

import numpy as np
import sympy

from common import Driver, Report, lean_obligations, err_class, load_findings
import paramlib as pl

PROP = "C14"


# --------------------------------------------------------------------------- helpers

def family_eval(fam, d):
    if fam == "zx":
        return pl.zx_eval(d)
    if fam == "mixed":
        return d.eval(mixed=True)
    return d.eval()


def exc_sig(exc):
    return "%s" % type(exc).__name__


def has_closed_sympy_rotation(d):
    from discopy.quantum.gates import Rotation
    for b in d.boxes:
        if isinstance(b, Rotation) and hasattr(b.data, "free_symbols") and not b.data.free_symbols:
            return True
    return False


def raised_in_method_of(exc, cls, method):
    """True iff the traceback of `exc` passes through `method` called on an instance of `cls`."""
    tb = exc.__traceback__
    while tb is not None:
        f = tb.tb_frame
        if f.f_code.co_name == method and isinstance(f.f_locals.get("self"), cls):
            return True
        tb = tb.tb_next
    return False


def classify_subs_exception(d, exc, what):
    """Narrow signature of an exception raised by d.subs / d.lambdify."""
    from discopy.quantum.gates import Digits, ClassicalGate
    from discopy.quantum import zx
    from discopy import tensor
    msg = str(exc)
    if isinstance(exc, AttributeError) and "NoneType" in msg \
            and any(isinstance(b, ClassicalGate) and b.data is None for b in d.boxes):
        return "classical_state_%s_raises" % what                      # F5h
    if what == "lambdify" and isinstance(exc, TypeError) and "_dagger" in msg \
            and any(isinstance(b, (zx.Spider, zx.Scalar)) for b in d.boxes):
        return "lambdify_raises:zx"                                      # F5e
    if what == "lambdify" and isinstance(exc, TypeError) \
            and raised_in_method_of(exc, ClassicalGate, "lambdify"):
        return "classicalgate_lambdify_raises"                           # F5i
    return "%s_raises:%s" % (what, exc_sig(exc))


def attr_failures(d, s, what):
    """Compare non-numeric attributes of d and its image s.  Returns list of (signature, text)."""
    a, b = pl.diagram_shape(d), pl.diagram_shape(s)
    out = []
    if (a["dom"], a["cod"]) != (b["dom"], b["cod"]):
        out.append(("%s_changes_type" % what, "dom/cod %s -> %s" % ((a["dom"], a["cod"]), (b["dom"], b["cod"]))))
    if len(a["boxes"]) != len(b["boxes"]) or a["offsets"] != b["offsets"]:
        out.append(("%s_changes_layout" % what, "boxes/offsets differ"))
        return out
    for k, (x, y) in enumerate(zip(a["boxes"], b["boxes"])):
        if (x["dom"], x["cod"]) != (y["dom"], y["cod"]):
            out.append(("%s_changes_box_type:%s" % (what, x["kind"]), "box %d" % k))
        if x["kind"] != y["kind"] or x["module"] != y["module"]:
            out.append(("kind_changed:%s->%s" % (x["kind"], y["kind"]), "box %d under %s" % (k, what)))
        if x["dagger"] != y["dagger"]:
            out.append(("loses_dagger:%s" % x["kind"], "box %d under %s: is_dagger %s -> %s" % (
                k, what, x["dagger"], y["dagger"])))
        if x["mixed"] != y["mixed"]:
            out.append(("loses_mixedness:%s" % x["kind"], "box %d under %s: is_mixed %s -> %s" % (
                k, what, x["mixed"], y["mixed"])))
        if x["sname"] != y["sname"]:
            out.append(("name_changed:%s" % x["kind"], "box %d under %s: %s -> %s" % (
                k, what, x["sname"], y["sname"])))
    return out


def tensor_subs_signature(ev, args, exc=None, got=None, want=None, point=None):
    """Signature for a wrong / raising `d.eval().subs(...)`."""
    from discopy.quantum.cqmap import CQMap
    es = pl.entries(ev)
    if isinstance(ev, CQMap) and exc is not None:
        return "cqmap_subs_raises"                                       # F5f
    plain = [not hasattr(e, "subs") for e in es]
    if any(plain):
        if exc is not None:
            return "tensor_subs_clobbers_constants"                      # F5a (list argument: ragged array)
        ok_symbolic = True
        for e, g, w, p in zip(es, got, want, plain):
            if not p:
                try:
                    ok_symbolic &= pl.close([pl.numeval(g, point)], [pl.numeval(w, point)])
                except Exception:
                    ok_symbolic = False
        if ok_symbolic:
            return "tensor_subs_clobbers_constants"                      # F5a
    return "eval_then_subs_wrong" if exc is None else "eval_then_subs_raises:" + exc_sig(exc)


class Sub:
    """A way of supplying a substitution."""

    def __init__(self, style, args, closes):
        self.style, self.args, self.closes = style, args, closes

    def __repr__(self):
        return "%s%r" % (self.style, self.args)


def substitutions(rng, syms, free, eg, real):
    """All ways of supplying substitutions for a diagram with free symbols `free`."""
    free = sorted(free, key=str)
    out = []
    if free:
        v = rng.choice(free)
        out.append(Sub("number", (v, eg.number()), len(free) == 1))
        out.append(Sub("number", (v, rng.choice([0, 1, sympy.Rational(1, 3), 0.3])), len(free) == 1))
        fresh = sympy.Symbol("z0", real=True) if real else sympy.Symbol("z0")
        out.append(Sub("symbol", (v, rng.choice([fresh] + [s for s in syms if s != v])), False))
        out.append(Sub("expr", (v, eg.poly() if rng.random() < 0.6 else eg.affine()), False))
        pairs = [(s, eg.number()) for s in free]
        rng.shuffle(pairs)
        out.append(Sub("pairs_all", (pairs, ), True))
        if len(free) >= 2:
            k = rng.randint(1, len(free) - 1)
            out.append(Sub("pairs_some", ([(s, eg.number() if rng.random() < 0.6 else eg.affine())
                                           for s in rng.sample(free, k)], ), False))
        out.append(Sub("dict_like_pairs", (tuple((s, eg.number(allow_float=False)) for s in free), ), True))
        if len(free) >= 2:
            # chained pairs: sympy applies a LIST of pairs in the order given, so an image may
            # mention a symbol substituted later: [(a, b + 1), (b, 1/4)] closes the diagram
            order = list(free)
            rng.shuffle(order)
            chained = []
            for i, sym in enumerate(order):
                later = order[i + 1:]
                if later and rng.random() < 0.7:
                    chained.append((sym, rng.choice(later) * rng.choice([1, 2, -1])
                                    + rng.choice([0, 1, sympy.Rational(1, 2)])))
                else:
                    chained.append((sym, eg.number(allow_float=False)))
            chained[-1] = (order[-1], eg.number(allow_float=False))
            out.append(Sub("pairs_chained", (chained, ), True))
            # and in the order opposite to sympy's canonical one
            out.append(Sub("pairs_chained", (list(chained), ), True))
    other = [s for s in syms if s not in free]
    if other:
        out.append(Sub("absent", (rng.choice(other), eg.number()), not free))
    return out


# --------------------------------------------------------------------------- one diagram

def check_diagram(rep, fam, d, syms, rng, real, budget_subs):
    eg = pl.ExprGen(rng, syms)
    desc = dict(family=fam, diagram=repr(d)[:600])
    # ---- E4a: free symbols exact
    want_free = pl.diagram_symbols(d)
    try:
        got_free = set(d.free_symbols)
    except Exception as exc:
        rep.fail("free_symbols_raises:" + exc_sig(exc), desc, repr(exc)[:200])
        return
    if got_free != want_free:
        rep.fail("free_symbols_wrong", desc, "reported %s, parameters contain %s" % (
            sorted(map(str, got_free)), sorted(map(str, want_free))))
    # ---- symbolic evaluation (once)
    try:
        ev = family_eval(fam, d)
    except Exception as exc:
        sig = "symbolic_eval_raises:" + exc_sig(exc)
        rep.fail(sig, desc, repr(exc)[:200])
        ev = None
    subs_list = substitutions(rng, syms, want_free, eg, real)
    rng.shuffle(subs_list)
    subs_list = sorted(subs_list[:budget_subs], key=lambda s: s.style)
    for sub in subs_list:
        case = dict(desc, subs=repr(sub))
        key = "%s|%s|%r" % (fam, desc["diagram"], sub)
        rep.count("family:" + fam)
        rep.count("style:" + sub.style)
        rep.case(key, bool(want_free) and sub.style != "absent" and len(d.boxes) >= 2)
        check_subs(rep, fam, d, ev, sub, case, rng, syms)
    # ---- E2: lambdify on all free symbols (plus sometimes one more)
    xs = sorted(want_free, key=str)
    if rng.random() < 0.3:
        extra = [s for s in syms if s not in want_free]
        if extra:
            xs.append(rng.choice(extra))
    rng.shuffle(xs)
    vals = [rng.choice([0.5, 0.25, 1, 2, -1, 0.3, 1.75]) for _ in xs]
    case = dict(desc, lambdify=[str(x) for x in xs], values=vals)
    rep.count("style:lambdify")
    rep.case("%s|%s|lambdify%r%r" % (fam, desc["diagram"], xs, vals), bool(want_free) and len(d.boxes) >= 2)
    check_lambdify(rep, fam, d, ev, xs, vals, case)


def compare_eval(rep, sig_prefix, case, lhs_entries, rhs_entries, point, exact=False):
    """lhs vs rhs entrywise at the rational point (and exactly where cheap)."""
    if len(lhs_entries) != len(rhs_entries):
        rep.fail(sig_prefix + ":shape", case, "shapes differ")
        return False
    a, b = pl.numvec(lhs_entries, point), pl.numvec(rhs_entries, point)
    if not pl.close(a, b):
        k = int(np.argmax(np.abs(a - b)))
        rep.fail(sig_prefix, case, "entry %d at %s: %r vs %r (%r vs %r)" % (
            k, {str(s): str(v) for s, v in point.items()}, a[k], b[k],
            str(lhs_entries[k])[:80], str(rhs_entries[k])[:80]))
        return False
    if exact:
        for x, y in zip(lhs_entries, rhs_entries):
            z = pl.exact_zero(x, y)
            if z is False:
                rep.fail(sig_prefix + ":exact", case, "simplify(%s - %s) != 0" % (x, y))
                return False
            rep.count("exact_entry_%s" % ("checked" if z else "skipped"))
    return True


def check_subs(rep, fam, d, ev, sub, case, rng, syms):
    args = sub.args
    # -- the substituted diagram
    try:
        s = d.subs(*args)
    except Exception as exc:
        rep.fail(classify_subs_exception(d, exc, "subs"), case, repr(exc)[:200])
        return
    # -- E3 attributes
    attr = attr_failures(d, s, "subs")
    for sig, text in attr:
        rep.fail(sig, case, text)
    # -- E4 free symbols of the result
    want_after = pl.diagram_symbols(s)
    ref_after = set()
    for b in d.boxes:
        for e in pl.flat_data(getattr(b, "data", None)):
            if hasattr(e, "free_symbols"):
                ref_after |= set(sympy.sympify(e).subs(*args).free_symbols)
    got_after = set(s.free_symbols)
    if got_after != want_after:
        rep.fail("free_symbols_wrong_after_subs", case, "%s vs %s" % (got_after, want_after))
    if got_after != ref_after and not attr:
        rep.fail("subs_wrong_symbols", case, "result has %s, substitution should leave %s" % (
            sorted(map(str, got_after)), sorted(map(str, ref_after))))
    if sub.closes and got_after:
        rep.fail("not_closed_after_substituting_all", case, "left: %s" % got_after)
    if ev is None:
        return
    es = pl.entries(ev)
    remaining = set().union(*[sympy.sympify(e).free_symbols for e in es]) if es else set()
    for a in (args[0] if len(args) == 1 else [args]):
        remaining |= set(getattr(sympy.sympify(a[1]), "free_symbols", set()))
    point = pl.rational_point(rng, sorted(remaining | set(syms), key=str))
    want = pl.ref_subs(es, args)
    # -- E1 right-hand side through the library's own Tensor.subs / CQMap.subs
    try:
        rhs = pl.entries(ev.subs(*args))
        good = len(rhs) == len(want) and pl.close(pl.numvec(rhs, point), pl.numvec(want, point))
        if not good:
            rep.fail(tensor_subs_signature(ev, args, got=rhs, want=want, point=point), case,
                     "d.eval().subs(...) = %s, sympy says %s" % (str(rhs)[:150], str(want)[:150]))
    except Exception as exc:
        rep.fail(tensor_subs_signature(ev, args, exc=exc), case, "d.eval().subs raised " + repr(exc)[:160])
    # -- E1 left-hand side
    try:
        lhs = pl.entries(family_eval(fam, s))
    except Exception as exc:
        if isinstance(exc, TypeError) and has_closed_sympy_rotation(s):
            rep.fail("eval_after_subs_raises:rotation_sympy_number", case, repr(exc)[:200])   # F5b
        else:
            rep.fail("eval_after_subs_raises:" + exc_sig(exc), case, repr(exc)[:200])
        return
    sig = "subs_eval_mismatch"
    if attr:
        sig = attr[0][0]            # consequence of the attribute already reported for this case
    ok = compare_eval(rep, sig, case, lhs, want, point, exact=(fam == "tensor"))
    if ok:
        rep.count("E1_ok")
    if sub.closes and not got_after:
        bad = [e for e in lhs if not pl.is_number(e)]
        if bad:
            rep.fail("closed_diagram_evaluates_to_non_number", case, str(bad[:3]))
        else:
            rep.count("E4_closed_ok")


def data_close(x, y):
    fx, fy = pl.flat_data(x), pl.flat_data(y)
    if len(fx) != len(fy):
        return False
    try:
        return pl.close(pl.numvec(fx, {}), pl.numvec(fy, {}))
    except Exception:
        return False


def check_lambdify(rep, fam, d, ev, xs, vals, case):
    try:
        lam = d.lambdify(*xs)(*vals)
    except Exception as exc:
        rep.fail(classify_subs_exception(d, exc, "lambdify"), case, repr(exc)[:200])
        return
    attr = attr_failures(d, lam, "lambdify")
    for sig, text in attr:
        rep.fail(sig, case, text)
    if set(lam.free_symbols):
        rep.fail("not_closed_after_lambdify", case, str(lam.free_symbols))
    pairs = list(zip(xs, vals))
    try:
        s = d.subs(pairs)
    except Exception as exc:
        rep.fail(classify_subs_exception(d, exc, "subs"), case, repr(exc)[:200])
        s = None
    if s is not None and not attr and not attr_failures(d, s, "subs"):
        same = len(s.boxes) == len(lam.boxes) and all(
            data_close(getattr(a, "data", None), getattr(b, "data", None))
            for a, b in zip(s.boxes, lam.boxes))
        if not same:
            rep.fail("lambdify_differs_from_subs", case, "%r vs %r" % (lam, s))
        else:
            rep.count("E2_same_diagram")
    if ev is None:
        return
    want = pl.ref_subs(pl.entries(ev), (pairs, )) if pairs else pl.entries(ev)
    try:
        lhs = pl.entries(family_eval(fam, lam))
    except Exception as exc:
        rep.fail("eval_after_lambdify_raises:" + exc_sig(exc), case, repr(exc)[:200])
        return
    sig = attr[0][0] if attr else "lambdify_eval_mismatch"
    if compare_eval(rep, sig, case, lhs, want, {}):
        rep.count("E2_eval_ok")
    bad = [e for e in lhs if not pl.is_number(e)]
    if bad:
        rep.fail("lambdified_diagram_evaluates_to_non_number", case, str(bad[:3]))


# --------------------------------------------------------------------------- witnesses of the findings

def witnesses():
    """Minimal reproducers of the findings recorded for C14, run through the same checks on every
    run (so each KNOWN-FINDING line is backed by its witness, and a repair is seen at once)."""
    from discopy import tensor
    from discopy.tensor import Dim
    from discopy.quantum import Rx, Ket, Measure, Bits, zx
    from discopy.quantum.circuit import Id, bit
    from discopy.quantum.gates import scalar, ClassicalGate, Copy
    x, y, _ = pl.symbols(True, 3)
    return [
        ("F5a", "tensor", lambda: tensor.Box("f", Dim(2), Dim(2), [x, 0, 0, 1])),
        ("F5b", "pure", lambda: Ket(0) >> Rx(x)),
        ("F5c", "mixed", lambda: Ket(0) >> scalar(x, is_mixed=True) @ Id(1)),
        ("F5d", "mixed", lambda: Ket(0, 1) >> Measure() @ Measure()
            >> ClassicalGate("g", 1, 2, [x, 0, 0, 1, 0, y, 1, 1]).dagger()),
        ("F5e", "zx", lambda: zx.Z(1, 1, x) >> zx.X(1, 1, y)),
        ("F5f", "mixed", lambda: Ket(0) >> Rx(x) >> Measure()),
        ("F5h", "mixed", lambda: Bits(1) @ Ket(0) >> Id(bit) @ Rx(x)),
        ("F5h", "mixed", lambda: Ket(0) >> Rx(x) >> Measure() >> Copy()),
        ("F5i", "mixed", lambda: Ket(0) >> Measure() >> ClassicalGate("g", 1, 1, [x, 0, y, 1])),
    ]


def check_ndarray_data(rep, rng, syms):
    """Finding F5j: numpy arrays as box data (tensor.Box accepts them, Spider uses one)."""
    from discopy import tensor
    from discopy.tensor import Dim
    eg = pl.ExprGen(rng, syms)
    a, b = rng.choice([1, 2]), rng.choice([2, 3])
    flat = [eg.poly() if rng.random() < 0.5 else rng.choice([0, 1, 2]) for _ in range(a * b)]
    flat[rng.randrange(a * b)] = eg.poly()
    d = tensor.Box("n", Dim(a), Dim(b), np.array(flat, dtype=object))
    if rng.random() < 0.5:
        d = d >> tensor.Box("m", Dim(b), Dim(2), [eg.affine() for _ in range(2 * b)])
    desc = dict(family="tensor_ndarray", diagram=repr(d)[:400])
    free = sorted(pl.diagram_symbols(d), key=str)
    ev = pl.entries(d.eval())
    pairs = [(s, eg.number(allow_float=False)) for s in free]
    for args in ((free[0], eg.number()), (pairs, )):
        case = dict(desc, subs=repr(args))
        rep.count("family:tensor_ndarray")
        rep.case("nd|%s|%r" % (desc["diagram"], args), True)
        point = pl.rational_point(rng, syms)
        try:
            got = pl.entries(d.subs(*args).eval())
            if not pl.close(pl.numvec(got, point), pl.numvec(pl.ref_subs(ev, args), point)):
                raise ValueError("wrong value")
            rep.count("ndarray_subs_ok")
        except Exception as exc:
            rep.fail("ndarray_box_data:subs", case, repr(exc)[:200])
    case = dict(desc, lambdify=[str(s) for s in free])
    rep.case("nd|%s|lambdify" % desc["diagram"], True)
    try:
        vals = [rng.choice([0.5, 1, 2, -1]) for _ in free]
        got = pl.entries(d.lambdify(*free)(*vals).eval())
        if not pl.close(pl.numvec(got, {}), pl.numvec(pl.ref_subs(ev, (list(zip(free, vals)), )), {})):
            raise ValueError("wrong value")
        rep.count("ndarray_lambdify_ok")
    except Exception as exc:
        rep.fail("ndarray_box_data:lambdify", case, repr(exc)[:200])


# --------------------------------------------------------------------------- correspondence with the Lean model

NV = 3          # variables of the model's polynomials


def tok_poly(e, syms):
    return pl.poly_tokens(e, syms)


def tok_pdiagram(spec, syms):
    """`<dom> <nlayers> (<left> <right> <bdom> <bcod> <dagger> <n> poly*)*`, dims length-prefixed."""
    def dims(x):
        return " ".join([str(len(x))] + [str(k) for k in x])
    out = [dims(spec["dom"]), str(len(spec["layers"]))]
    for l in spec["layers"]:
        out += [dims(l["left"]), dims(l["right"]), dims(l["dom"]), dims(l["cod"]),
                "1" if l["dagger"] else "0", str(len(l["data"]))]
        out += [tok_poly(e, syms) for e in l["data"]]
    return " ".join(out)


def matrix_tokens(t, syms):
    es = pl.entries(t)
    return " ".join([str(len(es))] + [tok_poly(e, syms) for e in es])


def model_stream(rep, drv, rng, n_cases):
    """Small integer-polynomial tensor diagrams: eval, subs-then-eval, free symbols on discopy
    and on the Lean model, compared exactly (canonical polynomial normal form)."""
    syms = pl.symbols(True, NV)
    lines, reals, cases = [], [], []
    t0 = time.time()
    for _ in range(n_cases):
        g = pl.TensorGen(random.Random(rng.getrandbits(64)), syms, polyonly=True, maxdim=6)
        d, spec = g.diagram(g.rng.randint(1, 3), plain_only=True)
        tok = tok_pdiagram(spec, syms)
        eg = pl.ExprGen(g.rng, syms)
        vi = g.rng.randrange(NV)
        repl = eg.int_poly() if g.rng.random() < 0.5 else sympy.Integer(g.rng.randint(-2, 3))
        reqs = [
            ("peval %s" % tok, lambda d=d: "ok " + matrix_tokens(d.eval(), syms)),
            ("pfree %s" % tok, lambda d=d: "ok " + " ".join(
                [str(len(d.free_symbols))] + sorted(str(syms.index(s)) for s in d.free_symbols))),
            ("psubseval %d %s %s" % (vi, tok_poly(repl, syms), tok),
             lambda d=d, vi=vi, repl=repl: "ok " + matrix_tokens(d.subs(syms[vi], repl).eval(), syms)),
            ("pevalsubs %d %s %s" % (vi, tok_poly(repl, syms), tok),
             lambda d=d, vi=vi, repl=repl: "ok " + " ".join(
                 [str(len(pl.entries(d.eval())))] + [tok_poly(sympy.sympify(e).subs(syms[vi], repl), syms)
                                                    for e in pl.entries(d.eval())])),
        ]
        for line, fn in reqs:
            lines.append(line)
            cases.append(dict(diagram=repr(d)[:300], request=line[:400]))
            try:
                reals.append(fn())
            except Exception as exc:
                reals.append("err " + err_class(exc))
    answers = drv.ask_many(lines)
    for line, case, real, model in zip(lines, cases, reals, answers):
        stream = "model:" + line.split(" ")[0]
        rep.count(stream)
        rep.case(line, True)
        if real != model:
            rep.disagree(stream, case, real[:400], model[:400])
    rep.extra["model_stream_s"] = round(time.time() - t0, 2)


def class_records():
    """(class token, constructor thunk) for every box class whose subs is modelled."""
    from discopy import tensor
    from discopy.quantum import zx, Rx, Ry, Rz, CRz, CRx, CU1, Bits
    from discopy.quantum.gates import scalar, MixedScalar, sqrt, ClassicalGate, Copy
    x = sympy.Symbol("x0", real=True)
    D = tensor.Dim
    return [
        ("tensorBox", lambda: tensor.Box("f", D(2), D(2), [x, 0, 0, 1])),
        ("tensorBox", lambda: tensor.Box("f", D(2), D(3), [x, 0, 0, 1, 2, 3]).dagger()),
        ("rotation", lambda: Rx(x)), ("rotation", lambda: Ry(x + 1)), ("rotation", lambda: Rz(2 * x)),
        ("rotation", lambda: CRz(x)), ("rotation", lambda: CRx(x)), ("rotation", lambda: CU1(x)),
        ("scalar", lambda: scalar(x)), ("scalar", lambda: scalar(x, is_mixed=True)),
        ("mixedScalar", lambda: MixedScalar(x)), ("sqrt", lambda: sqrt(x)),
        ("classicalGate", lambda: ClassicalGate("g", 1, 1, [x, 0, 0, 1])),
        ("classicalGate", lambda: ClassicalGate("g", 1, 2, [x, 0, 0, 1, 0, 0, 1, 1]).dagger()),
        ("classicalGate", lambda: Copy()), ("classicalGate", lambda: Bits(1)),
        ("zxSpider", lambda: zx.Z(1, 2, x)), ("zxSpider", lambda: zx.X(2, 1, x)),
        ("zxScalar", lambda: zx.scalar(x)),
    ]


def attr_tokens(b):
    a = pl.box_attrs(b)
    return "%s %d %d %d %d" % (a["kind"], len(b.dom), len(b.cod), 1 if a["dagger"] else 0,
                               {None: 2, False: 0, True: 1}[a["mixed"]])


def fix_flags():
    """The model transcribes the code as found; once a finding is recorded as `fixed` (the fix
    commit is in /repo) the transcription of the repaired constructor call is selected."""
    fixed = {f.get("id") for f in load_findings(PROP) if f.get("status") == "fixed"}
    return "%d %d %d" % ("F5c" in fixed, "F5d" in fixed, "F5h" in fixed)


def class_stream(rep, drv):
    """The attribute record each class's `subs` rebuilds (kind, arity, dagger flag, mixedness)
    on discopy and on the model's transcription of the same constructor calls."""
    x = sympy.Symbol("x0", real=True)
    flags = fix_flags()
    rep.extra["model_fix_flags(F5c,F5d,F5h)"] = flags
    lines, reals = [], []
    for cls, mk in class_records():
        b = mk()
        for hit in (1, 0):
            var = x if hit else sympy.Symbol("x1", real=True)
            hit_now = int(var in b.free_symbols)
            lines.append("csubs %s %s %d %d %d %s" % (
                flags, cls, hit_now, int(b.data is not None), int(bool(b.free_symbols)), attr_tokens(b)))
            try:
                reals.append("ok " + attr_tokens(b.subs(var, 2)))
            except Exception as exc:
                reals.append("err " + err_class(exc))
    answers = drv.ask_many(lines)
    for line, real, model in zip(lines, reals, answers):
        rep.count("model:csubs")
        rep.case(line, True)
        if real != model:
            rep.disagree("model:csubs", dict(request=line), real, model)


# --------------------------------------------------------------------------- run

def run(tier, seed, replay=None):
    rep = Report(PROP, tier, seed)
    quick = tier == "quick"
    rep.rule = ("random parametrised diagrams of four families (tensor 1-4 layers with list / nested / "
                "tuple / ndarray data and daggered boxes; pure circuits and mixed circuits of 1-2 qubits "
                "over rotations, controlled rotations, scalars, classical gates; ZX diagrams over Z/X "
                "spiders, Hadamards, scalars), each under 3-8 ways of supplying a substitution (number, "
                "symbol, expression, list of pairs closing / not closing, absent symbol) and one "
                "lambdify call; non-trivial = >= 2 boxes, >= 1 free symbol, substitution hits it; "
                "distinct by (diagram, substitution)")
    rep.partial = [
        "sympy's subs / lambdify / simplify are outside the model (oracle only)",
        "the Lean polynomial instance (Model/Param.lean Poly) is not proved to be a commutative "
        "ring; it is validated against sympy by the model streams",
        "ZX diagrams have no evaluation in discopy 0.3.5: they are evaluated by the standard "
        "interpretation written in harness/paramlib.py, composed by discopy's tensor.Functor",
    ]
    rep.assumptions = [
        "lambdify is called with symbol lists covering every free symbol (sympy.lambdify cannot "
        "leave symbols open); box data never contains Python strings",
        "numeric comparison: entries evaluated at random rational points, tolerance 1e-9 relative "
        "to max(1, |entry|); exact comparison by sympy.simplify on tensor diagrams where cheap",
    ]
    rep.lean = lean_obligations(PROP, thorough=not quick)
    rng = random.Random(seed)
    drv = Driver()
    try:
        class_stream(rep, drv)
        model_stream(rep, drv, random.Random(rng.getrandbits(64)), 40 if quick else 300)
    finally:
        drv.close()
    t_fam = {}
    t0 = time.time()
    for fid, fam, mk in witnesses():
        r = random.Random(rng.getrandbits(64))
        rep.count("witness:" + fid)
        check_diagram(rep, fam, mk(), pl.symbols(True, 3), r, True, 8)
    for _ in range(3 if quick else 30):
        check_ndarray_data(rep, random.Random(rng.getrandbits(64)), pl.symbols(True, 3))
    t_fam["witnesses"] = round(time.time() - t0, 2)
    plan = [("tensor", 26, 4), ("pure", 16, 4), ("mixed", 10, 3), ("zx", 18, 4)] if quick else \
           [("tensor", 160, 8), ("pure", 90, 8), ("mixed", 50, 8), ("zx", 110, 8)]
    for fam, n, budget in plan:
        t0 = time.time()
        for k in range(n):
            r = random.Random(rng.getrandbits(64))
            real = (fam in ("mixed", )) or r.random() < 0.5
            syms = pl.symbols(real, 3)
            if fam == "tensor":
                g = pl.TensorGen(r, syms)
                d, _ = g.diagram(r.randint(1, 4))
            elif fam in ("pure", "mixed"):
                g = pl.CircuitGen(r, syms, mixed=(fam == "mixed"), max_qubits=2)
                d, _ = g.circuit(r.randint(2, 5 if fam == "pure" else 4))
            else:
                d = pl.ZXGen(r, syms).diagram(r.randint(1, 5))
            rep.count("boxes:%s" % min(len(d.boxes), 6))
            rep.sample(dict(family=fam, diagram=repr(d)[:300]))
            check_diagram(rep, fam, d, syms, r, real, budget)
        t_fam[fam] = round(time.time() - t0, 2)
    rep.extra["family_wall_s"] = t_fam
    return rep.finish()
