"""C14 — substituting parameters commutes with evaluation.

Oracle = the property's own four clauses, executed with sympy on the real code:
  E1  d.subs(s).eval() == d.eval().subs(s)           (right-hand side also recomputed by sympy's
                                                       own entrywise subs, so a wrong Tensor.subs /
                                                       CQMap.subs is told apart from a wrong box)
  E2  d.lambdify(*xs)(*vs) is the same diagram as d.subs(zip(xs, vs)) and evaluates alike
  E3  both keep dom, cod, offsets, box kinds, dagger flags, mixedness
  E4  d.free_symbols == symbols occurring in the parameters; substituting all of them gives a
      diagram that reports none and evaluates to numbers
Correspondence = the same substitutions on small integer-polynomial tensor diagrams and on the
attribute records of every box class, executed by the Lean model (Model/Param.lean).
"""
import random
import time

import numpy as np
import sympy

from common import Driver, Report, lean_obligations, err_class, load_findings, wf_failure
import paramlib as pl

PROP = "C14"


# --------------------------------------------------------------------------- helpers

def family_eval(fam, d):
    if fam == "zx":
        return pl.zx_eval(d)
    if fam == "mixed":
        return d.eval(mixed=True)
    return d.eval()


def exc_sig(exc):
    return "%s" % type(exc).__name__


def has_closed_sympy_rotation(d):
    from discopy.quantum.gates import Rotation
    for b in d.boxes:
        if isinstance(b, Rotation) and hasattr(b.data, "free_symbols") and not b.data.free_symbols:
            return True
    return False


def raised_in_method_of(exc, cls, method):
    """True iff the traceback of `exc` passes through `method` called on an instance of `cls`."""
    tb = exc.__traceback__
    while tb is not None:
        f = tb.tb_frame
        if f.f_code.co_name == method and isinstance(f.f_locals.get("self"), cls):
            return True
        tb = tb.tb_next
    return False


def raised_under_method_of(exc, cls, method):
    """Like `raised_in_method_of`, also for the function that `method` RETURNED (lambdify returns a
    lambda defined inside it: its frames are named '<lambda>' and close over `self`)."""
    tb = exc.__traceback__
    while tb is not None:
        f = tb.tb_frame
        if f.f_code.co_qualname.endswith("%s.<locals>.<lambda>" % method) or f.f_code.co_name == method:
            if isinstance(f.f_locals.get("self"), cls):
                return True
        tb = tb.tb_next
    return False


def classify_subs_exception(d, exc, what):
    """Narrow signature of an exception raised by d.subs / d.lambdify."""
    from discopy.quantum.gates import Digits, ClassicalGate
    from discopy.quantum import zx
    from discopy import tensor
    msg = str(exc)
    if isinstance(exc, AttributeError) and "NoneType" in msg \
            and any(isinstance(b, ClassicalGate) and b.data is None for b in d.boxes):
        return "classical_state_%s_raises" % what                      # F5h
    if what == "lambdify" and isinstance(exc, TypeError) and "_dagger" in msg \
            and any(isinstance(b, (zx.Spider, zx.Scalar)) for b in d.boxes):
        return "lambdify_raises:zx"                                      # F5e
    if what == "lambdify" and isinstance(exc, TypeError) \
            and raised_in_method_of(exc, ClassicalGate, "lambdify"):
        return "classicalgate_lambdify_raises"                           # F5i
    if what == "lambdify" and isinstance(exc, TypeError) \
            and any(pl.has_nested_ndarray(getattr(b, "data", None)) for b in d.boxes):
        return "ndarray_inside_container:lambdify"                       # F4l
    return "%s_raises:%s" % (what, exc_sig(exc))


def attr_failures(d, s, what):
    """Compare non-numeric attributes of d and its image s.  Returns list of (signature, text)."""
    a, b = pl.diagram_shape(d), pl.diagram_shape(s)
    out = []
    if (a["dom"], a["cod"]) != (b["dom"], b["cod"]):
        out.append(("%s_changes_type" % what, "dom/cod %s -> %s" % ((a["dom"], a["cod"]), (b["dom"], b["cod"]))))
    if len(a["boxes"]) != len(b["boxes"]) or a["offsets"] != b["offsets"]:
        out.append(("%s_changes_layout" % what, "boxes/offsets differ"))
        return out
    for k, (x, y) in enumerate(zip(a["boxes"], b["boxes"])):
        if (x["dom"], x["cod"]) != (y["dom"], y["cod"]):
            out.append(("%s_changes_box_type:%s" % (what, x["kind"]), "box %d" % k))
        if x["kind"] != y["kind"] or x["module"] != y["module"]:
            out.append(("kind_changed:%s->%s" % (x["kind"], y["kind"]), "box %d under %s" % (k, what)))
        if x["dagger"] != y["dagger"]:
            out.append(("loses_dagger:%s" % x["kind"], "box %d under %s: is_dagger %s -> %s" % (
                k, what, x["dagger"], y["dagger"])))
        if x["mixed"] != y["mixed"]:
            out.append(("loses_mixedness:%s" % x["kind"], "box %d under %s: is_mixed %s -> %s" % (
                k, what, x["mixed"], y["mixed"])))
        if x["sname"] != y["sname"]:
            out.append(("name_changed:%s" % x["kind"], "box %d under %s: %s -> %s" % (
                k, what, x["sname"], y["sname"])))
    return out


def tensor_subs_signature(ev, args, exc=None, got=None, want=None, point=None):
    """Signature for a wrong / raising `d.eval().subs(...)`."""
    from discopy.quantum.cqmap import CQMap
    es = pl.entries(ev)
    if isinstance(ev, CQMap) and exc is not None:
        return "cqmap_subs_raises"                                       # F5f
    plain = [not hasattr(e, "subs") for e in es]
    if any(plain):
        if exc is not None:
            return "tensor_subs_clobbers_constants"                      # F5a (list argument: ragged array)
        ok_symbolic = True
        for e, g, w, p in zip(es, got, want, plain):
            if not p:
                try:
                    ok_symbolic &= pl.close([pl.numeval(g, point)], [pl.numeval(w, point)])
                except Exception:
                    ok_symbolic = False
        if ok_symbolic:
            return "tensor_subs_clobbers_constants"                      # F5a
    return "eval_then_subs_wrong" if exc is None else "eval_then_subs_raises:" + exc_sig(exc)


class Sub:
    """A way of supplying a substitution."""

    def __init__(self, style, args, closes):
        self.style, self.args, self.closes = style, args, closes

    def __repr__(self):
        return "%s%r" % (self.style, self.args)


def substitutions(rng, syms, free, eg, real):
    """All ways of supplying substitutions for a diagram with free symbols `free`."""
    free = sorted(free, key=str)
    out = []
    if free:
        v = rng.choice(free)
        out.append(Sub("number", (v, eg.number()), len(free) == 1))
        out.append(Sub("number", (v, rng.choice([0, 1, sympy.Rational(1, 3), 0.3])), len(free) == 1))
        fresh = sympy.Symbol("z0", real=True) if real else sympy.Symbol("z0")
        out.append(Sub("symbol", (v, rng.choice([fresh] + [s for s in syms if s != v])), False))
        out.append(Sub("expr", (v, eg.poly() if rng.random() < 0.6 else eg.affine()), False))
        pairs = [(s, eg.number()) for s in free]
        rng.shuffle(pairs)
        out.append(Sub("pairs_all", (pairs, ), True))
        if len(free) >= 2:
            k = rng.randint(1, len(free) - 1)
            out.append(Sub("pairs_some", ([(s, eg.number() if rng.random() < 0.6 else eg.affine())
                                           for s in rng.sample(free, k)], ), False))
        out.append(Sub("dict_like_pairs", (tuple((s, eg.number(allow_float=False)) for s in free), ), True))
        if len(free) >= 2:
            # chained pairs: sympy applies a LIST of pairs in the order given, so an image may
            # mention a symbol substituted later: [(a, b + 1), (b, 1/4)] closes the diagram
            order = list(free)
            rng.shuffle(order)
            chained = []
            for i, sym in enumerate(order):
                later = order[i + 1:]
                if later and rng.random() < 0.7:
                    chained.append((sym, rng.choice(later) * rng.choice([1, 2, -1])
                                    + rng.choice([0, 1, sympy.Rational(1, 2)])))
                else:
                    chained.append((sym, eg.number(allow_float=False)))
            chained[-1] = (order[-1], eg.number(allow_float=False))
            out.append(Sub("pairs_chained", (chained, ), True))
            # and in the order opposite to sympy's canonical one
            out.append(Sub("pairs_chained", (list(chained), ), True))
    other = [s for s in syms if s not in free]
    if other:
        out.append(Sub("absent", (rng.choice(other), eg.number()), not free))
    return out


# --------------------------------------------------------------------------- one diagram

def check_diagram(rep, fam, d, syms, rng, real, budget_subs):
    eg = pl.ExprGen(rng, syms)
    desc = dict(family=fam, diagram=repr(d)[:600])
    # ---- E4a: free symbols exact
    want_free = pl.diagram_symbols(d)
    try:
        got_free = set(d.free_symbols)
    except Exception as exc:
        rep.fail("free_symbols_raises:" + exc_sig(exc), desc, repr(exc)[:200])
        return
    if got_free != want_free:
        rep.fail("free_symbols_wrong", desc, "reported %s, parameters contain %s" % (
            sorted(map(str, got_free)), sorted(map(str, want_free))))
    # ---- symbolic evaluation (once)
    try:
        ev = family_eval(fam, d)
    except Exception as exc:
        sig = "symbolic_eval_raises:" + exc_sig(exc)
        rep.fail(sig, desc, repr(exc)[:200])
        ev = None
    subs_list = substitutions(rng, syms, want_free, eg, real)
    rng.shuffle(subs_list)
    subs_list = sorted(subs_list[:budget_subs], key=lambda s: s.style)
    for sub in subs_list:
        case = dict(desc, subs=repr(sub))
        key = "%s|%s|%r" % (fam, desc["diagram"], sub)
        rep.count("family:" + fam)
        rep.count("style:" + sub.style)
        rep.case(key, bool(want_free) and sub.style != "absent" and len(d.boxes) >= 2)
        check_subs(rep, fam, d, ev, sub, case, rng, syms)
    # ---- E2: lambdify on all free symbols (plus sometimes one more)
    xs = sorted(want_free, key=str)
    if rng.random() < 0.3:
        extra = [s for s in syms if s not in want_free]
        if extra:
            xs.append(rng.choice(extra))
    rng.shuffle(xs)
    vals = [rng.choice([0.5, 0.25, 1, 2, -1, 0.3, 1.75]) for _ in xs]
    case = dict(desc, lambdify=[str(x) for x in xs], values=vals)
    rep.count("style:lambdify")
    rep.case("%s|%s|lambdify%r%r" % (fam, desc["diagram"], xs, vals), bool(want_free) and len(d.boxes) >= 2)
    check_lambdify(rep, fam, d, ev, xs, vals, case)


def compare_eval(rep, sig_prefix, case, lhs_entries, rhs_entries, point, exact=False):
    """lhs vs rhs entrywise at the rational point (and exactly where cheap)."""
    if len(lhs_entries) != len(rhs_entries):
        rep.fail(sig_prefix + ":shape", case, "shapes differ")
        return False
    try:
        b = pl.numvec(rhs_entries, point)
    except Exception as exc:            # the reference side is not closed at `point`: nothing to compare with
        rep.count("compare_skipped:reference_not_numeric")
        return False
    try:
        a = pl.numvec(lhs_entries, point)
    except Exception as exc:
        # the library's side still contains symbols that the substitution should have removed
        # (or entries that are not numbers at all) where the reference side is a number
        rep.fail(sig_prefix + ":not_numeric", case, "%s: %s, expected %s" % (
            exc_sig(exc), str(lhs_entries)[:200], str(rhs_entries)[:200]))
        return False
    if not pl.close(a, b):
        k = int(np.argmax(np.abs(a - b)))
        rep.fail(sig_prefix, case, "entry %d at %s: %r vs %r (%r vs %r)" % (
            k, {str(s): str(v) for s, v in point.items()}, a[k], b[k],
            str(lhs_entries[k])[:80], str(rhs_entries[k])[:80]))
        return False
    if exact:
        for x, y in zip(lhs_entries, rhs_entries):
            z = pl.exact_zero(x, y)
            if z is False:
                rep.fail(sig_prefix + ":exact", case, "simplify(%s - %s) != 0" % (x, y))
                return False
            rep.count("exact_entry_%s" % ("checked" if z else "skipped"))
    return True


def check_subs(rep, fam, d, ev, sub, case, rng, syms):
    args = sub.args
    # -- the substituted diagram
    try:
        s = d.subs(*args)
    except Exception as exc:
        rep.fail(classify_subs_exception(d, exc, "subs"), case, repr(exc)[:200])
        return
    # -- E3 attributes
    attr = attr_failures(d, s, "subs")
    for sig, text in attr:
        rep.fail(sig, case, text)
    # -- E4 free symbols of the result
    want_after = pl.diagram_symbols(s)
    ref_after = set()
    for b in pl.leaf_boxes(d):
        for e in pl.flat_data(getattr(b, "data", None)):
            if hasattr(e, "free_symbols"):
                ref_after |= set(sympy.sympify(e).subs(*args).free_symbols)
    try:
        got_after = set(s.free_symbols)
    except Exception as exc:
        rep.fail("free_symbols_raises_after_subs:" + exc_sig(exc), case, repr(exc)[:200])
        return
    if got_after != want_after:
        rep.fail("free_symbols_wrong_after_subs", case, "%s vs %s" % (got_after, want_after))
    if got_after != ref_after and not attr:
        rep.fail("subs_wrong_symbols", case, "result has %s, substitution should leave %s" % (
            sorted(map(str, got_after)), sorted(map(str, ref_after))))
    if sub.closes and got_after:
        rep.fail("not_closed_after_substituting_all", case, "left: %s" % got_after)
    if ev is None:
        return
    es = pl.entries(ev)
    remaining = set().union(*[sympy.sympify(e).free_symbols for e in es]) if es else set()
    for a in (args[0] if len(args) == 1 else [args]):
        remaining |= set(getattr(sympy.sympify(a[1]), "free_symbols", set()))
    point = pl.rational_point(rng, sorted(remaining | set(syms), key=str))
    want = pl.ref_subs(es, args)
    # -- E1 right-hand side through the library's own Tensor.subs / CQMap.subs
    try:
        rhs = pl.entries(ev.subs(*args))
        good = len(rhs) == len(want) and pl.close(pl.numvec(rhs, point), pl.numvec(want, point))
        if not good:
            rep.fail(tensor_subs_signature(ev, args, got=rhs, want=want, point=point), case,
                     "d.eval().subs(...) = %s, sympy says %s" % (str(rhs)[:150], str(want)[:150]))
    except Exception as exc:
        rep.fail(tensor_subs_signature(ev, args, exc=exc), case, "d.eval().subs raised " + repr(exc)[:160])
    # -- E1 left-hand side
    try:
        lhs = pl.entries(family_eval(fam, s))
    except Exception as exc:
        if isinstance(exc, TypeError) and has_closed_sympy_rotation(s):
            rep.fail("eval_after_subs_raises:rotation_sympy_number", case, repr(exc)[:200])   # F5b
        else:
            rep.fail("eval_after_subs_raises:" + exc_sig(exc), case, repr(exc)[:200])
        return
    sig = "subs_eval_mismatch"
    if attr:
        sig = attr[0][0]            # consequence of the attribute already reported for this case
    ok = compare_eval(rep, sig, case, lhs, want, point, exact=(fam == "tensor"))
    if ok:
        rep.count("E1_ok")
    if sub.closes and not got_after:
        bad = [e for e in lhs if not pl.is_number(e)]
        if bad:
            rep.fail("closed_diagram_evaluates_to_non_number", case, str(bad[:3]))
        else:
            rep.count("E4_closed_ok")


def data_close(x, y):
    fx, fy = pl.flat_data(x), pl.flat_data(y)
    if len(fx) != len(fy):
        return False
    try:
        return pl.close(pl.numvec(fx, {}), pl.numvec(fy, {}))
    except Exception:
        return False


def check_lambdify(rep, fam, d, ev, xs, vals, case):
    try:
        lam = d.lambdify(*xs)(*vals)
    except Exception as exc:
        rep.fail(classify_subs_exception(d, exc, "lambdify"), case, repr(exc)[:200])
        return
    attr = attr_failures(d, lam, "lambdify")
    for sig, text in attr:
        rep.fail(sig, case, text)
    try:
        left = set(lam.free_symbols)
    except Exception as exc:
        rep.fail("free_symbols_raises_after_lambdify:" + exc_sig(exc), case, repr(exc)[:200])
        return
    if left:
        rep.fail("not_closed_after_lambdify", case, str(left))
    if pl.diagram_symbols(lam):
        rep.fail("lambdify_leaves_symbols_in_parameters", case, str(pl.diagram_symbols(lam)))
    pairs = list(zip(xs, vals))
    try:
        s = d.subs(pairs)
    except Exception as exc:
        rep.fail(classify_subs_exception(d, exc, "subs"), case, repr(exc)[:200])
        s = None
    if s is not None and not attr and not attr_failures(d, s, "subs"):
        sb, lb = pl.leaf_boxes(s), pl.leaf_boxes(lam)
        same = len(s.boxes) == len(lam.boxes) and len(sb) == len(lb) and all(
            data_close(getattr(a, "data", None), getattr(b, "data", None))
            for a, b in zip(sb, lb))
        if not same:
            rep.fail("lambdify_differs_from_subs", case, "%r vs %r" % (lam, s))
        else:
            rep.count("E2_same_diagram")
    if ev is None:
        return
    want = pl.ref_subs(pl.entries(ev), (pairs, )) if pairs else pl.entries(ev)
    try:
        lhs = pl.entries(family_eval(fam, lam))
    except Exception as exc:
        rep.fail("eval_after_lambdify_raises:" + exc_sig(exc), case, repr(exc)[:200])
        return
    sig = attr[0][0] if attr else "lambdify_eval_mismatch"
    if compare_eval(rep, sig, case, lhs, want, {}):
        rep.count("E2_eval_ok")
    bad = [e for e in lhs if not pl.is_number(e)]
    if bad:
        rep.fail("lambdified_diagram_evaluates_to_non_number", case, str(bad[:3]))



# --------------------------------------------------------------------------- sequences of operations

def collect_symbols(*datas):
    out = set()
    for data in datas:
        out |= pl.data_symbols(data)
    return out


def data_same(x, y, rng=None):
    """Box data equal as values: same length, same symbols, numerically equal at a rational point."""
    fx, fy = pl.flat_data(x), pl.flat_data(y)
    if len(fx) != len(fy):
        return False
    sx, sy = collect_symbols(fx), collect_symbols(fy)
    if sx != sy:
        return False
    point = {s: sympy.Rational(3 + 2 * k, 7 + k) for k, s in enumerate(sorted(sx, key=str))}
    try:
        return pl.close(pl.numvec(fx, point), pl.numvec(fy, point))
    except Exception:
        return False


def box_same(a, b):
    if hasattr(a, "inside") or hasattr(b, "inside"):
        # bubbles: same function (the object), same declared type, same diagram inside
        return (type(a) is type(b) and str(a.dom) == str(b.dom) and str(a.cod) == str(b.cod)
                and getattr(a, "func", None) is getattr(b, "func", None)
                and same_diagram(a.inside, b.inside))
    return (type(a) is type(b) and str(a.dom) == str(b.dom) and str(a.cod) == str(b.cod)
            and bool(a.is_dagger) == bool(b.is_dagger)
            and getattr(a, "is_mixed", None) == getattr(b, "is_mixed", None)
            and data_same(getattr(a, "data", None), getattr(b, "data", None)))


def same_diagram(a, b):
    """Equality of two diagrams as the property means it (types, layout, boxes with equal data),
    without the library's `==`."""
    return (str(a.dom) == str(b.dom) and str(a.cod) == str(b.cod)
            and list(a.offsets) == list(b.offsets) and len(a.boxes) == len(b.boxes)
            and all(box_same(x, y) for x, y in zip(a.boxes, b.boxes)))


def views_failure(d):
    """A diagram is ONE value: its boxes read from `.boxes`, from `.layers`, by iteration, by
    indexing `d[i]` and by slicing `d[i:i+1]` must be the same boxes at the same offsets (and the
    diagram well-formed).  None, or (view, text)."""
    why = wf_failure(d)
    if why:
        return "wf", why
    n = len(d.boxes)
    try:
        views = dict(
            layers=[(box, len(left)) for left, box, _ in d.layers.boxes],
            iteration=[(x.boxes[0], x.offsets[0]) for x in d],
            index=[(d[i].boxes[0], d[i].offsets[0]) for i in range(n)],
            slice=[(d[i:i + 1].boxes[0], d[i:i + 1].offsets[0]) for i in range(n)])
        if n >= 2:
            k = n // 2
            views["two_slices"] = list(zip(d[:k].boxes + d[k:].boxes, d[:k].offsets + d[k:].offsets))
    except Exception as exc:
        return "raises", repr(exc)[:200]
    for name, got in sorted(views.items()):
        if len(got) != n:
            return name, "%d boxes through %s, %d in .boxes" % (len(got), name, n)
        for i, ((b, off), ref, roff) in enumerate(zip(got, d.boxes, d.offsets)):
            if off != roff or not box_same(b, ref):
                return name, "box %d: .boxes has %r at offset %d, %s gives %r at offset %d" % (
                    i, ref, roff, name, b, off)
    return None


def check_views(rep, what, case, d):
    bad = views_failure(d)
    if bad:
        rep.fail("%s_result_inconsistent:%s" % (what, bad[0]), case, bad[1][:400])
        return False
    rep.count("views_ok:" + what)
    return True


def as_pairs(args):
    return list(args[0]) if len(args) == 1 else [tuple(args)]


def first_steps(rng, free, syms, eg, real):
    """Partial (and sometimes total) first substitutions of a sequence."""
    fresh = sympy.Symbol("z0", real=True) if real else sympy.Symbol("z0")
    v = rng.choice(free)
    others = [s for s in free if s != v]
    out = [("number", (v, eg.number()))]
    w = rng.choice(others + [fresh])
    out.append(("expr", (v, w * rng.choice([1, 2, -1, sympy.Rational(1, 2)]) + rng.choice([0, 1, sympy.Rational(1, 3)]))))
    out.append(("expr_self", (v, v * rng.choice([2, -1]) + rng.choice([0, 1]))))
    if others:
        k = rng.randint(1, len(others))
        out.append(("pairs", ([(s, eg.number(allow_float=False)) for s in rng.sample(free, k)], )))
    return out


def expected_symbols(d, args):
    out = set()
    for b in pl.leaf_boxes(d):
        for e in pl.flat_data(getattr(b, "data", None)):
            if hasattr(e, "free_symbols"):
                out |= set(sympy.sympify(e).subs(*args).free_symbols)
    return out


def seq_eval(rep, fam, sig, case, diagram, want, point):
    """Evaluate `diagram` and compare with the reference entries `want`."""
    try:
        got = pl.entries(family_eval(fam, diagram))
    except Exception as exc:
        rep.fail(sig + ":eval_raises:" + exc_sig(exc), case, repr(exc)[:200])
        return None
    try:
        if compare_eval(rep, sig, case, got, want, point):
            rep.count("seq_eval_ok")
    except Exception as exc:            # symbols left in an evaluation that should be closed at `point`
        rep.fail(sig + ":not_numeric", case, "%s: %s" % (exc_sig(exc), str(got)[:200]))
    return got


def check_sequences(rep, fam, d, syms, rng, real):
    """Sequences of parameter operations on ONE diagram, each compared with the one-shot result
    and with the evaluation (substitutions compose: d.subs(p).subs(q) == d.subs(p + q) for lists
    of pairs applied in order; a substituted diagram is an ordinary diagram, so C14 holds for it)."""
    eg = pl.ExprGen(rng, syms)
    desc = dict(family=fam, diagram=repr(d)[:600])
    free = sorted(pl.diagram_symbols(d), key=str)
    n = len(d.boxes)
    if not free:
        rep.count("seq_skipped:no_symbols")
        return
    try:
        es = pl.entries(family_eval(fam, d))
    except Exception as exc:
        rep.fail("symbolic_eval_raises:" + exc_sig(exc), desc, repr(exc)[:200])
        return
    check_views(rep, "generated", desc, d)
    steps = first_steps(rng, free, syms, eg, real)
    rng.shuffle(steps)
    for style, args1 in steps[:2]:
        case = dict(desc, first="subs%r" % (args1, ))
        rep.count("seq_first:" + style)
        rep.count("family:seq_" + fam)
        rep.case("seq|%s|%s|%r" % (fam, desc["diagram"], args1), n >= 2)
        try:
            s1 = d.subs(*args1)
        except Exception as exc:
            rep.fail(classify_subs_exception(d, exc, "subs"), case, repr(exc)[:200])
            continue
        es1 = pl.ref_subs(es, args1)
        free1 = sorted(expected_symbols(d, args1), key=str)
        allsyms = sorted(set(syms) | set(free1), key=str)
        # -- the result is one value however it is read
        check_views(rep, "subs", case, s1)
        if set(s1.free_symbols) != set(free1):
            rep.fail("subs_wrong_symbols", case, "result has %s, substitution should leave %s" % (
                sorted(map(str, s1.free_symbols)), list(map(str, free1))))
        # -- subs again gives the same value (no state), the argument is left alone
        try:
            again = d.subs(*args1)
            if not same_diagram(again, s1):
                rep.fail("subs_not_repeatable", case, "%r then %r" % (s1, again))
            if set(d.free_symbols) != set(free) or not check_views(rep, "argument_of_subs", case, d):
                rep.fail("subs_changes_its_argument", case, repr(d)[:300])
        except Exception as exc:
            rep.fail("subs_not_repeatable:" + exc_sig(exc), case, repr(exc)[:200])
        # -- subs then subs
        if free1:
            v2 = rng.choice(free1)
            args2 = rng.choice([(v2, eg.number()),
                                ([(s, eg.number(allow_float=False)) for s in free1], ),
                                (v2, eg.affine())])
        else:
            args2 = (rng.choice(syms), eg.number())
        c2 = dict(case, then="subs%r" % (args2, ))
        rep.count("seq:subs_subs")
        try:
            s2 = s1.subs(*args2)
            one = d.subs(as_pairs(args1) + as_pairs(args2))
        except Exception as exc:
            rep.fail(classify_subs_exception(s1, exc, "subs"), c2, repr(exc)[:200])
            s2 = None
        if s2 is not None:
            if not same_diagram(s2, one):
                rep.fail("subs_subs_differs_from_one_shot", c2, "%r vs %r" % (s2, one))
            else:
                rep.count("seq_same_diagram")
            check_views(rep, "subs_subs", c2, s2)
            for sig, text in attr_failures(d, s2, "subs_subs"):
                rep.fail(sig, c2, text)
            seq_eval(rep, fam, "subs_subs_eval_mismatch", c2, s2, pl.ref_subs(es1, args2),
                     pl.rational_point(rng, allsyms))
        # -- subs then lambdify: the result of subs is a diagram with parameters like any other
        xs = list(free1)
        if rng.random() < 0.3:
            xs.append(sympy.Symbol("absent", real=True))
        rng.shuffle(xs)
        vals = [rng.choice([0.5, 0.25, 1, 2, -1, 0.3, 1.75]) for _ in xs]
        c3 = dict(case, then="lambdify(%s)(%s)" % (", ".join(map(str, xs)), ", ".join(map(str, vals))))
        rep.count("seq:subs_lambdify")
        try:
            lam = s1.lambdify(*xs)(*vals)
        except Exception as exc:
            rep.fail("lambdify_after_subs_raises:" + exc_sig(exc), c3, repr(exc)[:200])
            lam = None
        if lam is not None:
            pairs = list(zip(xs, vals))
            try:
                ref = s1.subs(pairs) if pairs else s1
                if not same_diagram(lam, ref):
                    rep.fail("lambdify_after_subs_differs_from_subs", c3, "%r vs %r" % (lam, ref))
                else:
                    rep.count("seq_same_diagram")
            except Exception as exc:
                rep.fail(classify_subs_exception(s1, exc, "subs"), c3, repr(exc)[:200])
            if set(lam.free_symbols):
                rep.fail("not_closed_after_subs_then_lambdify", c3, str(lam.free_symbols))
            check_views(rep, "subs_lambdify", c3, lam)
            for sig, text in attr_failures(d, lam, "subs_lambdify"):
                rep.fail(sig, c3, text)
            got = seq_eval(rep, fam, "subs_lambdify_eval_mismatch", c3, lam,
                           pl.ref_subs(es1, (pairs, )) if pairs else es1, {})
            if got is not None and [e for e in got if not pl.is_number(e)]:
                rep.fail("lambdified_diagram_evaluates_to_non_number", c3, str(got[:3]))
        # -- subs then slice then eval: slices of the result are the substituted slices
        if n >= 2:
            i = rng.randrange(n)
            j = rng.randint(i + 1, min(n, i + 3))
            if (i, j) == (0, n):
                i = 1
            c4 = dict(case, then="[%d:%d]" % (i, j))
            rep.count("seq:subs_slice")
            try:
                part, orig = s1[i:j], d[i:j]
                ref = orig.subs(*args1)
            except Exception as exc:
                rep.fail("slice_after_subs_raises:" + exc_sig(exc), c4, repr(exc)[:200])
                part = None
            if part is not None:
                if not same_diagram(part, ref):
                    rep.fail("slice_after_subs_differs", c4, "%r vs %r" % (part, ref))
                else:
                    rep.count("seq_same_diagram")
                try:
                    eo = pl.entries(family_eval(fam, orig))
                except Exception:
                    eo = None                   # the un-substituted slice has no evaluation: nothing to compare
                if eo is not None:
                    seq_eval(rep, fam, "subs_slice_eval_mismatch", c4, part, pl.ref_subs(eo, args1),
                             pl.rational_point(rng, allsyms))
        # -- composing pieces of the result, then lambdifying the composite
        if n >= 2 and rng.random() < 0.6:
            k = rng.randint(1, n - 1)
            vals5 = [rng.choice([0.5, 2, -1, 0.75]) for _ in free1]
            c5 = dict(case, then="(s[:%d] >> s[%d:]).lambdify(%s)(%s)" % (
                k, k, ", ".join(map(str, free1)), ", ".join(map(str, vals5))))
            rep.count("seq:subs_compose_lambdify")
            try:
                lam5 = (s1[:k] >> s1[k:]).lambdify(*free1)(*vals5)
                ref5 = d.subs(as_pairs(args1) + list(zip(free1, vals5)))
                if not same_diagram(lam5, ref5):
                    rep.fail("lambdify_after_subs_differs_from_subs", c5, "%r vs %r" % (lam5, ref5))
                else:
                    rep.count("seq_same_diagram")
                check_views(rep, "subs_compose_lambdify", c5, lam5)
            except Exception as exc:
                rep.fail("lambdify_after_subs_raises:" + exc_sig(exc), c5, repr(exc)[:200])
    # -- lambdify then subs: a closed diagram is unchanged by any substitution
    vals = [rng.choice([0.5, 0.25, 1, 2, -1]) for _ in free]
    case = dict(desc, first="lambdify(%s)(%s)" % (", ".join(map(str, free)), ", ".join(map(str, vals))))
    rep.count("seq:lambdify_subs")
    rep.case("seq|%s|%s|lambdify%r" % (fam, desc["diagram"], vals), n >= 2)
    try:
        lam = d.lambdify(*free)(*vals)
    except Exception as exc:
        rep.fail(classify_subs_exception(d, exc, "lambdify"), case, repr(exc)[:200])
        return
    check_views(rep, "lambdify", case, lam)
    args = (rng.choice(free), eg.number())
    c6 = dict(case, then="subs%r" % (args, ))
    try:
        after = lam.subs(*args)
        if not same_diagram(after, lam):
            rep.fail("subs_changes_closed_diagram", c6, "%r vs %r" % (after, lam))
        check_views(rep, "lambdify_subs", c6, after)
        seq_eval(rep, fam, "lambdify_subs_eval_mismatch", c6, after, pl.ref_subs(es, (list(zip(free, vals)), )), {})
    except Exception as exc:
        rep.fail(classify_subs_exception(lam, exc, "subs"), c6, repr(exc)[:200])


# --------------------------------------------------------------------------- histories: alike diagrams in one process

TIGHT = 1e-12


def tight_same(xs, ys, point):
    if len(xs) != len(ys):
        return False
    try:
        a, b = pl.numvec(xs, point), pl.numvec(ys, point)
    except Exception:
        return False
    return bool(a.size == 0 or np.abs(a - b).max() <= TIGHT * max(1.0, float(np.abs(a).max())))


def expected_data(box, args):
    """Reference: sympy's own subs on every symbolic datum, everything else untouched."""
    return [sympy.sympify(e).subs(*args) if getattr(e, "free_symbols", None) else e
            for e in pl.flat_data(getattr(box, "data", None))]


def make_alike(fam, syms, depth_rng):
    def make(r, dr, tail):
        if fam == "tensor":
            g = pl.TensorGen(r, syms, data_rng=dr, tail=tail)
            return g.diagram(r.randint(2, 4))[0]
        if fam in ("pure", "mixed"):
            g = pl.CircuitGen(r, syms, mixed=(fam == "mixed"), max_qubits=2, numeric=0.45, tail=tail,
                              data_rng=dr)
            return g.circuit(r.randint(3, 5))[0]
        return pl.ZXGen(r, syms, tail=tail, data_rng=dr).diagram(r.randint(2, 5))
    return make


def check_history(rep, fam, syms, rng, real):
    """Two or three diagrams that look alike (same shape, names, gate classes; constants agreeing
    on the printed digits, or independent data, or the same diagram built twice) are substituted
    and lambdified one after another: every result must be the result for ITS diagram -- compared
    box by box with sympy's subs of its own data (tight tolerance) and through the evaluation."""
    k = rng.choice([2, 2, 3])
    variants, mode = pl.alike_variants(rng, k, make_alike(fam, syms, rng))
    order = list(range(k))
    rng.shuffle(order)
    free = sorted(set().union(*[pl.diagram_symbols(d) for d in variants]), key=str)
    eg = pl.ExprGen(rng, syms)
    if not free:
        rep.count("history_skipped:no_symbols")
        return
    v = rng.choice(free)
    args = rng.choice([(v, eg.number()), (v, eg.affine()), ([(x, eg.number(allow_float=False)) for x in free], )])
    vals = [rng.choice([0.5, 0.25, 2, -1, 1.75]) for _ in free]
    rep.count("history_mode:" + mode)
    rep.count("history_family:" + fam)
    alike_reprs = len({repr(d) for d in variants}) == 1 and mode != "same"
    if alike_reprs:
        rep.count("history_equal_repr_distinct_diagrams")
    done = []
    for idx in order:
        d = variants[idx]
        case = dict(family=fam, mode=mode, diagram=repr(d)[:500], subs=repr(args),
                    data=[str(pl.flat_data(getattr(b, "data", None)))[:120] for b in d.boxes][:8],
                    earlier_in_this_process=[repr(x)[:200] for x in done])
        rep.case("hist|%s|%s|%r|%d" % (fam, case["diagram"], args, idx), len(d.boxes) >= 2 and bool(done))
        point = pl.rational_point(rng, sorted(set(syms) | set(free), key=str))
        done.append(d)
        try:
            es = pl.entries(family_eval(fam, d))
        except Exception as exc:
            rep.fail("symbolic_eval_raises:" + exc_sig(exc), case, repr(exc)[:200])
            continue
        for what, fn, a in (("subs", lambda d=d: d.subs(*args), args),
                            ("lambdify", lambda d=d: d.lambdify(*free)(*vals), (list(zip(free, vals)), ))):
            try:
                res = fn()
            except Exception as exc:
                rep.fail(classify_subs_exception(d, exc, what), case, repr(exc)[:200])
                continue
            ok = len(res.boxes) == len(d.boxes)
            for i, (b, rb) in enumerate(zip(d.boxes, res.boxes)):
                if not tight_same(pl.flat_data(getattr(rb, "data", None)), expected_data(b, a), point):
                    ok = False
                    rep.fail("%s_result_is_not_of_this_diagram" % what, dict(case, op=what),
                             "box %d: data %s, own data substituted is %s" % (
                                 i, str(pl.flat_data(getattr(rb, "data", None)))[:150], str(expected_data(b, a))[:150]))
                    break
            if ok:
                rep.count("history_%s_ok" % what)
            check_views(rep, "history_" + what, dict(case, op=what), res)
            seq_eval(rep, fam, "%s_eval_mismatch" % what if what == "subs" else "lambdify_eval_mismatch",
                     dict(case, op=what), res, pl.ref_subs(es, a), point if what == "subs" else {})

# --------------------------------------------------------------------------- witnesses of the findings

def witnesses():
    """Minimal reproducers of the findings recorded for C14, run through the same checks on every
    run (so each KNOWN-FINDING line is backed by its witness, and a repair is seen at once)."""
    from discopy import tensor
    from discopy.tensor import Dim
    from discopy.quantum import Rx, Ket, Measure, Bits, zx
    from discopy.quantum.circuit import Id, bit
    from discopy.quantum.gates import scalar, ClassicalGate, Copy
    x, y, _ = pl.symbols(True, 3)
    return [
        ("F5a", "tensor", lambda: tensor.Box("f", Dim(2), Dim(2), [x, 0, 0, 1])),
        ("F5b", "pure", lambda: Ket(0) >> Rx(x)),
        ("F5c", "mixed", lambda: Ket(0) >> scalar(x, is_mixed=True) @ Id(1)),
        ("F5d", "mixed", lambda: Ket(0, 1) >> Measure() @ Measure()
            >> ClassicalGate("g", 1, 2, [x, 0, 0, 1, 0, y, 1, 1]).dagger()),
        ("F5e", "zx", lambda: zx.Z(1, 1, x) >> zx.X(1, 1, y)),
        ("F5f", "mixed", lambda: Ket(0) >> Rx(x) >> Measure()),
        ("F5h", "mixed", lambda: Bits(1) @ Ket(0) >> Id(bit) @ Rx(x)),
        ("F5h", "mixed", lambda: Ket(0) >> Rx(x) >> Measure() >> Copy()),
        ("F5i", "mixed", lambda: Ket(0) >> Measure() >> ClassicalGate("g", 1, 1, [x, 0, y, 1])),
    ]


def check_ndarray_data(rep, rng, syms):
    """Finding F5j: numpy arrays as box data (tensor.Box accepts them, Spider uses one)."""
    from discopy import tensor
    from discopy.tensor import Dim
    eg = pl.ExprGen(rng, syms)
    a, b = rng.choice([1, 2]), rng.choice([2, 3])
    flat = [eg.poly() if rng.random() < 0.5 else rng.choice([0, 1, 2]) for _ in range(a * b)]
    flat[rng.randrange(a * b)] = eg.poly()
    d = tensor.Box("n", Dim(a), Dim(b), np.array(flat, dtype=object))
    if rng.random() < 0.5:
        d = d >> tensor.Box("m", Dim(b), Dim(2), [eg.affine() for _ in range(2 * b)])
    desc = dict(family="tensor_ndarray", diagram=repr(d)[:400])
    free = sorted(pl.diagram_symbols(d), key=str)
    ev = pl.entries(d.eval())
    pairs = [(s, eg.number(allow_float=False)) for s in free]
    for args in ((free[0], eg.number()), (pairs, )):
        case = dict(desc, subs=repr(args))
        rep.count("family:tensor_ndarray")
        rep.case("nd|%s|%r" % (desc["diagram"], args), True)
        point = pl.rational_point(rng, syms)
        try:
            got = pl.entries(d.subs(*args).eval())
            if not pl.close(pl.numvec(got, point), pl.numvec(pl.ref_subs(ev, args), point)):
                raise ValueError("wrong value")
            rep.count("ndarray_subs_ok")
        except Exception as exc:
            rep.fail("ndarray_box_data:subs", case, repr(exc)[:200])
    case = dict(desc, lambdify=[str(s) for s in free])
    rep.case("nd|%s|lambdify" % desc["diagram"], True)
    try:
        vals = [rng.choice([0.5, 1, 2, -1]) for _ in free]
        got = pl.entries(d.lambdify(*free)(*vals).eval())
        if not pl.close(pl.numvec(got, {}), pl.numvec(pl.ref_subs(ev, (list(zip(free, vals)), )), {})):
            raise ValueError("wrong value")
        rep.count("ndarray_lambdify_ok")
    except Exception as exc:
        rep.fail("ndarray_box_data:lambdify", case, repr(exc)[:200])


# --------------------------------------------------------------------------- containers of box data

ARRAY_SHAPES = [([], [2]), ([2], []), ([2], [2]), ([2], [3]), ([3], [2]), ([], [2, 2]), ([2, 2], [2]),
                ([2], [2, 2]), ([], [2, 3]), ([2, 2], [2, 2])]


def container_entries(rng, eg, syms, n, symbolic):
    """`n` box entries, at least one with symbols when `symbolic`."""
    flat = [rng.choice([eg.affine, eg.poly, eg.poly, eg.nonlinear])() if (symbolic and rng.random() < 0.5)
            else rng.choice([0, 1, 1, 2, -1, 0.5]) for _ in range(n)]
    if symbolic and not any(getattr(e, "free_symbols", None) for e in flat):
        flat[rng.randrange(n)] = eg.affine() + rng.choice(syms) * 2
    return flat


def check_zero_d(rep, case, box, data):
    """A 0-d array holding an expression is a parameter like any other.  Returns True when the box
    reports its symbols (the full check then runs), False after reporting the narrow signature."""
    own = pl.data_symbols(data)
    try:
        got = set(box.free_symbols)
    except Exception as exc:
        rep.fail("free_symbols_raises:" + exc_sig(exc), case, repr(exc)[:200])
        return False
    if got == own:
        return True
    outside = pl.data_symbols_outside_zero_d(data)
    if got == outside and outside != own:
        rep.fail("free_symbols_wrong:zero_d_array", case, "reported %s, the 0-d array(s) contain %s" % (
            sorted(map(str, got)), sorted(map(str, pl.zero_d_symbols(data)))))                # F4z
    else:
        rep.fail("free_symbols_wrong", case, "reported %s, parameters contain %s" % (
            sorted(map(str, got)), sorted(map(str, own))))
    return False


def check_array_containers(rep, rng, syms, real, kind, fam="tensor", budget=3, big=False):
    """The same entries handed to an array-valued box (tensor.Box; ClassicalGate for fam 'mixed')
    in the container `kind`, alone and inside a diagram with an ordinary list-data box; then the
    whole of C14's oracle (`check_diagram`: E1-E4, every way of supplying a substitution, lambdify)."""
    from discopy.tensor import Box, Dim, Id
    eg = pl.ExprGen(rng, syms)
    # (0-d arrays and arrays inside containers always with symbols: the witnesses of F4z / F4l)
    symbolic = rng.random() < 0.9 or kind in pl.SINGLE_KINDS or kind.endswith("_of_ndarrays")
    rep.count("container:" + kind)
    rep.count("container_host:" + ("tensor.Box" if fam == "tensor" else "ClassicalGate"))
    if fam == "mixed":
        from discopy.quantum import Ket, Measure
        from discopy.quantum.gates import ClassicalGate
        ncod = rng.choice([1, 1, 2])
        dims = [2] * (1 + ncod)
        flat = container_entries(rng, eg, syms, 2 ** (1 + ncod), symbolic)
        data = pl.array_container(rng, flat, dims, kind)
        case = dict(family="containers", host="ClassicalGate", container=kind, data=pl.canon_repr(data)[:300])
        try:
            if rng.random() < 0.3:
                g = ClassicalGate("g", ncod, 1, data).dagger()
            else:
                g = ClassicalGate("g", 1, ncod, data)
            d = Ket(rng.choice([0, 1])) >> Measure() >> g
        except Exception as exc:
            rep.fail("container_box_construction_raises:" + exc_sig(exc), case, repr(exc)[:200])
            return
        if set(g.free_symbols) != pl.data_symbols(data):
            rep.fail("free_symbols_wrong", case, "reported %s, parameters contain %s" % (
                sorted(map(str, g.free_symbols)), sorted(map(str, pl.data_symbols(data)))))
        check_diagram(rep, "mixed", d, syms, rng, True, budget)
        return
    if kind in pl.SINGLE_KINDS:
        dom, cod = [], []
    else:
        dom, cod = rng.choice(ARRAY_SHAPES if big else ARRAY_SHAPES[:7])
    n = int(np.prod(dom + cod)) if dom + cod else 1
    flat = container_entries(rng, eg, syms, n, symbolic)
    dagger = rng.random() < 0.25
    d0, c0 = (cod, dom) if dagger else (dom, cod)
    data = pl.array_container(rng, flat, d0 + c0, kind)
    case = dict(family="containers", host="tensor.Box", container=kind, data=pl.canon_repr(data)[:300])
    try:
        b = Box("v", Dim(*d0), Dim(*c0), data)
        if dagger:
            b = b.dagger()
        shape = rng.choice(["alone", "then", "after", "tensor"])
        other = None
        if shape == "then":
            m = rng.choice([2, 3])
            other = Box("m", Dim(*cod), Dim(m), container_entries(rng, eg, syms, max(1, int(np.prod(cod))) * m, True))
            d = b >> other
        elif shape == "after":
            m = rng.choice([2, 3])
            other = Box("m", Dim(m), Dim(*dom), container_entries(rng, eg, syms, max(1, int(np.prod(dom))) * m, True))
            d = other >> b
        elif shape == "tensor":
            other = Box("m", Dim(1), Dim(2), container_entries(rng, eg, syms, 2, True))
            d = b @ other if rng.random() < 0.5 else other @ b
        else:
            d = b
    except Exception as exc:
        rep.fail("container_box_construction_raises:" + exc_sig(exc), case, repr(exc)[:200])
        return
    rep.count("container_context:" + shape)
    if "ndarray0" in pl.container_types(data) and not check_zero_d(rep, dict(case, diagram=repr(d)[:300]), b, data):
        rep.case("zero_d|%s" % case["data"], bool(pl.data_symbols(data)))
        return
    # the box must report the symbols of the entries it was GIVEN (the container is not data)
    if set(b.free_symbols) != pl.data_symbols(flat):
        rep.fail("free_symbols_wrong", dict(case, diagram=repr(d)[:300]), "reported %s, parameters contain %s" % (
            sorted(map(str, b.free_symbols)), sorted(map(str, pl.data_symbols(flat)))))
    check_diagram(rep, "tensor", d, syms, rng, real, budget)


def host_box(rng, host, name, data):
    """A box of class `host` keeping `data` as its parameters (dom == cod: composable both ways)."""
    from discopy import cat, monoidal, rigid, tensor
    from discopy.quantum import circuit, qubit
    from discopy.quantum.gates import QuantumGate
    if host == "cat":
        return cat.Box(name, cat.Ob("x"), cat.Ob("x"), data=data)
    if host == "monoidal":
        return monoidal.Box(name, monoidal.Ty("x"), monoidal.Ty("x"), data=data)
    if host == "rigid":
        return rigid.Box(name, rigid.Ty("x"), rigid.Ty("x"), data=data)
    if host == "tensor":
        return tensor.Box(name, tensor.Dim(2), tensor.Dim(2), data)
    if host == "circuit_pure":
        return circuit.Box(name, qubit, qubit, is_mixed=False, data=data)
    if host == "circuit_mixed":
        return circuit.Box(name, qubit, qubit, is_mixed=True, data=data)
    if host == "quantumgate":
        array = rng.choice([[1, 0, 0, 1], (0, 1, 1, 0), ((1, 0), (0, -1)), [(0, 1), (1, 0)]])
        return QuantumGate(name, 1, array=array, data=data)
    raise ValueError(host)


WILD_HOSTS = ["cat", "monoidal", "rigid", "tensor", "circuit_pure", "circuit_mixed", "quantumgate"]


def leaf_subs(args):
    def f(e):
        return sympy.sympify(e).subs(*args) if getattr(e, "free_symbols", None) else e
    return f


def check_wild_containers(rep, rng, syms, real, host, kind):
    """Nested data that is not an array (sets, frozensets, dicts, arrays and tuples inside them, ...),
    or an array container on a class without evaluation, as the `data` of a box of every class that
    accepts it: free symbols = the symbols of the entries; subs / lambdify act on the entries and
    keep everything else (no evaluation exists for these boxes: the data is what is observable)."""
    from discopy.quantum.gates import QuantumGate
    eg = pl.ExprGen(rng, syms)
    symbolic = rng.random() < 0.9

    def leaf():
        if symbolic and rng.random() < 0.6:
            return rng.choice([eg.affine, eg.poly, eg.nonlinear])()
        return rng.choice([0, 1, 2, -1, 0.5, sympy.Rational(1, 3)])
    if kind in pl.ARRAY_KINDS:
        flat = container_entries(rng, eg, syms, 4, symbolic)
        data = pl.array_container(rng, flat, [2, 2], kind)
    else:
        data = pl.wild_container(rng, leaf, kind)
        if symbolic and not pl.data_symbols(data):
            data = {"k": data, "s": {eg.affine() + rng.choice(syms)}} if rng.random() < 0.5 \
                else (data, (eg.poly() * rng.choice(syms), ))
    types = pl.container_types(data)
    rep.count("container:" + kind)
    rep.count("container_host:" + host)
    for t in sorted(types):
        rep.count("container_type:" + t)
    case = dict(family="containers", host=host, container=kind, data=pl.canon_repr(data)[:400])
    other_data = [eg.affine() + rng.choice(syms)]
    try:
        b = host_box(rng, host, "v", data)
        dagger = host != "circuit_pure" and rng.random() < 0.25
        if dagger:
            b = b.dagger()
        other = host_box(rng, host, "m", other_data)
        shape = rng.choice(["alone", "then", "after"] + ([] if host == "cat" else ["tensor"]))
        d = dict(alone=lambda: b, then=lambda: b >> other, after=lambda: other >> b,
                 tensor=lambda: b @ other if rng.random() < 0.5 else other @ b)[shape]()
        idx = [i for i, x in enumerate(d.boxes) if x is b or (x.name == "v")][0]
    except Exception as exc:
        rep.fail("container_box_construction_raises:" + exc_sig(exc), case, repr(exc)[:200])
        return
    case = dict(case, diagram=shape, dagger=dagger)
    own = pl.data_symbols(data)
    want_free = own | (pl.data_symbols(other_data) if shape != "alone" else set())
    key = "wild|%s|%s|%s|%s" % (host, kind, case["data"], shape)
    rep.count("family:containers")
    rep.case(key, bool(own) and bool(types - {"list"}))
    # ---- E4 free symbols = symbols of the entries
    if "ndarray0" in types and not check_zero_d(rep, case, b, data):
        return
    try:
        if set(b.free_symbols) != own:
            rep.fail("free_symbols_wrong", case, "box reports %s, its parameters contain %s" % (
                sorted(map(str, b.free_symbols)), sorted(map(str, own))))
        if set(d.free_symbols) != want_free:
            rep.fail("free_symbols_wrong", case, "diagram reports %s, the parameters contain %s" % (
                sorted(map(str, d.free_symbols)), sorted(map(str, want_free))))
    except Exception as exc:
        rep.fail("free_symbols_raises:" + exc_sig(exc), case, repr(exc)[:200])
        return
    point = pl.rational_point(rng, sorted(set(syms) | want_free, key=str) + [sympy.Symbol("z0", real=True), sympy.Symbol("z0")])
    # ---- substitutions
    subs_list = substitutions(rng, syms, want_free, eg, real)
    closing = [x for x in subs_list if x.closes and x.style != "absent"]
    rng.shuffle(subs_list)
    chosen = subs_list[:2] + closing[:1]
    for sub in chosen:
        c = dict(case, subs=repr(sub))
        rep.count("style:" + sub.style)
        rep.case(key + "|" + repr(sub), bool(own) and sub.style != "absent")
        try:
            s = d.subs(*sub.args)
        except Exception as exc:
            if host == "quantumgate" and isinstance(exc, TypeError) and raised_in_method_of(exc, QuantumGate, "subs"):
                rep.fail("quantumgate_with_data:subs_raises", c, repr(exc)[:200])             # F4b
            else:
                rep.fail("subs_raises:" + exc_sig(exc), c, repr(exc)[:200])
            continue
        for sig, text in attr_failures(d, s, "subs"):
            if host == "circuit_pure" and sig == "loses_mixedness:Box":
                sig = "circuit_box_with_data:is_mixed_not_kept"                               # F4b
            rep.fail(sig, c, text)
        if len(s.boxes) != len(d.boxes):
            continue
        want_data = pl.ref_rmap(leaf_subs(sub.args), data)
        bad = pl.nested_same(s.boxes[idx].data, want_data, point)
        if bad:
            rep.fail("subs_wrong_data", c, "box data after subs: %s; expected %s (%s)" % (
                pl.canon_repr(s.boxes[idx].data)[:150], pl.canon_repr(want_data)[:150], bad[:150]))
        else:
            rep.count("container_subs_data_ok")
        want_after = pl.data_symbols(want_data) | (
            pl.data_symbols(pl.ref_rmap(leaf_subs(sub.args), other_data)) if shape != "alone" else set())
        got_after = set(s.free_symbols)
        if got_after != want_after:
            rep.fail("free_symbols_wrong_after_subs", c, "%s vs %s" % (
                sorted(map(str, got_after)), sorted(map(str, want_after))))
        if sub.closes and got_after:
            rep.fail("not_closed_after_substituting_all", c, "left: %s" % sorted(map(str, got_after)))
        elif sub.closes:
            rep.count("E4_closed_ok")
    # ---- lambdify = subs
    xs = sorted(want_free, key=str)
    rng.shuffle(xs)
    vals = [rng.choice([0.5, 0.25, 1, 2, -1, 0.3, 1.75]) for _ in xs]
    c = dict(case, lambdify=[str(x) for x in xs], values=vals)
    rep.count("style:lambdify")
    rep.case(key + "|lambdify%r" % (vals, ), bool(own))
    if pl.has_str_keys(data):
        rep.count("lambdify_not_called:dict_with_string_keys")
        return
    try:
        lam = d.lambdify(*xs)(*vals)
    except Exception as exc:
        if host == "quantumgate" and isinstance(exc, TypeError) and raised_under_method_of(exc, QuantumGate, "lambdify"):
            rep.fail("quantumgate_with_data:lambdify_raises", c, repr(exc)[:200])             # F4b
        elif types & {"set", "frozenset", "dict"} and own:
            # sympy.lambdify does not print sets and most dicts: an explicit refusal
            rep.count("refusal:lambdify_of_%s:%s" % ("_".join(sorted(types & {"set", "frozenset", "dict"})), exc_sig(exc)))
        elif pl.has_nested_ndarray(data) and own:
            rep.fail("ndarray_inside_container:lambdify", c, repr(exc)[:200])                 # F4l
        elif host == "quantumgate" and isinstance(exc, TypeError) and raised_under_method_of(exc, QuantumGate, "lambdify"):
            rep.fail("quantumgate_with_data:lambdify_raises", c, repr(exc)[:200])             # F4b
        else:
            rep.fail("lambdify_raises:" + exc_sig(exc), c, repr(exc)[:200])
        return
    for sig, text in attr_failures(d, lam, "lambdify"):
        if host == "circuit_pure" and sig == "loses_mixedness:Box":
            sig = "circuit_box_with_data:is_mixed_not_kept"
        rep.fail(sig, c, text)
    if len(lam.boxes) != len(d.boxes):
        return
    want_data = pl.ref_rmap(leaf_subs((list(zip(xs, vals)), )), data)
    bad = pl.nested_same(lam.boxes[idx].data, want_data, {})
    if bad:
        rep.fail("lambdify_differs_from_subs", c, "box data after lambdify: %s; substituted: %s (%s)" % (
            pl.canon_repr(lam.boxes[idx].data)[:150], pl.canon_repr(want_data)[:150], bad[:150]))
    else:
        rep.count("E2_same_diagram")
    if set(lam.free_symbols):
        rep.fail("not_closed_after_lambdify", c, str(lam.free_symbols))


def container_plan(rng, quick):
    """(stream, kind, host) triples: every kind is visited on every run; hosts rotate."""
    plan = []
    for kind in pl.ARRAY_KINDS + pl.SINGLE_KINDS:
        for _ in range(1 if quick else 8):
            plan.append(("array", kind, "tensor"))
    for kind in (["tuple", "nested_tuple"] if quick else
                 ["list", "tuple", "nested_tuple", "deep_mixed", "ndarray_shaped", "tuple_in_list"] * 3):
        plan.append(("array", kind, "mixed"))
    hosts = list(WILD_HOSTS)
    rng.shuffle(hosts)
    i = 0
    for kind in pl.WILD_KINDS + ["tuple", "nested_tuple", "tuple_in_list", "list_in_tuple", "ndarray_shaped",
                                 "tuple_of_ndarrays", "list"]:
        for _ in range(1 if quick else 7):
            plan.append(("wild", kind, hosts[i % len(hosts)]))
            i += 1
    # every host with a tuple and with a set at least once
    for host in WILD_HOSTS:
        plan.append(("wild", rng.choice(["tuple", "nested_tuple", "list_in_tuple"]), host))
        if not quick:
            plan.append(("wild", rng.choice(["set", "dict_of_tuples", "wild"]), host))
    return plan


def container_witnesses():
    """Pinned instances of the region (run through the same checks as the generated ones)."""
    from discopy.tensor import Box, Dim
    a, b, c = pl.symbols(True, 3)
    return [
        lambda: Box("v", Dim(1), Dim(2), (a, 2 * b)),
        lambda: Box("v", Dim(1), Dim(2), (a, 2 * b)) >> Box("m", Dim(2), Dim(2), [[1, c], [c, 0]]),
        lambda: Box("w", Dim(2), Dim(2), [(a, 1), (0, b * c)]),
        lambda: Box("w", Dim(2), Dim(2), ([a, 1], [0, b * c])).dagger() @ Box("v", Dim(1), Dim(2), (c, c + 1)),
    ]


# --------------------------------------------------------------------------- diagrams with bubbles

def bubbles_of(d):
    """Every bubble of `d`, at any nesting depth."""
    out = []
    for b in d.boxes:
        if hasattr(b, "inside"):
            out.append(b)
            out.extend(bubbles_of(b.inside))
    return out


def check_bubble_diagram(rep, d, syms, rng, real, budget, sequences):
    """A tensor diagram containing bubbles (tensor.Bubble carries no data: it REPORTS the symbols
    of the diagram inside and rebuilds itself around the substituted inside).  The property's
    clauses are checked on the composite -- whose free_symbols / subs / lambdify go through the
    generic walk over the boxes, cat.Arrow / monoidal.Diagram -- and E4a at every nesting level."""
    desc = dict(family="bubble", diagram=repr(d)[:600])
    inner = pl.diagram_symbols(d) - pl.outside_symbols(d)
    rep.count("bubble_nesting:%d" % pl.bubble_depth(d))
    rep.count("bubble_layers:%d" % min(len(d.boxes), 4))
    rep.count("bubble_symbols_only_inside:%d" % min(len(inner), 2))
    for k, b in enumerate(bubbles_of(d)):
        for what, x in (("bubble", b), ("inside", b.inside)):
            want = pl.diagram_symbols(b.inside)
            try:
                got = set(x.free_symbols)
            except Exception as exc:
                rep.fail("free_symbols_raises:" + exc_sig(exc), dict(desc, bubble=k, of=what), repr(exc)[:200])
                continue
            rep.case("bubble|%s|level|%d|%s" % (desc["diagram"], k, what), bool(want))
            if got != want:
                rep.fail("free_symbols_wrong:" + what, dict(desc, bubble=k, of=what), "%s reports %s, its boxes contain %s" % (
                    repr(x)[:200], sorted(map(str, got)), sorted(map(str, want))))
    check_diagram(rep, "bubble", d, syms, rng, real, budget)
    if sequences:
        check_sequences(rep, "bubble", d, syms, rng, real)


def bubble_witnesses():
    """Pinned small diagrams with bubbles (in addition to the generator)."""
    from discopy.tensor import Box, Dim, Id
    x0, x1, x2 = pl.symbols(True, 3)
    sq, inc = pl.BUBBLE_FUNCS[0][1], pl.BUBBLE_FUNCS[1][1]
    f = lambda: Box('f', Dim(2), Dim(2), [x0, 1, 0, 2])
    g = lambda: Box('g', Dim(2), Dim(2), [1, x1, x1, 3])
    h = lambda: Box('h', Dim(2), Dim(2, 2), [x2, 1, 0, x1 + 1, 2, 0, 1, x2 ** 2])
    n = lambda: Box('n', Dim(2), Dim(2), [1, 0, 2, 1])
    return [
        ("after_box", lambda: f() >> g().bubble(func=sq, drawing_name="sq")),
        ("numeric_outside", lambda: n() >> g().bubble(func=sq, drawing_name="sq") >> n()),
        ("nested", lambda: n() >> (n() >> g().bubble(func=sq)).bubble(func=inc) >> f()),
        ("whiskered", lambda: h() >> Id(Dim(2)) @ g().bubble(func=inc)),
        ("tensor_of_bubbles", lambda: f().bubble(func=sq) @ g().bubble(func=inc) >> h().dagger()),
        ("redeclared_cod", lambda: f() >> h().bubble(func=sq, cod=Dim(4))),
        ("closed_default_func", lambda: f() >> n().bubble()),
        ("single_bubble", lambda: (f() >> g()).bubble(func=sq)),
    ]


# --------------------------------------------------------------------------- correspondence with the Lean model

NV = 3          # variables of the model's polynomials


def tok_poly(e, syms):
    return pl.poly_tokens(e, syms)


def tok_pdiagram(spec, syms):
    """`<dom> <nlayers> (<left> <right> <bdom> <bcod> <dagger> <n> poly*)*`, dims length-prefixed."""
    def dims(x):
        return " ".join([str(len(x))] + [str(k) for k in x])
    out = [dims(spec["dom"]), str(len(spec["layers"]))]
    for l in spec["layers"]:
        out += [dims(l["left"]), dims(l["right"]), dims(l["dom"]), dims(l["cod"]),
                "1" if l["dagger"] else "0", str(len(l["data"]))]
        out += [tok_poly(e, syms) for e in l["data"]]
    return " ".join(out)


def matrix_tokens(t, syms):
    es = pl.entries(t)
    return " ".join([str(len(es))] + [tok_poly(e, syms) for e in es])


def model_stream(rep, drv, rng, n_cases):
    """Small integer-polynomial tensor diagrams: eval, subs-then-eval, free symbols on discopy
    and on the Lean model, compared exactly (canonical polynomial normal form)."""
    syms = pl.symbols(True, NV)
    lines, reals, cases = [], [], []
    t0 = time.time()
    for _ in range(n_cases):
        g = pl.TensorGen(random.Random(rng.getrandbits(64)), syms, polyonly=True, maxdim=6)
        d, spec = g.diagram(g.rng.randint(1, 3), plain_only=True)
        tok = tok_pdiagram(spec, syms)
        eg = pl.ExprGen(g.rng, syms)
        vi = g.rng.randrange(NV)
        repl = eg.int_poly() if g.rng.random() < 0.5 else sympy.Integer(g.rng.randint(-2, 3))
        reqs = [
            ("peval %s" % tok, lambda d=d: "ok " + matrix_tokens(d.eval(), syms)),
            ("pfree %s" % tok, lambda d=d: "ok " + " ".join(
                [str(len(d.free_symbols))] + sorted(str(syms.index(s)) for s in d.free_symbols))),
            ("psubseval %d %s %s" % (vi, tok_poly(repl, syms), tok),
             lambda d=d, vi=vi, repl=repl: "ok " + matrix_tokens(d.subs(syms[vi], repl).eval(), syms)),
            ("pevalsubs %d %s %s" % (vi, tok_poly(repl, syms), tok),
             lambda d=d, vi=vi, repl=repl: "ok " + " ".join(
                 [str(len(pl.entries(d.eval())))] + [tok_poly(sympy.sympify(e).subs(syms[vi], repl), syms)
                                                    for e in pl.entries(d.eval())])),
        ]
        for line, fn in reqs:
            lines.append(line)
            cases.append(dict(diagram=repr(d)[:300], request=line[:400]))
            try:
                reals.append(fn())
            except Exception as exc:
                reals.append("err " + err_class(exc))
    answers = drv.ask_many(lines)
    for line, case, real, model in zip(lines, cases, reals, answers):
        stream = "model:" + line.split(" ")[0]
        rep.count(stream)
        rep.case(line, True)
        if real != model:
            rep.disagree(stream, case, real[:400], model[:400])
    rep.extra["model_stream_s"] = round(time.time() - t0, 2)


def tok_layer(l, syms):
    def dims(x):
        return " ".join([str(len(x))] + [str(k) for k in x])
    return " ".join([dims(l.get("left", [])), dims(l.get("right", [])), dims(l["dom"]), dims(l["cod"]),
                     "1" if l["dagger"] else "0", str(len(l["data"]))] + [tok_poly(e, syms) for e in l["data"]])


def tok_xdiagram(dom, xlayers, syms):
    """`<dom> <nlayers> xlayer*` (Driver/ParamCmd.lean): plain boxes and single-wire bubbles."""
    def dims(x):
        return " ".join([str(len(x))] + [str(k) for k in x])
    out = [dims(dom), str(len(xlayers))]
    for l in xlayers:
        if l["kind"] == "bubble":
            out += [dims([]), dims([]), "1", dims(l["dom"]), dims(l["cod"]),
                    " ".join([str(len(l["func"]))] + [str(c) for c in l["func"]]),
                    str(len(l["inside"]))] + [tok_layer(x, syms) for x in l["inside"]]
        else:
            out += [dims([]), dims([]), "0", dims(l["dom"]), dims(l["cod"]),
                    "1" if l["dagger"] else "0", str(len(l["data"]))] + [tok_poly(e, syms) for e in l["data"]]
    return " ".join(out)


def bubble_model_case(rng, syms, func_rng=None):
    """pre? >> inside.bubble(func) >> post?  with integer-polynomial boxes, `func` a polynomial with
    integer coefficients given to both sides as its coefficient list.  func_rng (default: rng):
    source of the coefficients -- equal `rng` seeds with different `func_rng` give diagrams that
    differ in the bubble's function only (equal repr, name, boxes)."""
    g = pl.TensorGen(rng, syms, polyonly=True, maxdim=6)
    a, b = rng.choice([1, 2, 2, 3]), rng.choice([1, 2, 2])
    composite = rng.random() < 0.3
    g.maxdeg = 1 if composite else 2
    fr = func_rng or rng
    deg = fr.randint(1, 2 if composite else 3)
    cs = [fr.choice([-2, -1, 0, 1, 1, 2]) for _ in range(deg)] + [fr.choice([-1, 1, 2])]

    def func(v, cs=tuple(cs)):
        return sum(c * v ** k for k, c in enumerate(cs))
    da, db = ([a] if a > 1 else []), ([b] if b > 1 else [])
    if composite:
        m = 2
        b1, s1 = g.box(da, [m])
        b2, s2 = g.box([m], db, symbolic=rng.random() < 0.7)
        inside, ispec = b1 >> b2, [s1, s2]
    else:
        inside, ispec = g.box(da, db)
        ispec = [ispec]
    d = inside.bubble(func=func, drawing_name="p")
    xl = [dict(kind="bubble", dom=da, cod=db, func=cs, inside=ispec)]
    dom = list(da)
    shape = rng.choice(["alone", "before", "after", "both"])
    if shape in ("before", "both"):
        n = rng.choice([1, 2, 3])
        pre, sp = g.box([n] if n > 1 else [], da, symbolic=rng.random() < 0.7)
        d, xl, dom = pre >> d, [dict(sp, kind="box")] + xl, ([n] if n > 1 else [])
    if shape in ("after", "both"):
        n = rng.choice([1, 2])
        post, sp = g.box(db, [n] if n > 1 else [], symbolic=rng.random() < 0.7)
        d, xl = d >> post, xl + [dict(sp, kind="box")]
    return d, dom, xl, "%s:%s:deg%d" % (shape, "composite" if composite else "box", len(cs) - 1)


def bubble_model_stream(rep, drv, rng, n_cases):
    """Diagrams  pre? >> inside.bubble(polynomial) >> post?  with integer-polynomial boxes, discopy
    against the Lean model (Model/ParamXSyms.lean), compared exactly:
      xfree      d.free_symbols              (cat.Arrow.free_symbols over boxes AND bubbles)
      xsubsfree  d.subs(x_i, q).free_symbols
      xsubseval  d.subs(x_i, q).eval()       (tensor.Bubble.subs rebuilds the bubble around inside.subs)"""
    syms = pl.symbols(True, NV)
    lines, reals, cases = [], [], []
    t0 = time.time()

    def free_tokens(x):
        return "ok " + " ".join([str(len(x.free_symbols))] + sorted(str(syms.index(s)) for s in x.free_symbols))
    for _ in range(n_cases):
        r = random.Random(rng.getrandbits(64))
        d, dom, xl, kind = bubble_model_case(r, syms)
        tok = tok_xdiagram(dom, xl, syms)
        inner = pl.diagram_symbols(d) - pl.outside_symbols(d)
        rep.count("bubble_model:%s:%s" % (kind.split(":deg")[0], "symbol_only_inside" if inner else "shared"))
        eg = pl.ExprGen(r, syms)
        # a variable inside the bubble whenever there is one
        inside_syms = sorted(inner or pl.diagram_symbols(d), key=str)
        vi = syms.index(r.choice(inside_syms)) if inside_syms and r.random() < 0.8 else r.randrange(NV)
        repl = eg.int_poly(1) if r.random() < 0.4 else sympy.Integer(r.randint(-2, 3))
        q = tok_poly(repl, syms)
        reqs = [
            ("xfree %s" % tok, lambda d=d: free_tokens(d)),
            ("xsubsfree %d %s %s" % (vi, q, tok), lambda d=d, vi=vi, repl=repl: free_tokens(d.subs(syms[vi], repl))),
            ("xsubseval %d %s %s" % (vi, q, tok),
             lambda d=d, vi=vi, repl=repl: "ok " + matrix_tokens(d.subs(syms[vi], repl).eval(), syms)),
        ]
        for line, fn in reqs:
            lines.append(line)
            cases.append(dict(diagram=repr(d)[:300], kind=kind, request=line[:400]))
            try:
                reals.append(fn())
            except Exception as exc:
                reals.append("err " + err_class(exc))
    answers = drv.ask_many(lines)
    for line, case, real, model in zip(lines, cases, reals, answers):
        stream = "model:" + line.split(" ")[0]
        rep.count(stream)
        rep.case(line, True)
        if real != model:
            rep.disagree(stream, case, real[:400], model[:400])
    rep.extra["bubble_model_stream_s"] = round(time.time() - t0, 2)


def seq_model_stream(rep, drv, rng, n_cases):
    """Sequences on small integer-polynomial tensor diagrams, discopy against the Lean model of the
    diagram WITH its redundant copies (Model/ParamSeq.lean), compared exactly:
      psubs2eval  d.subs(x_i, q).subs(x_j, r).eval()
      psliceeval  d.subs(x_i, q)[a:b].eval()         (also empty and out-of-range slices)
      pviews      the data of the boxes of d.subs(x_i, q) read from .boxes and from .layers, offsets"""
    syms = pl.symbols(True, NV)
    lines, reals, cases = [], [], []

    def data_tokens(boxes):
        return " ".join([str(len(boxes))] + [
            " ".join([str(len(pl.flat_data(b.data)))] + [tok_poly(e, syms) for e in pl.flat_data(b.data)])
            for b in boxes])
    for _ in range(n_cases):
        g = pl.TensorGen(random.Random(rng.getrandbits(64)), syms, polyonly=True, maxdim=6)
        d, spec = g.diagram(g.rng.randint(2, 3), plain_only=True)
        tok = tok_pdiagram(spec, syms)
        eg = pl.ExprGen(g.rng, syms)
        n = len(d.boxes)
        vi, vj = g.rng.randrange(NV), g.rng.randrange(NV)
        q = eg.int_poly() if g.rng.random() < 0.6 else sympy.Integer(g.rng.randint(-2, 3))
        r = eg.int_poly() if g.rng.random() < 0.4 else sympy.Integer(g.rng.randint(-2, 3))
        a = g.rng.randint(0, n + 1)
        b = g.rng.randint(0, n + 2)
        reqs = [
            ("psubs2eval %d %s %d %s %s" % (vi, tok_poly(q, syms), vj, tok_poly(r, syms), tok),
             lambda d=d, vi=vi, vj=vj, q=q, r=r: "ok " + matrix_tokens(
                 d.subs(syms[vi], q).subs(syms[vj], r).eval(), syms)),
            ("psliceeval %d %s %d %d %s" % (vi, tok_poly(q, syms), a, b, tok),
             lambda d=d, vi=vi, q=q, a=a, b=b: "ok " + matrix_tokens(d.subs(syms[vi], q)[a:b].eval(), syms)),
            ("pviews %d %s %s" % (vi, tok_poly(q, syms), tok),
             lambda d=d, vi=vi, q=q: (lambda s: "ok %s %s %s" % (
                 data_tokens(s.boxes), data_tokens([box for _, box, _ in s.layers.boxes]),
                 " ".join([str(len(s.offsets))] + [str(o) for o in s.offsets])))(d.subs(syms[vi], q))),
        ]
        for line, fn in reqs:
            lines.append(line)
            cases.append(dict(diagram=repr(d)[:300], request=line[:400]))
            try:
                reals.append(fn())
            except Exception as exc:
                reals.append("err " + err_class(exc))
    answers = drv.ask_many(lines)
    for line, case, real, model in zip(lines, cases, reals, answers):
        stream = "model:" + line.split(" ")[0]
        rep.count(stream)
        rep.case(line, True)
        if real != model:
            rep.disagree(stream, case, real[:400], model[:400])


def tok_pdata(data, syms):
    """Token form of nested data for the driver (Driver/ParamCmd.lean `pdata`), members in Python's
    own iteration order (for a dict: its values)."""
    if isinstance(data, np.ndarray):
        if data.shape == ():
            return "Z " + tok_poly(data.item(), syms)
        kids = list(data)
        return " ".join(["N ndarray", str(len(kids))] + [tok_pdata(k, syms) for k in kids])
    if isinstance(data, dict):
        return " ".join(["N dict", str(len(data))] + [tok_pdata(v, syms) for v in data.values()])
    if isinstance(data, (list, tuple, set, frozenset)):
        return " ".join(["N " + type(data).__name__, str(len(data))] + [tok_pdata(v, syms) for v in data])
    return "L " + tok_poly(data, syms)


def iter_entries(data):
    """Entries in iteration order (no sets)."""
    if isinstance(data, np.ndarray):
        return data.flatten().tolist()
    if isinstance(data, dict):
        return [x for v in data.values() for x in iter_entries(v)]
    if isinstance(data, (list, tuple)):
        return [x for v in data for x in iter_entries(v)]
    return [data]


def data_model_stream(rep, drv, rng, n_cases):
    """Nested box data with integer-polynomial entries on discopy (boxes of cat / monoidal / rigid /
    tensor) and on the Lean model of `recursive_free_symbols` and `rmap` (Model/ParamData.lean):
      dfree      the free symbols the box reports
      dsubsfree  those of box.subs(x_i, q)
      dsubs      the entries of the data of box.subs(x_i, q), in order (data without sets)"""
    from discopy import cat, monoidal, rigid, tensor
    syms = pl.symbols(True, NV)
    fixed = {f.get("id") for f in load_findings(PROP) if f.get("status") == "fixed"}
    z = int("F4z" in fixed)
    rep.extra["model_fix_flag(F4z)"] = z
    hosts = [
        ("cat", lambda data: cat.Box("v", cat.Ob("x"), cat.Ob("y"), data=data)),
        ("monoidal", lambda data: monoidal.Box("v", monoidal.Ty("x"), monoidal.Ty("y"), data=data)),
        ("rigid", lambda data: rigid.Box("v", rigid.Ty("x"), rigid.Ty("y"), data=data)),
        ("tensor", lambda data: tensor.Box("v", tensor.Dim(2), tensor.Dim(2), data)),
    ]
    kinds = pl.WILD_KINDS + pl.ARRAY_KINDS + pl.SINGLE_KINDS
    lines, reals, cases = [], [], []
    for n in range(n_cases):
        r = random.Random(rng.getrandbits(64))
        eg = pl.ExprGen(r, syms)
        kind = kinds[n % len(kinds)] if n < 2 * len(kinds) else r.choice(kinds)

        def leaf():
            return eg.int_poly() if r.random() < 0.6 else sympy.Integer(r.choice([0, 1, 2, -1]))
        if kind in pl.ARRAY_KINDS:
            dims = r.choice([[2, 2], [2, 3], [2, 2, 2], [3]])
            data = pl.array_container(r, [leaf() for _ in range(int(np.prod(dims)))], dims, kind)
        elif kind in pl.SINGLE_KINDS:
            data = pl.array_container(r, [eg.int_poly() + r.choice(syms)], [1], kind)
        else:
            data = pl.wild_container(r, leaf, kind)
        hname, mk = hosts[r.randrange(len(hosts))]
        rep.count("model_data:" + kind)
        tok = tok_pdata(data, syms)
        vi = r.randrange(NV)
        # a monomial or a constant: sympy then keeps every substituted entry in expanded form, so
        # its free symbols are those of the polynomial's normal form
        q = r.choice([sympy.Integer(r.randint(-2, 3)), syms[r.randrange(NV)],
                      r.choice([2, -1, 3]) * syms[r.randrange(NV)], syms[r.randrange(NV)] * syms[r.randrange(NV)]])

        def idx(fs):
            return " ".join([str(len(fs))] + [str(i) for i in sorted(syms.index(x) for x in fs)])
        reqs = [("dfree %d %s" % (z, tok), lambda mk=mk, data=data: "ok " + idx(mk(data).free_symbols)),
                ("dsubsfree %d %d %s %s" % (z, vi, tok_poly(q, syms), tok),
                 lambda mk=mk, data=data, vi=vi, q=q: "ok " + idx(mk(data).subs(syms[vi], q).free_symbols))]
        if not pl.container_types(data) & {"set", "frozenset"}:
            reqs.append(("dsubs %d %d %s %s" % (z, vi, tok_poly(q, syms), tok),
                         lambda mk=mk, data=data, vi=vi, q=q: (lambda es: "ok " + " ".join(
                             [str(len(es))] + [tok_poly(e, syms) for e in es]))(
                                 iter_entries(mk(data).subs(syms[vi], q).data))))
        for line, fn in reqs:
            lines.append(line)
            cases.append(dict(host=hname, container=kind, data=pl.canon_repr(data)[:300], request=line[:400]))
            try:
                reals.append(fn())
            except Exception as exc:
                reals.append("err " + err_class(exc))
    answers = drv.ask_many(lines)
    for line, case, real, model in zip(lines, cases, reals, answers):
        stream = "model:" + line.split(" ")[0]
        rep.count(stream)
        rep.case(line, True)
        if real != model:
            rep.disagree(stream, case, real[:400], model[:400])


def class_records():
    """(class token, constructor thunk) for every box class whose subs is modelled."""
    from discopy import tensor
    from discopy.quantum import zx, Rx, Ry, Rz, CRz, CRx, CU1, Bits
    from discopy.quantum.gates import scalar, MixedScalar, sqrt, ClassicalGate, Copy
    x = sympy.Symbol("x0", real=True)
    D = tensor.Dim
    return [
        ("tensorBox", lambda: tensor.Box("f", D(2), D(2), [x, 0, 0, 1])),
        ("tensorBox", lambda: tensor.Box("f", D(2), D(3), [x, 0, 0, 1, 2, 3]).dagger()),
        ("rotation", lambda: Rx(x)), ("rotation", lambda: Ry(x + 1)), ("rotation", lambda: Rz(2 * x)),
        ("rotation", lambda: CRz(x)), ("rotation", lambda: CRx(x)), ("rotation", lambda: CU1(x)),
        ("scalar", lambda: scalar(x)), ("scalar", lambda: scalar(x, is_mixed=True)),
        ("mixedScalar", lambda: MixedScalar(x)), ("sqrt", lambda: sqrt(x)),
        ("classicalGate", lambda: ClassicalGate("g", 1, 1, [x, 0, 0, 1])),
        ("classicalGate", lambda: ClassicalGate("g", 1, 2, [x, 0, 0, 1, 0, 0, 1, 1]).dagger()),
        ("classicalGate", lambda: Copy()), ("classicalGate", lambda: Bits(1)),
        ("zxSpider", lambda: zx.Z(1, 2, x)), ("zxSpider", lambda: zx.X(2, 1, x)),
        ("zxScalar", lambda: zx.scalar(x)),
    ]


def attr_tokens(b):
    a = pl.box_attrs(b)
    return "%s %d %d %d %d" % (a["kind"], len(b.dom), len(b.cod), 1 if a["dagger"] else 0,
                               {None: 2, False: 0, True: 1}[a["mixed"]])


def fix_flags():
    """The model transcribes the code as found; once a finding is recorded as `fixed` (the fix
    commit is in /repo) the transcription of the repaired constructor call is selected."""
    fixed = {f.get("id") for f in load_findings(PROP) if f.get("status") == "fixed"}
    return "%d %d %d" % ("F5c" in fixed, "F5d" in fixed, "F5h" in fixed)


def class_stream(rep, drv):
    """The attribute record each class's `subs` rebuilds (kind, arity, dagger flag, mixedness)
    on discopy and on the model's transcription of the same constructor calls."""
    x = sympy.Symbol("x0", real=True)
    flags = fix_flags()
    rep.extra["model_fix_flags(F5c,F5d,F5h)"] = flags
    lines, reals = [], []
    for cls, mk in class_records():
        b = mk()
        for hit in (1, 0):
            var = x if hit else sympy.Symbol("x1", real=True)
            hit_now = int(var in b.free_symbols)
            lines.append("csubs %s %s %d %d %d %s" % (
                flags, cls, hit_now, int(b.data is not None), int(bool(b.free_symbols)), attr_tokens(b)))
            try:
                reals.append("ok " + attr_tokens(b.subs(var, 2)))
            except Exception as exc:
                reals.append("err " + err_class(exc))
    answers = drv.ask_many(lines)
    for line, real, model in zip(lines, reals, answers):
        rep.count("model:csubs")
        rep.case(line, True)
        if real != model:
            rep.disagree("model:csubs", dict(request=line), real, model)


# --------------------------------------------------------------------------- run

def run(tier, seed, replay=None):
    rep = Report(PROP, tier, seed)
    quick = tier == "quick"
    rep.rule = ("random parametrised diagrams of four families (tensor 1-4 layers with list / nested / "
                "tuple / ndarray data and daggered boxes; pure circuits and mixed circuits of 1-2 qubits "
                "over rotations, controlled rotations, scalars, classical gates; ZX diagrams over Z/X "
                "spiders, Hadamards, scalars), each under 3-8 ways of supplying a substitution (number, "
                "symbol, expression, list of pairs closing / not closing, absent symbol) and one "
                "lambdify call; non-trivial = >= 2 boxes, >= 1 free symbol, substitution hits it; "
                "distinct by (diagram, substitution).  SEQUENCES on one diagram (families seq_*): a first "
                "substitution (number / expression in other or fresh symbols / expression in the symbol "
                "itself / list of pairs), THEN a second subs, lambdify of the remaining symbols, slicing "
                "[i:j], composing two slices and lambdifying, each compared with the one-shot result and "
                "with the evaluation; lambdify then subs; every result read through .boxes, .layers, "
                "iteration, d[i], d[i:i+1] (one value, well-formed); subs repeated (same result, argument "
                "untouched).  HISTORIES: 2-3 diagrams that look alike (same shape, names, gate classes; "
                "numeric constants agreeing on 2/3/5/9 significant digits, or independent data, or the "
                "same diagram built twice) substituted and lambdified one after another in both orders, "
                "each result compared with sympy's subs of ITS OWN data (1e-12) and through evaluation.  "
                "CONTAINERS (family containers): the same entries handed to tensor.Box / ClassicalGate as tuple, "
                "nested tuples, tuple-in-list, list-in-tuple, deep mixes, ndarray flat / shaped / inside a list or "
                "tuple, 0-d array, bare expression (every kind on every run), alone and composed, under the same "
                "oracle; nested data that is not an array (set, frozenset, dict of lists / tuples / sets / arrays, "
                "nested dicts, sets of tuples, random mixes) as data of cat / monoidal / rigid / tensor / circuit "
                "boxes and QuantumGate(data=...): free symbols = symbols of the entries given, subs maps the "
                "entries and keeps everything else, lambdify = subs")
    rep.partial = [
        "sympy's subs / lambdify / simplify are outside the model (oracle only)",
        "the Lean polynomial instance (Model/Param.lean Poly) is not proved to be a commutative "
        "ring; it is validated against sympy by the model streams",
        "ZX diagrams have no evaluation in discopy 0.3.5: they are evaluated by the standard "
        "interpretation written in harness/paramlib.py, composed by discopy's tensor.Functor",
        "sequences: the model (Model/ParamSeq.lean) covers the redundant record boxes/offsets/layers and "
        "subs, lambdify, slicing [i:j] for non-negative indices without step on tensor diagrams; "
        "iteration, d[i], str and the sequences on circuits / ZX diagrams are oracle-only",
        "containers: the model (Model/ParamData.lean) covers free symbols and rsubs of nested data (streams "
        "dfree / dsubsfree / dsubs); lambdify on nested data goes through sympy.lambdify (oracle only; its "
        "refusals of sets and dicts are counted, dicts with string keys are not lambdified); boxes whose "
        "data is not an array have no evaluation: their data is compared instead",
    ]
    rep.assumptions = [
        "lambdify is called with symbol lists covering every free symbol (sympy.lambdify cannot "
        "leave symbols open); box data never contains Python strings",
        "numeric comparison: entries evaluated at random rational points, tolerance 1e-9 relative "
        "to max(1, |entry|); exact comparison by sympy.simplify on tensor diagrams where cheap",
    ]
    rep.lean = lean_obligations(PROP, thorough=not quick)
    rng = random.Random(seed)
    drv = Driver()
    try:
        class_stream(rep, drv)
        model_stream(rep, drv, random.Random(rng.getrandbits(64)), 40 if quick else 300)
        seq_model_stream(rep, drv, random.Random(seed * 1000003 + 141), 30 if quick else 250)
        data_model_stream(rep, drv, random.Random(seed * 1000003 + 142), 60 if quick else 500)
        bubble_model_stream(rep, drv, random.Random(seed * 1000003 + 145), 16 if quick else 200)
    finally:
        drv.close()
    t_fam = {}
    t0 = time.time()
    for fid, fam, mk in witnesses():
        r = random.Random(rng.getrandbits(64))
        rep.count("witness:" + fid)
        check_diagram(rep, fam, mk(), pl.symbols(True, 3), r, True, 8)
    for _ in range(3 if quick else 30):
        check_ndarray_data(rep, random.Random(rng.getrandbits(64)), pl.symbols(True, 3))
    t_fam["witnesses"] = round(time.time() - t0, 2)
    plan = [("tensor", 26, 4), ("pure", 16, 4), ("mixed", 10, 3), ("zx", 18, 4)] if quick else \
           [("tensor", 160, 8), ("pure", 90, 8), ("mixed", 50, 8), ("zx", 110, 8)]
    for fam, n, budget in plan:
        t0 = time.time()
        for k in range(n):
            r = random.Random(rng.getrandbits(64))
            real = (fam in ("mixed", )) or r.random() < 0.5
            syms = pl.symbols(real, 3)
            if fam == "tensor":
                g = pl.TensorGen(r, syms)
                d, _ = g.diagram(r.randint(1, 4))
            elif fam in ("pure", "mixed"):
                g = pl.CircuitGen(r, syms, mixed=(fam == "mixed"), max_qubits=2)
                d, _ = g.circuit(r.randint(2, 5 if fam == "pure" else 4))
            else:
                d = pl.ZXGen(r, syms).diagram(r.randint(1, 5))
            rep.count("boxes:%s" % min(len(d.boxes), 6))
            rep.sample(dict(family=fam, diagram=repr(d)[:300]))
            check_diagram(rep, fam, d, syms, r, real, budget)
        t_fam[fam] = round(time.time() - t0, 2)
    # sequences of operations and histories: own generator, so that the cases of the families
    # above stay those of earlier runs of the same seed
    srng = random.Random(seed * 1000003 + 14)
    plan = [("tensor", 10), ("pure", 6), ("mixed", 3), ("zx", 6)] if quick else \
           [("tensor", 90), ("pure", 60), ("mixed", 30), ("zx", 60)]
    t0 = time.time()
    for fam, n in plan:
        for k in range(n):
            r = random.Random(srng.getrandbits(64))
            real = (fam in ("mixed", )) or r.random() < 0.5
            syms = pl.symbols(real, 3)
            if fam == "tensor":
                d, _ = pl.TensorGen(r, syms).diagram(r.randint(2, 4))
            elif fam in ("pure", "mixed"):
                d, _ = pl.CircuitGen(r, syms, mixed=(fam == "mixed"), max_qubits=2).circuit(
                    r.randint(3, 5 if fam == "pure" else 4))
            else:
                d = pl.ZXGen(r, syms).diagram(r.randint(2, 5))
            check_sequences(rep, fam, d, syms, r, real)
    t_fam["sequences"] = round(time.time() - t0, 2)
    t0 = time.time()
    plan = [("tensor", 5), ("pure", 5), ("mixed", 2), ("zx", 4)] if quick else \
           [("tensor", 50), ("pure", 50), ("mixed", 25), ("zx", 40)]
    for fam, n in plan:
        for k in range(n):
            r = random.Random(srng.getrandbits(64))
            real = (fam in ("mixed", )) or r.random() < 0.5
            check_history(rep, fam, pl.symbols(real, 3), r, real)
    t_fam["histories"] = round(time.time() - t0, 2)
    # containers of box data: own generator
    t0 = time.time()
    crng = random.Random(seed * 1000003 + 143)
    for mk in container_witnesses():
        rep.count("container_witness")
        check_diagram(rep, "tensor", mk(), pl.symbols(True, 3), random.Random(crng.getrandbits(64)), True, 4)
    for stream, kind, host in container_plan(random.Random(crng.getrandbits(64)), quick):
        r = random.Random(crng.getrandbits(64))
        real = host == "mixed" or r.random() < 0.5
        syms = pl.symbols(real, 3)
        if stream == "array":
            check_array_containers(rep, r, syms, real, kind, fam=host, budget=2 if quick else 5, big=not quick)
        else:
            check_wild_containers(rep, r, syms, real, host, kind)
    t_fam["containers"] = round(time.time() - t0, 2)
    # diagrams with bubbles: own generator
    t0 = time.time()
    brng = random.Random(seed * 1000003 + 144)
    for name, mk in bubble_witnesses():
        rep.count("bubble_witness:" + name)
        check_bubble_diagram(rep, mk(), pl.symbols(True, 3), random.Random(brng.getrandbits(64)), True, 3,
                             sequences=False)
    splits = ["inside_only", "nested_only", "inside_only", "shared", "inside_only", "nested_only", "inside_only"]
    for k in range(10 if quick else 90):
        r = random.Random(brng.getrandbits(64))
        real = r.random() < 0.5
        syms = pl.symbols(real, 3)
        g = pl.BubbleGen(r, syms, split=splits[k % len(splits)])
        d, _ = g.diagram(r.randint(2, 3))
        rep.count("bubble_split:" + g.split)
        rep.sample(dict(family="bubble", diagram=repr(d)[:300]))
        check_bubble_diagram(rep, d, syms, r, real, 2 if quick else 5, sequences=(k % 3 == 0))
    t_fam["bubbles"] = round(time.time() - t0, 2)
    rep.extra["family_wall_s"] = t_fam
    return rep.finish()
