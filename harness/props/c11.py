"""C11 — pure circuits evaluate to the unitary they describe.

Correspondence (exact): every array / evaluation pulled from the running discopy is recognised in
ℤ[ζ₈]/2^e (tolerance 1e-9 for the recognition only) and compared token by token with the compiled
Lean model (lean/Model/Gates.lean through `dvdriver`).
Oracle (the property itself, independent numpy + pytket; float comparisons with tolerance 1e-9,
labelled `float_oracle` in the evidence).
"""
import itertools
import random

import numpy as np

import cyc8
import qgen
from common import Driver, Report, lean_obligations, err_class
from qgen import (masked_io, has_f17, has_f2_target, QGen, build, tok, show, std_io, arity, kinds, build_circuit, tok_circuit,
                  show_circuit, product_io, eval_io, close)

PROP = "C11"
TOL = 1e-9


# --------------------------------------------------------------------------- helpers

def rec(m, rows, cols):
    out = cyc8.recognise_matrix(m, rows, cols)
    return out if out is not None else "unrepresentable"


def gate_eval_io(obj):
    return eval_io(obj)


def tket_unitary(name, angle=None):
    from pytket.circuit import Op, OpType
    op = Op.create(getattr(OpType, name)) if angle is None \
        else Op.create(getattr(OpType, name), angle)
    return np.asarray(op.get_unitary(), dtype=complex)


def acts_on(op_io, n, a, b):
    """Independent 'op on qubits a and b of n' in [input, output] order: reshape to a rank-2n
    tensor, place the op's four axes on (a, b) / (n+a, n+b), identity elsewhere."""
    t = np.zeros((2,) * (2 * n), dtype=complex)
    op4 = op_io.reshape(2, 2, 2, 2)
    others = [i for i in range(n) if i not in (a, b)]
    for xa, xb, ya, yb in itertools.product((0, 1), repeat=4):
        for rest in itertools.product((0, 1), repeat=len(others)):
            x, y = [0] * n, [0] * n
            x[a], x[b], y[a], y[b] = xa, xb, ya, yb
            for i, v in zip(others, rest):
                x[i] = y[i] = v
            t[tuple(x) + tuple(y)] = op4[xa, xb, ya, yb]
    return t.reshape(2 ** n, 2 ** n)


# --------------------------------------------------------------------------- the streams

class Check:
    def __init__(self, rep, drv, rng, tier):
        self.rep, self.drv, self.rng, self.tier = rep, drv, rng, tier
        self.float_cmp = 0
        self.switches = drv.ask("switches")

    # ---- single boxes: correspondence + per-gate oracle

    def one_gate(self, g, stream):
        rep = self.rep
        case = dict(gate=show(g), stream=stream)
        obj = build(g)
        d, c = arity(g)
        exact = g[0] != "R" or g[2] is not None
        for kd in kinds(g):
            rep.count("kind:" + kd)
        key = "%s|%s" % (stream, show(g))
        rep.case(key, not (g[0] == "R" and g[3] == 0))
        real = eval_io(obj)
        if exact and self._exact(g):
            lines = ["geval " + tok(g), "garr " + tok(g)]
            m_eval, m_arr = self.drv.ask_many(lines)
            r_eval = rec(real, 2 ** d, 2 ** c)
            if r_eval != m_eval:
                rep.disagree("geval", case, r_eval, m_eval)
            if hasattr(obj, "array"):          # Swap has none: the functor moves axes instead
                arr = np.asarray(obj.array, dtype=complex)
                r_arr = rec(arr, 2 ** d, 2 ** c)
                if r_arr != m_arr:
                    rep.disagree("garr", case, r_arr, m_arr)
            rep.count("exact_model_comparisons", 2)
        # oracle 1: the box evaluates to the standard matrix (independent formula)
        want = std_io(g)
        self.float_cmp += 1
        if not close(real, want, TOL):
            if has_f17(g) and close(real, masked_io(g, f17=True), TOL):
                rep.fail("gate_is_transpose_of_tket:" + ("Y" if "Y" in kinds(g) else "Ry"), case,
                         "evaluates to the transpose of the standard matrix in [input, output] order")
            elif has_f2_target(g) and close(real, masked_io(g, f17=True, f2=True), TOL):
                rep.fail("controlled_ignores_dagger_flag_of_target", case,
                         "Controlled(U†) evaluates to Controlled(U): the target's dagger flag is ignored")
            else:
                rep.fail("gate_differs_from_standard_matrix:" + kinds(g)[-1], case,
                         "max |Δ| = %.3g" % float(np.max(np.abs(real - want))))
        # oracle 2: dagger of the box evaluates to the conjugate transpose of its evaluation
        dag = eval_io(obj.dagger())
        self.float_cmp += 1
        if not close(dag, real.conj().T, TOL):
            if has_f2_target(g):
                rep.fail("dagger_eval_not_adjoint:Controlled(flagged QuantumGate)", case,
                         "c.dagger().eval() != c.eval().dagger()")
            else:
                rep.fail("dagger_eval_not_adjoint:" + kinds(g)[0], case,
                         "c.dagger().eval() != c.eval().dagger()")
        # oracle 3: gates are unitary, kets/bras are basis vectors (covered by std_io), controlled spec
        if g[0] not in "KBS" and d == c:
            self.float_cmp += 1
            if not close(real @ real.conj().T, np.eye(2 ** d), TOL):
                rep.fail("gate_not_unitary:" + kinds(g)[-1], case, "U U† != 1")
        if g[0] == "C":
            target = eval_io(build(g[1]))
            self.float_cmp += 1
            if not close(real, qgen.controlled_u(target.T).T, TOL):
                if has_f2_target(g) and g[1][0] == "D":
                    rep.fail("controlled_ignores_dagger_flag_of_target", case,
                             "Controlled(t).eval() is not the controlled version of t.eval()")
                else:
                    rep.fail("controlled_not_controlled_version:" + kinds(g)[-1], case,
                             "Controlled(t).eval() is not |0><0|(x)1 + |1><1|(x)t.eval()")

    def _exact(self, g):
        k = g[0]
        if k == "R":
            return g[2] is not None and (g[1] == "CU1" or g[2] % 2 == 0)
        if k in "DC":
            return self._exact(g[1])
        if k == "S":
            return g[1] is not None
        return True

    # ---- named table against pytket (and the transcription in the model against pytket)

    def tket_table(self):
        rep = self.rep
        pairs = [("H", "H"), ("S", "S"), ("T", "T"), ("X", "X"), ("Y", "Y"), ("Z", "Z"),
                 ("CX", "CX"), ("CZ", "CZ"), ("SWAP", "SWAP")]
        for name, tk in pairs:
            u = tket_unitary(tk)
            n = u.shape[0]
            model = self.drv.ask("tket " + tk)
            real = rec(u, n, n)
            rep.case("tket|" + tk, True)
            rep.count("tket_transcription_checked")
            if real != model:
                rep.disagree("tket-transcription", dict(op=tk), real, model)
            g = ("W",) if name == "SWAP" else ("N", name)
            got = eval_io(build(g))
            self.float_cmp += 1
            if not close(got, u.T, TOL):
                if close(got, u, TOL):
                    rep.fail("gate_is_transpose_of_tket:" + name, dict(gate=name),
                             "%s.eval() is the transpose of pytket's %s in [input, output] order "
                             "(Ket(0) >> %s gives %s)" % (name, tk, name, np.round(got[0], 3).tolist()))
                else:
                    rep.fail("gate_differs_from_tket:" + name, dict(gate=name), "differs from pytket")
        for tk in ("Sdg", "Tdg", "CY", "CS", "CSdg"):
            u = tket_unitary(tk)
            real, model = rec(u, *u.shape), self.drv.ask("tket " + tk)
            rep.case("tket|" + tk, True)
            rep.count("tket_transcription_checked")
            if real != model:
                rep.disagree("tket-transcription", dict(op=tk), real, model)
        # daggers and controlled gates against the identically named tket ops
        for desc, tk in ((("D", ("N", "S")), "Sdg"), (("D", ("N", "T")), "Tdg"),
                         (("C", ("N", "Y")), "CY"), (("C", ("N", "S")), "CS"),
                         (("C", ("D", ("N", "S"))), "CSdg"), (("D", ("C", ("N", "S"))), "CSdg"),
                         (("C", ("N", "Z")), "CZ"), (("C", ("N", "X")), "CX")):
            u = tket_unitary(tk)
            got = eval_io(build(desc))
            rep.case("tket|%s|%s" % (show(desc), tk), True)
            self.float_cmp += 1
            if not close(got, u.T, TOL):
                if has_f17(desc) and close(got, masked_io(desc, f17=True), TOL):
                    rep.fail("gate_is_transpose_of_tket:Y", dict(gate=show(desc)), "differs from pytket " + tk)
                elif has_f2_target(desc) and close(got, masked_io(desc, f2=True), TOL):
                    rep.fail("controlled_ignores_dagger_flag_of_target", dict(gate=show(desc)),
                             "differs from pytket " + tk)
                else:
                    rep.fail("gate_differs_from_tket:" + tk, dict(gate=show(desc)), "differs from pytket")

    def tket_rotations(self, n_random):
        rep = self.rep
        phases = [k / 8.0 for k in range(-16, 17)]
        phases += [round(self.rng.uniform(-3, 3), 6) for _ in range(n_random)]
        for kind in qgen.ROT1 + qgen.ROT2:
            for ph in phases:
                u = tket_unitary(kind, 2 * ph)          # tket angles are half turns
                got = eval_io(build(("R", kind, None, ph)))
                rep.case("tketrot|%s|%r" % (kind, ph), ph % 1 != 0)
                rep.count("tket_rotation_checked")
                self.float_cmp += 1
                # tket's Rx/Ry/Rz(α+2) = -Rx/Ry/Rz(α) exactly as discopy's: compare as matrices
                if not close(got, u.T, TOL):
                    if kind == "Ry" and close(got, u, TOL):
                        rep.fail("gate_is_transpose_of_tket:Ry", dict(gate="Ry(%r)" % ph),
                                 "Ry(φ).eval() is the transpose of pytket's Ry(2φ): it is Ry(-φ)")
                    else:
                        rep.fail("gate_differs_from_tket:" + kind, dict(gate="%s(%r)" % (kind, ph)),
                                 "differs from pytket %s(%r)" % (kind, 2 * ph))

    # ---- circuits

    def circuit_case(self, exact, given=None, twins=0.0, unitary=False, stream="circuit"):
        rep = self.rep
        if given is None:
            gen = QGen(random.Random(self.rng.getrandbits(64)), exact=exact)
            n_in, layers = gen.circuit(twins=twins, unitary=unitary)
        else:
            n_in, layers = given
        rep.count("stream:" + stream)
        case = dict(circuit=show_circuit(n_in, layers), exact=exact, stream=stream)
        c = build_circuit(n_in, layers)
        n_out = len(c.cod)
        real = eval_io(c)
        allk = [k for _, g, _ in layers for k in kinds(g)]
        for k in set(allk):
            rep.count("circuit_has:" + k)
        rep.count("circuit_depth:%d" % len(layers))
        rep.count("circuit_wires_in:%d" % n_in)
        rep.case(("x|" if exact else "f|") + case["circuit"], len(layers) >= 2)
        rep.sample(case)
        real_dag = eval_io(c.dagger())
        if exact:
            lines = ["ceval %d %s" % (n_in, tok_circuit(layers)),
                     "cdageval %d %s" % (n_in, tok_circuit(layers))]
            m1, m2 = self.drv.ask_many(lines)
            r1, r2 = rec(real, 2 ** n_in, 2 ** n_out), rec(real_dag, 2 ** n_out, 2 ** n_in)
            if r1 != m1:
                rep.disagree("ceval", case, r1[:300], m1[:300])
            if r2 != m2:
                rep.disagree("cdageval", case, r2[:300], m2[:300])
            rep.count("exact_model_comparisons", 2)
        # oracle: ordered product of the standard matrices of its gates on the stated qubits
        want = product_io(n_in, layers, std_io)
        self.float_cmp += 1
        if not close(real, want, TOL):
            f17 = any(has_f17(g) for _, g, _ in layers)
            f2 = any(has_f2_target(g) for _, g, _ in layers)
            sig = None
            for m17, m2 in ((True, False), (False, True), (True, True)):
                if (m17 and not f17) or (m2 and not f2):
                    continue
                if close(real, product_io(n_in, layers, lambda g: masked_io(g, m17, m2)), TOL):
                    sig = (m17, m2)
                    break
            if sig is None:
                rep.fail("circuit_eval_not_ordered_product", case,
                         "max |Δ| = %.3g" % float(np.max(np.abs(real - want))))
            else:
                if sig[0]:
                    rep.fail("circuit_eval_with_transposed_gate:Y|Ry", case,
                             "equals the ordered product only with Y / Ry read as their transposes")
                if sig[1]:
                    rep.fail("circuit_eval_with_flag_blind_controlled", case,
                             "equals the ordered product only with Controlled(U†) read as Controlled(U)")
        # oracle: c >> c.dagger() evaluates to eval(c) . eval(c)^H ("ordered product" + "dagger = conjugate
        # transpose"), which is the identity for a circuit of gates only.  Here every box is directly
        # followed, at the seam, by its own dagger - boxes that discopy's `==` may confuse.
        echo_layers = layers + [(l, ("D", g), r) for l, g, r in reversed(layers)]
        real_echo = eval_io(c >> c.dagger())
        rep.count("echo_checked")
        if exact:
            m3 = self.drv.ask("ceval %d %s" % (n_in, tok_circuit(echo_layers)))
            r3 = rec(real_echo, 2 ** n_in, 2 ** n_in)
            rep.count("exact_model_comparisons")
            if r3 != m3:
                rep.disagree("ceval-echo", case, r3[:300], m3[:300])
        self.float_cmp += 1
        gates_only = not any(k in ("Ket", "Bra", "scalar") for k in allk)
        if gates_only and not close(real_echo, np.eye(2 ** n_in), TOL):
            rep.fail("circuit_then_dagger_not_identity", case,
                     "(c >> c.dagger()).eval() is not the identity although c consists of gates only; "
                     "max |Δ| = %.3g" % float(np.max(np.abs(real_echo - np.eye(2 ** n_in)))))
        elif not close(real_echo, want @ want.conj().T, TOL * max(1.0, float(np.max(np.abs(want))) ** 2)):
            rep.fail("circuit_then_dagger_not_product", case,
                     "(c >> c.dagger()).eval() != eval(c) . eval(c)^H computed independently")
        # oracle: unitary when there is no ket / bra / scalar
        if not any(k in ("Ket", "Bra", "scalar") for k in allk):
            rep.count("unitarity_checked")
            self.float_cmp += 1
            if not close(real @ real.conj().T, np.eye(2 ** n_in), TOL):
                rep.fail("circuit_not_unitary", case, "U U† != 1")
        # oracle: dagger
        self.float_cmp += 1
        if not close(real_dag, real.conj().T, TOL):
            rev = [(l, ("D", g), r) for l, g, r in reversed(layers)]
            predicted = product_io(n_out, rev, lambda g: masked_io(g, True, True))
            if any(has_f2_target(g) for _, g, _ in layers) and close(real_dag, predicted, TOL):
                rep.fail("circuit_dagger_not_adjoint:has Controlled(flagged QuantumGate)", case,
                         "c.dagger().eval() != c.eval().dagger()")
            else:
                rep.fail("circuit_dagger_not_adjoint", case, "c.dagger().eval() != c.eval().dagger()")

    # ---- boxes that compare equal (or print equal) although they denote different matrices,
    #      placed directly after one another

    def adjacent_pairs(self, n_random):
        rng = self.rng
        pairs = []
        for n in ("S", "T"):
            a, b = ("C", ("N", n)), ("C", ("D", ("N", n)))
            pairs += [(a, b), (b, a), (a, ("D", a)), (("D", a), a), (a, a), (b, b)]
            pairs += [(("N", n), ("D", ("N", n))), (("D", ("N", n)), ("N", n))]
        pairs += [(("N", "Y"), ("D", ("N", "Y"))), (("C", ("N", "Y")), ("D", ("C", ("N", "Y"))))]
        for q in qgen.CUSTOM:
            a = ("Q", q)
            pairs += [(a, ("D", a)), (("D", a), a), (("D", a), ("D", a))]
            if qgen.CUSTOM_NQ[q] == 1:
                pairs += [(("C", a), ("C", ("D", a))), (("C", ("D", a)), ("C", a)), (("C", a), ("D", ("C", a)))]
        for g, h in pairs:
            d = arity(g)[0]
            self.circuit_case(True, given=(d, [(0, g, 0), (0, h, 0)]), stream="adjacent-pair")
            self.circuit_case(True, given=(d + 1, [(1, g, 0), (0, h, 1)]) if d == 1 else
                              (d + 1, [(0, g, 1), (0, h, 1)]), stream="adjacent-pair")
        # (controlled) rotations whose phases differ beyond the 3 digits that names print
        deltas = (4e-4, -4e-4, 1e-3, 5e-5)
        for kind in qgen.ROT1 + qgen.ROT2:
            phases = [0.25, 0.2, 1.0, -0.75] + [round(rng.uniform(-2, 2), 3) for _ in range(n_random)]
            for ph in phases:
                ph2 = ph + rng.choice(deltas)
                a, b = ("R", kind, None, ph), ("R", kind, None, ph2)
                d = arity(a)[0]
                self.circuit_case(False, given=(d, [(0, a, 0), (0, b, 0)]), stream="adjacent-near-phase")
                if kind in qgen.ROT1:
                    ca, cb = ("C", a), ("C", b)
                    self.circuit_case(False, given=(2, [(0, ca, 0), (0, cb, 0)]), stream="adjacent-near-phase")
                    self.circuit_case(False, given=(3, [(0, ca, 1), (1, cb, 0), (0, ("D", ca), 1)]),
                                      stream="adjacent-near-phase")

    # ---- rewire

    def rewire_cases(self, max_n):
        from discopy.quantum.gates import rewire
        rep = self.rep
        ops = [("N", "CX"), ("N", "CZ"), ("R", "CRz", 2, 0.25), ("R", "CRx", 6, 0.75),
               ("R", "CU1", 3, 0.375), ("C", ("N", "S")), ("C", ("N", "T")), ("C", ("N", "Y")),
               ("C", ("R", "Ry", 2, 0.25)), ("D", ("N", "CX"))]
        float_ops = [("R", "CRx", None, 0.3), ("C", ("R", "Rx", None, -0.7))]
        for g in ops + float_ops:
            obj = build(g)
            op_io = eval_io(obj)
            exact = self._exact(g) and not (g[0] == "R" and g[2] is None)
            for a in range(max_n):
                for b in range(max_n):
                    case = dict(op=show(g), a=a, b=b)
                    rep.case("rewire|%s|%d|%d" % (show(g), a, b), a != b)
                    rep.count("rewire_cases")
                    try:
                        r = rewire(obj, a, b)
                        got = eval_io(r)
                        n = len(r.dom)
                        real = None
                    except Exception as exc:
                        got, real = None, "err " + err_class(exc)
                    if exact:
                        model = self.drv.ask("rewire %s %d %d" % (tok(g), a, b))
                        if real is None:
                            real = rec(got, 2 ** n, 2 ** n)
                        if real != model:
                            rep.disagree("rewire", case, real[:300], model[:300])
                        rep.count("exact_model_comparisons")
                        if got is not None:
                            spec = self.drv.ask("actson %s %d %d %d" % (tok(g), n, a, b))
                            if spec != model:
                                rep.disagree("rewire-vs-actson(model)", case, model[:300], spec[:300])
                    if a == b:
                        if got is not None:
                            rep.fail("rewire_accepts_equal_indices", case, "no ValueError")
                        continue
                    if got is None:
                        rep.fail("rewire_raises", case, real)
                        continue
                    if n != max(a, b) + 1:
                        rep.fail("rewire_wrong_arity", case, "dom has %d qubits" % n)
                        continue
                    self.float_cmp += 1
                    if not close(got, acts_on(op_io, n, a, b), TOL):
                        rep.fail("rewire_not_gate_on_a_b", case,
                                 "evaluation differs from the gate acting on qubits a and b")


def run(tier, seed, replay=None):
    rep = Report(PROP, tier, seed)
    thorough = tier == "thorough"
    rep.rule = ("(0) user-defined QuantumGate(name, n, array) boxes on 1-3 qubits (products of table gates, "
                "controlled-H, Toffoli; none symmetric under qubit reversal) with and without dagger flag, "
                "alone, controlled, and inside the random circuits; pairs of boxes that discopy's == confuses "
                "(Controlled(g)/Controlled(g.dagger()), box/dagger, (controlled) rotations whose phases agree "
                "to 3 digits) placed directly after one another; every circuit c also as c >> c.dagger(); "
                "(1) every gate of gates.GATES, their daggers, Controlled(g) for every 1-qubit g and "
                "their daggers, rotations Rx/Ry/Rz/CU1/CRz/CRx at all phases k/8 (|k| <= 16) and at "
                "random float phases, kets/bras for all bitstrings of length <= 3 (4 thorough); "
                "(2) random pure circuits on 0-4 wires, depth 1-8, gates at random offsets, kets/bras "
                "with random bitstrings, half of them at exactly representable phases (compared "
                "exactly with the model) and half at random float phases; (3) rewire(op, a, b) for "
                "all (a, b) with a, b < 4 (5 thorough) and 12 two-qubit ops. Non-trivial = a rotation "
                "at a non-zero phase, any other single gate, a circuit of >= 2 layers, a rewiring "
                "with a != b; distinct by printed form")
    rep.partial = [
        "whole-circuit statements (product of unitaries is unitary, dagger of a product) are proved in Lean "
        "for every well-typed circuit over the gate set (GATES, rotations at phase indices n/8, Controlled(g), "
        "their daggers; kets/bras <= 4 bits and scalars for the dagger) and generically over any commutative "
        "star ring; that discopy's eval IS the ordered product of 1(x)gate(x)1 is C09's functor theorem plus "
        "the exact correspondence of this run; circuits with other gates (kets/bras > 4 bits, custom arrays) "
        "are covered by correspondence and the numpy oracle only",
        "rewire_spec is proved by `decide` for all (a, b) with a, b < 4 on one generic 4x4 matrix with 16 "
        "distinct entries, not for a symbolic op",
        "the tket matrices are transcribed (cross-checked against pytket at run time)"]
    rep.assumptions = [
        "float_oracle: comparisons at random real phases use tolerance 1e-9 against an independent numpy "
        "formula and against pytket 2.18.3 unitaries (tket angle = 2 x discopy phase)",
        "recognition of numpy floats in Z[zeta_8]/2^e uses tolerance 1e-9; all model comparisons are exact",
        "matrices are read in discopy's own [input, output] order: the standard matrix U[out][in] of the "
        "tket operation corresponds to the transposed array"]
    rep.lean = lean_obligations(PROP, thorough=thorough)
    rng = random.Random(seed)
    drv = Driver()
    try:
        chk = Check(rep, drv, rng, tier)
        rep.extra["model_switches"] = chk.switches
        # 1. single boxes
        chk.tket_table()
        singles = [("N", n) for n in qgen.NAMED1 + qgen.NAMED2] + [("W",)]
        singles += [("D", g) for g in list(singles)]
        ctrl = [("C", ("N", n)) for n in qgen.NAMED1] + [("C", ("D", ("N", n))) for n in qgen.NAMED1]
        ctrl += [("D", g) for g in list(ctrl)]
        custom = [("Q", q) for q in qgen.CUSTOM]
        custom += [("D", g) for g in list(custom)] + [("D", ("D", ("Q", q))) for q in qgen.CUSTOM2]
        custom += [("C", ("Q", q)) for q in qgen.CUSTOM1] + [("C", ("D", ("Q", q))) for q in qgen.CUSTOM1]
        custom += [("D", ("C", ("Q", q))) for q in qgen.CUSTOM1]
        for g in singles + ctrl:
            chk.one_gate(g, "table")
        for g in custom:
            chk.one_gate(g, "user-defined")
        for kind in qgen.ROT1 + qgen.ROT2:
            for n in range(-16, 17):
                if kind != "CU1" and n % 2:
                    g = ("R", kind, None, n / 8.0)
                else:
                    g = ("R", kind, n, n / 8.0)
                chk.one_gate(g, "rot-k/8")
                if kind in qgen.ROT1 and n % 4 == 2:
                    chk.one_gate(("C", ("R", kind, n, n / 8.0)), "rot-k/8")
            for _ in range(12 if not thorough else 150):
                ph = round(rng.uniform(-3, 3), 6)
                chk.one_gate(("R", kind, None, ph), "rot-float")
                if kind in qgen.ROT1:
                    chk.one_gate(("C", ("R", kind, None, ph)), "rot-float")
        chk.tket_rotations(10 if not thorough else 200)
        for k in range(0, 4 if not thorough else 5):
            for bits in itertools.product((0, 1), repeat=k):
                chk.one_gate(("K", bits), "ketbra")
                chk.one_gate(("B", bits), "ketbra")
        for t in qgen.EXACT_SCALARS:
            chk.one_gate(("S", t, cyc8.to_complex(t)), "scalar")
        # 2. circuits
        n_circ = 600 if not thorough else 6000
        for k in range(n_circ):
            chk.circuit_case(exact=(k % 2 == 0), twins=(0.4 if k % 3 == 0 else 0.0),
                             unitary=(k % 4 >= 2), stream="circuit")
        chk.adjacent_pairs(3 if not thorough else 25)
        # 3. rewire
        chk.rewire_cases(4 if not thorough else 5)
        rep.extra["float_oracle_comparisons"] = chk.float_cmp
        rep.extra["exact_model_comparisons"] = rep.dist.get("exact_model_comparisons", 0)
    finally:
        drv.close()
    return rep.finish()
