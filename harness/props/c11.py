"""C11 — pure circuits evaluate to the unitary they describe.

Streams: table / user-defined (0-3 qubits; the 0-qubit ones at every position of fixed circuits) / rotation / ket-bra boxes, scalar boxes of both classes (scalar, sqrt) over every
kind and Python type of data, random circuits (with scalar-rich ones), adjacent twins, calling conventions of
Circuit.eval / Sum.eval (batches with pure and mixed companions, mixed= flag), rewire.

Correspondence (exact): every array / evaluation pulled from the running discopy is recognised in
ℤ[ζ₈]/2^e (tolerance 1e-9 for the recognition only) and compared token by token with the compiled
Lean model (lean/Model/Gates.lean through `dvdriver`).
Oracle (the property itself, independent numpy + pytket; float comparisons with tolerance 1e-9,
labelled `float_oracle` in the evidence).
"""
import itertools
import random

import numpy as np

import cyc8
import qgen
from common import Driver, Report, lean_obligations, err_class
from qgen import (masked_io, has_f17, has_f2_target, has_f4k, QGen, build, tok, show, std_io, arity, kinds, build_circuit, tok_circuit,
                  show_circuit, product_io, eval_io, close)

PROP = "C11"
TOL = 1e-9


# --------------------------------------------------------------------------- helpers

def rec(m, rows, cols):
    out = cyc8.recognise_matrix(m, rows, cols)
    return out if out is not None else "unrepresentable"


def gate_eval_io(obj):
    return eval_io(obj)


def tket_unitary(name, angle=None):
    from pytket.circuit import Op, OpType
    op = Op.create(getattr(OpType, name)) if angle is None \
        else Op.create(getattr(OpType, name), angle)
    return np.asarray(op.get_unitary(), dtype=complex)


def acts_on(op_io, n, a, b):
    """Independent 'op on qubits a and b of n' in [input, output] order: reshape to a rank-2n
    tensor, place the op's four axes on (a, b) / (n+a, n+b), identity elsewhere."""
    t = np.zeros((2,) * (2 * n), dtype=complex)
    op4 = op_io.reshape(2, 2, 2, 2)
    others = [i for i in range(n) if i not in (a, b)]
    for xa, xb, ya, yb in itertools.product((0, 1), repeat=4):
        for rest in itertools.product((0, 1), repeat=len(others)):
            x, y = [0] * n, [0] * n
            x[a], x[b], y[a], y[b] = xa, xb, ya, yb
            for i, v in zip(others, rest):
                x[i] = y[i] = v
            t[tuple(x) + tuple(y)] = op4[xa, xb, ya, yb]
    return t.reshape(2 ** n, 2 ** n)


def norm_head(g):
    """Head of the descriptor under any number of `.dagger()`s."""
    while g[0] == "D":
        g = g[1]
    return g[0]


NOT_GATES = ("Ket", "Bra", "scalar", "sqrt")


def scalar_rich(gen, w):
    """Gate chooser for the scalar-rich circuits: every second box a scalar box of either class."""
    if gen.rng.random() < 0.45:
        return gen.scalar()
    saved, gen.gateset = gen.gateset, None
    try:
        return gen.pick(w)
    finally:
        gen.gateset = saved


# --------------------------------------------------------------------------- the streams

class Check:
    def __init__(self, rep, drv, rng, tier):
        self.rep, self.drv, self.rng, self.tier = rep, drv, rng, tier
        self.float_cmp = 0
        self.switches = drv.ask("switches")

    def cmp_model(self, stream, case, real, rows, cols, model):
        """Exact comparison with the model's answer; if some entry has left the window in which floats are
        recognised in Z[zeta_8]/2^e (large products of scalars), compare numerically with the parsed model
        matrix instead (relative tolerance, counted)."""
        r = rec(real, rows, cols)
        self.rep.count("exact_model_comparisons")
        if r == model:
            return
        if r == "unrepresentable" and model.startswith("ok"):
            want = cyc8.parse_matrix(model)
            self.rep.count("exact_fallback_to_float")
            if close(np.asarray(real, dtype=complex).reshape(want.shape), want,
                     TOL * max(1.0, float(np.max(np.abs(want))))):
                return
        self.rep.disagree(stream, case, r[:300], model[:300])

    # ---- single boxes: correspondence + per-gate oracle

    def one_gate(self, g, stream):
        rep = self.rep
        case = dict(gate=show(g), stream=stream)
        try:
            obj = build(g)
        except Exception as exc:
            rep.case("%s|%s" % (stream, show(g)), True)
            rep.fail("gate_eval_raises:" + kinds(g)[-1], case, "building the box raised " + err_class(exc))
            return
        d, c = arity(g)
        exact = g[0] != "R" or g[2] is not None
        for kd in kinds(g):
            rep.count("kind:" + kd)
        key = "%s|%s" % (stream, show(g))
        rep.case(key, not (g[0] == "R" and g[3] == 0))
        try:
            real = eval_io(obj)
            dag = eval_io(obj.dagger())
        except Exception as exc:
            rep.fail("gate_eval_raises:" + kinds(g)[-1], case, "eval / dagger().eval() raised " + err_class(exc))
            return
        if exact and self._exact(g):
            lines = ["geval " + tok(g), "garr " + tok(g), "geval D " + tok(g), "sqrtexact " + tok(g)]
            m_eval, m_arr, m_dag, m_root = self.drv.ask_many(lines)
            r_eval = rec(real, 2 ** d, 2 ** c)
            if r_eval != m_eval:
                rep.disagree("geval", case, r_eval, m_eval)
            r_dag = rec(dag, 2 ** c, 2 ** d)
            if r_dag != m_dag:
                rep.disagree("geval-dagger", case, r_dag, m_dag)
            if m_root != "ok 1":
                rep.disagree("sqrt-root-not-exact(harness)", case, "ok 1", m_root)
            rep.count("exact_model_comparisons")
            if hasattr(obj, "array"):          # Swap has none: the functor moves axes instead
                arr = np.asarray(obj.array, dtype=complex)
                r_arr = rec(arr, 2 ** d, 2 ** c)
                if r_arr != m_arr:
                    rep.disagree("garr", case, r_arr, m_arr)
            rep.count("exact_model_comparisons", 2)
        # oracle 1: the box evaluates to the standard matrix (independent formula)
        want = std_io(g)
        self.float_cmp += 1
        if not close(real, want, TOL):
            if has_f4k(g) and close(real, masked_io(g, f4k=True), TOL):
                rep.fail("dagger_eval_not_adjoint:sqrt(negative real)", case,
                         "sqrt(x).dagger() is sqrt(x) itself for a negative real x: it evaluates to i*sqrt|x|, "
                         "not to the conjugate -i*sqrt|x|")
            elif has_f17(g) and close(real, masked_io(g, f17=True), TOL):
                rep.fail("gate_is_transpose_of_tket:" + ("Y" if "Y" in kinds(g) else "Ry"), case,
                         "evaluates to the transpose of the standard matrix in [input, output] order")
            elif has_f2_target(g) and close(real, masked_io(g, f17=True, f2=True), TOL):
                rep.fail("controlled_ignores_dagger_flag_of_target", case,
                         "Controlled(U†) evaluates to Controlled(U): the target's dagger flag is ignored")
            else:
                rep.fail("gate_differs_from_standard_matrix:" + kinds(g)[-1], case,
                         "max |Δ| = %.3g" % float(np.max(np.abs(real - want))))
        # oracle 2: dagger of the box evaluates to the conjugate transpose of its evaluation
        self.float_cmp += 1
        if not close(dag, real.conj().T, TOL):
            if has_f4k(g) and close(dag, masked_io(("D", g), f4k=True), TOL):
                rep.fail("dagger_eval_not_adjoint:sqrt(negative real)", case,
                         "sqrt(x).dagger() is sqrt(x) itself for a negative real x: c.dagger().eval() == c.eval() "
                         "= i*sqrt|x| != c.eval().dagger()")
            elif has_f2_target(g):
                rep.fail("dagger_eval_not_adjoint:Controlled(flagged QuantumGate)", case,
                         "c.dagger().eval() != c.eval().dagger()")
            else:
                rep.fail("dagger_eval_not_adjoint:" + kinds(g)[0], case,
                         "c.dagger().eval() != c.eval().dagger()")
        # oracle 3: gates are unitary, kets/bras are basis vectors (covered by std_io), controlled spec
        if g[0] not in "KBSZ" and norm_head(g) not in "KBSZ" and d == c:
            self.float_cmp += 1
            if not close(real @ real.conj().T, np.eye(2 ** d), TOL):
                rep.fail("gate_not_unitary:" + kinds(g)[-1], case, "U U† != 1")
        if g[0] == "C":
            target = eval_io(build(g[1]))
            self.float_cmp += 1
            if not close(real, qgen.controlled_u(target.T).T, TOL):
                if has_f2_target(g) and g[1][0] == "D":
                    rep.fail("controlled_ignores_dagger_flag_of_target", case,
                             "Controlled(t).eval() is not the controlled version of t.eval()")
                else:
                    rep.fail("controlled_not_controlled_version:" + kinds(g)[-1], case,
                             "Controlled(t).eval() is not |0><0|(x)1 + |1><1|(x)t.eval()")

    def _exact(self, g):
        k = g[0]
        if k == "R":
            return g[2] is not None and (g[1] == "CU1" or g[2] % 2 == 0)
        if k in "DC":
            return self._exact(g[1])
        if k in "SZ":
            return g[1] is not None
        if k == "P":                # float entry: oracle stream only
            return False
        return True

    # ---- named table against pytket (and the transcription in the model against pytket)

    def tket_table(self):
        rep = self.rep
        pairs = [("H", "H"), ("S", "S"), ("T", "T"), ("X", "X"), ("Y", "Y"), ("Z", "Z"),
                 ("CX", "CX"), ("CZ", "CZ"), ("SWAP", "SWAP")]
        for name, tk in pairs:
            u = tket_unitary(tk)
            n = u.shape[0]
            model = self.drv.ask("tket " + tk)
            real = rec(u, n, n)
            rep.case("tket|" + tk, True)
            rep.count("tket_transcription_checked")
            if real != model:
                rep.disagree("tket-transcription", dict(op=tk), real, model)
            g = ("W",) if name == "SWAP" else ("N", name)
            got = eval_io(build(g))
            self.float_cmp += 1
            if not close(got, u.T, TOL):
                if close(got, u, TOL):
                    rep.fail("gate_is_transpose_of_tket:" + name, dict(gate=name),
                             "%s.eval() is the transpose of pytket's %s in [input, output] order "
                             "(Ket(0) >> %s gives %s)" % (name, tk, name, np.round(got[0], 3).tolist()))
                else:
                    rep.fail("gate_differs_from_tket:" + name, dict(gate=name), "differs from pytket")
        for tk in ("Sdg", "Tdg", "CY", "CS", "CSdg"):
            u = tket_unitary(tk)
            real, model = rec(u, *u.shape), self.drv.ask("tket " + tk)
            rep.case("tket|" + tk, True)
            rep.count("tket_transcription_checked")
            if real != model:
                rep.disagree("tket-transcription", dict(op=tk), real, model)
        # daggers and controlled gates against the identically named tket ops
        for desc, tk in ((("D", ("N", "S")), "Sdg"), (("D", ("N", "T")), "Tdg"),
                         (("C", ("N", "Y")), "CY"), (("C", ("N", "S")), "CS"),
                         (("C", ("D", ("N", "S"))), "CSdg"), (("D", ("C", ("N", "S"))), "CSdg"),
                         (("C", ("N", "Z")), "CZ"), (("C", ("N", "X")), "CX")):
            u = tket_unitary(tk)
            got = eval_io(build(desc))
            rep.case("tket|%s|%s" % (show(desc), tk), True)
            self.float_cmp += 1
            if not close(got, u.T, TOL):
                if has_f17(desc) and close(got, masked_io(desc, f17=True), TOL):
                    rep.fail("gate_is_transpose_of_tket:Y", dict(gate=show(desc)), "differs from pytket " + tk)
                elif has_f2_target(desc) and close(got, masked_io(desc, f2=True), TOL):
                    rep.fail("controlled_ignores_dagger_flag_of_target", dict(gate=show(desc)),
                             "differs from pytket " + tk)
                else:
                    rep.fail("gate_differs_from_tket:" + tk, dict(gate=show(desc)), "differs from pytket")

    def tket_rotations(self, n_random):
        rep = self.rep
        phases = [k / 8.0 for k in range(-16, 17)]
        phases += [round(self.rng.uniform(-3, 3), 6) for _ in range(n_random)]
        for kind in qgen.ROT1 + qgen.ROT2:
            for ph in phases:
                u = tket_unitary(kind, 2 * ph)          # tket angles are half turns
                got = eval_io(build(("R", kind, None, ph)))
                rep.case("tketrot|%s|%r" % (kind, ph), ph % 1 != 0)
                rep.count("tket_rotation_checked")
                self.float_cmp += 1
                # tket's Rx/Ry/Rz(α+2) = -Rx/Ry/Rz(α) exactly as discopy's: compare as matrices
                if not close(got, u.T, TOL):
                    if kind == "Ry" and close(got, u, TOL):
                        rep.fail("gate_is_transpose_of_tket:Ry", dict(gate="Ry(%r)" % ph),
                                 "Ry(φ).eval() is the transpose of pytket's Ry(2φ): it is Ry(-φ)")
                    else:
                        rep.fail("gate_differs_from_tket:" + kind, dict(gate="%s(%r)" % (kind, ph)),
                                 "differs from pytket %s(%r)" % (kind, 2 * ph))

    # ---- circuits

    def circuit_case(self, exact, given=None, twins=0.0, unitary=False, stream="circuit", gateset=None):
        rep = self.rep
        if given is None:
            gen = QGen(random.Random(self.rng.getrandbits(64)), exact=exact, roots=True, gateset=gateset,
                       phases0=True)
            n_in, layers = gen.circuit(twins=twins, unitary=unitary)
        else:
            n_in, layers = given
        rep.count("stream:" + stream)
        case = dict(circuit=show_circuit(n_in, layers), exact=exact, stream=stream)
        try:
            c = build_circuit(n_in, layers)
            n_out = len(c.cod)
            real = eval_io(c)
            real_dag = eval_io(c.dagger())
            real_echo = eval_io(c >> c.dagger())
        except Exception as exc:
            rep.case(("x|" if exact else "f|") + case["circuit"], len(layers) >= 2)
            rep.fail("circuit_eval_raises", case, "building / evaluating the circuit, its dagger or "
                     "c >> c.dagger() raised " + err_class(exc))
            return
        allk = [k for _, g, _ in layers for k in kinds(g)]
        for _, g, _ in layers:
            if norm_head(g) in "SZ":
                data = g
                while data[0] == "D":
                    data = data[1]
                z = complex(data[3] if data[0] == "Z" else data[2])
                rep.count("scalar_box_data:%s:%s" % (
                    "sqrt" if data[0] == "Z" else "scalar",
                    "zero" if z == 0 else "non-real" if z.imag != 0 else "negative" if z.real < 0 else "positive"))
        f4k = any(has_f4k(g) for _, g, _ in layers)
        for k in set(allk):
            rep.count("circuit_has:" + k)
        rep.count("circuit_depth:%d" % len(layers))
        rep.count("circuit_wires_in:%d" % n_in)
        rep.case(("x|" if exact else "f|") + case["circuit"], len(layers) >= 2)
        rep.sample(case)
        if exact:
            lines = ["ceval %d %s" % (n_in, tok_circuit(layers)),
                     "cdageval %d %s" % (n_in, tok_circuit(layers))]
            m1, m2 = self.drv.ask_many(lines)
            self.cmp_model("ceval", case, real, 2 ** n_in, 2 ** n_out, m1)
            self.cmp_model("cdageval", case, real_dag, 2 ** n_out, 2 ** n_in, m2)
        # oracle: ordered product of the standard matrices of its gates on the stated qubits
        want = product_io(n_in, layers, std_io)
        self.float_cmp += 1
        if not close(real, want, TOL):
            f17 = any(has_f17(g) for _, g, _ in layers)
            f2 = any(has_f2_target(g) for _, g, _ in layers)
            sig = None
            for m17, m2 in ((True, False), (False, True), (True, True)):
                if (m17 and not f17) or (m2 and not f2):
                    continue
                if close(real, product_io(n_in, layers, lambda g: masked_io(g, m17, m2)), TOL):
                    sig = (m17, m2)
                    break
            if sig is None:
                rep.fail("circuit_eval_not_ordered_product", case,
                         "max |Δ| = %.3g" % float(np.max(np.abs(real - want))))
            else:
                if sig[0]:
                    rep.fail("circuit_eval_with_transposed_gate:Y|Ry", case,
                             "equals the ordered product only with Y / Ry read as their transposes")
                if sig[1]:
                    rep.fail("circuit_eval_with_flag_blind_controlled", case,
                             "equals the ordered product only with Controlled(U†) read as Controlled(U)")
        # oracle: c >> c.dagger() evaluates to eval(c) . eval(c)^H ("ordered product" + "dagger = conjugate
        # transpose"), which is the identity for a circuit of gates only.  Here every box is directly
        # followed, at the seam, by its own dagger - boxes that discopy's `==` may confuse.
        echo_layers = layers + [(l, ("D", g), r) for l, g, r in reversed(layers)]
        rev = [(l, ("D", g), r) for l, g, r in reversed(layers)]
        rep.count("echo_checked")
        if exact:
            m3 = self.drv.ask("ceval %d %s" % (n_in, tok_circuit(echo_layers)))
            self.cmp_model("ceval-echo", case, real_echo, 2 ** n_in, 2 ** n_in, m3)
        self.float_cmp += 1
        gates_only = not any(k in NOT_GATES for k in allk)
        scale = max(1.0, float(np.max(np.abs(want))) ** 2)
        if gates_only and not close(real_echo, np.eye(2 ** n_in), TOL):
            rep.fail("circuit_then_dagger_not_identity", case,
                     "(c >> c.dagger()).eval() is not the identity although c consists of gates only; "
                     "max |Δ| = %.3g" % float(np.max(np.abs(real_echo - np.eye(2 ** n_in)))))
        elif not close(real_echo, want @ want.conj().T, TOL * scale):
            if f4k and close(real_echo, want @ product_io(n_out, rev, lambda g: masked_io(g, f4k=True)),
                             TOL * scale):
                rep.fail("circuit_dagger_not_adjoint:has sqrt(negative real)", case,
                         "(c >> c.dagger()).eval() != eval(c) . eval(c)^H: sqrt(x) of a negative real x is its "
                         "own dagger")
            else:
                rep.fail("circuit_then_dagger_not_product", case,
                         "(c >> c.dagger()).eval() != eval(c) . eval(c)^H computed independently")
        # oracle: unitary when there is no ket / bra / scalar
        if gates_only:
            rep.count("unitarity_checked")
            self.float_cmp += 1
            if not close(real @ real.conj().T, np.eye(2 ** n_in), TOL):
                rep.fail("circuit_not_unitary", case, "U U† != 1")
        # oracle: dagger
        self.float_cmp += 1
        if not close(real_dag, real.conj().T, TOL):
            predicted = product_io(n_out, rev, lambda g: masked_io(g, True, True))
            if f4k and close(real_dag, product_io(n_out, rev, lambda g: masked_io(g, f4k=True)), TOL * scale):
                rep.fail("circuit_dagger_not_adjoint:has sqrt(negative real)", case,
                         "c.dagger().eval() != c.eval().dagger(): sqrt(x) of a negative real x is its own dagger")
            elif any(has_f2_target(g) for _, g, _ in layers) and close(real_dag, predicted, TOL):
                rep.fail("circuit_dagger_not_adjoint:has Controlled(flagged QuantumGate)", case,
                         "c.dagger().eval() != c.eval().dagger()")
            else:
                rep.fail("circuit_dagger_not_adjoint", case, "c.dagger().eval() != c.eval().dagger()")

    # ---- boxes that compare equal (or print equal) although they denote different matrices,
    #      placed directly after one another

    def adjacent_pairs(self, n_random):
        rng = self.rng
        pairs = []
        for n in ("S", "T"):
            a, b = ("C", ("N", n)), ("C", ("D", ("N", n)))
            pairs += [(a, b), (b, a), (a, ("D", a)), (("D", a), a), (a, a), (b, b)]
            pairs += [(("N", n), ("D", ("N", n))), (("D", ("N", n)), ("N", n))]
        pairs += [(("N", "Y"), ("D", ("N", "Y"))), (("C", ("N", "Y")), ("D", ("C", ("N", "Y"))))]
        for q in qgen.CUSTOM:
            a = ("Q", q)
            pairs += [(a, ("D", a)), (("D", a), a), (("D", a), ("D", a))]
            if qgen.CUSTOM_NQ[q] == 1:
                pairs += [(("C", a), ("C", ("D", a))), (("C", ("D", a)), ("C", a)), (("C", a), ("D", ("C", a)))]
        for g, h in pairs:
            d = arity(g)[0]
            self.circuit_case(True, given=(d, [(0, g, 0), (0, h, 0)]), stream="adjacent-pair")
            self.circuit_case(True, given=(d + 1, [(1, g, 0), (0, h, 1)]) if d == 1 else
                              (d + 1, [(0, g, 1), (0, h, 1)]), stream="adjacent-pair")
        # (controlled) rotations whose phases differ beyond the 3 digits that names print
        deltas = (4e-4, -4e-4, 1e-3, 5e-5)
        for kind in qgen.ROT1 + qgen.ROT2:
            phases = [0.25, 0.2, 1.0, -0.75] + [round(rng.uniform(-2, 2), 3) for _ in range(n_random)]
            for ph in phases:
                ph2 = ph + rng.choice(deltas)
                a, b = ("R", kind, None, ph), ("R", kind, None, ph2)
                d = arity(a)[0]
                self.circuit_case(False, given=(d, [(0, a, 0), (0, b, 0)]), stream="adjacent-near-phase")
                if kind in qgen.ROT1:
                    ca, cb = ("C", a), ("C", b)
                    self.circuit_case(False, given=(2, [(0, ca, 0), (0, cb, 0)]), stream="adjacent-near-phase")
                    self.circuit_case(False, given=(3, [(0, ca, 1), (1, cb, 0), (0, ("D", ca), 1)]),
                                      stream="adjacent-near-phase")

    # ---- user-defined QuantumGates on ZERO qubits (global phases), flagged or not, at every position

    def phase_placements(self, n_float, full=False):
        """A 0-qubit gate touches no wire: a functor may treat it apart from the gates that do (and then has to
        honour its dagger flag there too).  Every table gate of CUSTOM0, plain / daggered / twice daggered, at
        every layer and every offset of two fixed circuits (gates only; ket then gate), and float phases
        exp(i theta) at random positions of random circuits."""
        bases = [(2, [(0, ("N", "H"), 1), (0, ("N", "CX"), 0), (1, ("N", "T"), 0)]),
                 (0, [(0, ("K", (1,)), 0), (0, ("N", "X"), 0)])]
        for q in qgen.CUSTOM0:
            for nwrap, wrap in enumerate((lambda g: ("D", g), lambda g: g, lambda g: ("D", ("D", g)))):
                # quick: the flagged gate for every entry; the plain and the twice-daggered one for one entry each
                if not full and ((nwrap == 1 and q != "PZ") or (nwrap == 2 and q != "PI")):
                    continue
                g = wrap(("Q", q))
                for n_in, layers in bases:
                    w = n_in
                    for k in range(len(layers) + 1):
                        for l in range(w + 1):
                            self.rep.count("phase0_placement:layer=%d,left=%d" % (k, l))
                            self.circuit_case(True, given=(n_in, layers[:k] + [(l, g, w - l)] + layers[k:]),
                                              stream="phase0-placement")
                        if k < len(layers):
                            d, c = arity(layers[k][1])
                            w = w - d + c
        for _ in range(n_float):
            gen = QGen(random.Random(self.rng.getrandbits(64)), exact=False, roots=True, phases0=True)
            n_in, layers = gen.circuit(depth=gen.rng.randint(1, 4))
            w, widths = n_in, [n_in]
            for _, g, _ in layers:
                d, c = arity(g)
                w = w - d + c
                widths.append(w)
            for _ in range(gen.rng.randint(1, 2)):
                k = gen.rng.randint(0, len(layers))
                l = gen.rng.randint(0, widths[k])
                g = gen.gate0()
                while g[0] != "D":
                    g = gen.gate0()
                layers = layers[:k] + [(l, g, widths[k] - l)] + layers[k:]
                widths = widths[:k] + [widths[k]] + widths[k:]
            self.circuit_case(False, given=(n_in, layers), stream="phase0-placement-float")

    # ---- scalar boxes of both classes, every kind of data, every Python type of the data

    def scalar_boxes(self, n_float):
        rep = self.rep
        descs = []
        for t in qgen.EXACT_SCALARS + qgen.EXACT_SCALARS_EXTRA:
            types = ["auto", "complex", "np.complex128"]
            if cyc8.is_real(t):
                types.append("np.float64")
            for ty in types:
                descs.append(("S", t, qgen.number_of(t, ty)))
        for w in qgen.EXACT_ROOTS:
            zt = cyc8.mul(w, w)
            types = ["auto", "complex", "np.complex128"]
            if cyc8.is_real(zt) and cyc8.to_complex(zt).real >= 0:
                types += ["float", "np.float64"]      # numpy's float64(-4) ** .5 is nan: not a number to describe
            for ty in types:
                descs.append(qgen.sqrt_exact(w, ty))
        gen = QGen(random.Random(self.rng.getrandbits(64)), exact=False, roots=True)
        for _ in range(n_float):
            descs.append(gen.sqrt_box())
            descs.append(gen.scalar())
        seen = set()
        for g in descs:
            if show(g) in seen:
                continue
            seen.add(show(g))
            rep.count("scalar_box:%s:%s" % (kinds(g)[0], "exact" if g[1] is not None else "float"))
            for h in (g, ("D", g), ("D", ("D", g))):
                self.one_gate(h, "scalar-box")

    # ---- calling conventions of Circuit.eval / Sum.eval (numpy route): a pure circuit evaluates to the
    #      unitary it describes - the same Tensor - whatever it is batched with and however it is called

    def companion(self, rng, pure_layers):
        """A circuit to batch pure circuits with: mixed (measuring, discarding, mixed states, encoding, bits
        next to qubits) or classical-only (not mixed).  Returns (label, circuit)."""
        from discopy.quantum import (Measure, Discard, MixedState, Encode, Bits, Ket, H, X, CX, Id, bit, Copy)
        n_in, layers = pure_layers
        base = build_circuit(n_in, layers)
        n_out = len(base.cod)
        kind = rng.choice(["measure", "measure-base", "discard-base", "classical", "mixedstate", "encode",
                           "bits-only", "copy", "measure-keep"])
        if kind == "measure-base" and n_out >= 1:
            return kind, base >> Measure(n_out)
        if kind == "discard-base" and n_out >= 1:
            k = rng.randrange(n_out)
            return kind, base >> Id(k) @ Discard() @ Id(n_out - k - 1)
        if kind == "classical":
            return kind, Bits(rng.randint(0, 1)) @ Ket(0) >> Discard(bit) @ X
        if kind == "mixedstate":
            return kind, MixedState() >> H
        if kind == "encode":
            return kind, Bits(rng.randint(0, 1)) >> Encode()
        if kind == "bits-only":
            return kind, Bits(rng.randint(0, 1), rng.randint(0, 1))
        if kind == "copy":
            return kind, Bits(rng.randint(0, 1)) >> Copy()
        if kind == "measure-keep":
            return kind, Ket(0, 0) >> H @ Id(1) >> CX >> Measure(destructive=False) @ Id(1)
        return "measure", Ket(0) >> H >> Measure()

    def eval_conventions(self, n_batches, n_sums):
        from discopy.quantum import Circuit, CQMap
        from discopy.tensor import Tensor
        rep, rng = self.rep, self.rng

        def tname(x):
            return "C" if isinstance(x, CQMap) else "T" if isinstance(x, Tensor) else type(x).__name__

        def pure_member(exact, small=False):
            """`small`: the circuit will be evaluated as a CQ map (doubled: keep it to <= 2 wires, depth <= 2)."""
            gen = QGen(random.Random(rng.getrandbits(64)), exact=exact, roots=True, max_wires=2 if small else 3,
                       phases0=True)
            return gen.circuit(depth=gen.rng.randint(1, 2 if small else 5), unitary=(gen.rng.random() < 0.4))

        def check_pure(res, n_in, layers, exact, case, where):
            """The property for one pure circuit of a call: a Tensor (not a CQ map) holding the ordered product."""
            want = product_io(n_in, layers, std_io)
            self.float_cmp += 1
            if isinstance(res, CQMap) or not isinstance(res, Tensor):
                rep.fail("pure_eval_not_unitary_tensor:" + where, case,
                         "the pure circuit %s came back as a %s, not as the Tensor of the unitary it describes"
                         % (show_circuit(n_in, layers), type(res).__name__))
                return
            arr = np.asarray(res.array, dtype=complex)
            if arr.size != want.size or not close(arr.reshape(want.shape), want,
                                                  TOL * max(1.0, float(np.max(np.abs(want))))):
                rep.fail("pure_eval_not_unitary_tensor:" + where, case,
                         "the Tensor returned for the pure circuit %s is not the ordered product of its gates"
                         % show_circuit(n_in, layers))
                return
            if exact:
                model = self.drv.ask("ceval %d %s" % (n_in, tok_circuit(layers)))
                self.cmp_model("ceval-in-batch", case, arr, want.shape[0], want.shape[1], model)

        # -- batches
        for b in range(n_batches):
            k = rng.choice([0, 0, 1, 1, 2, 2, 3, 4])
            flag = rng.choice([None, None, None, False, False, True])
            conv = rng.choice(["method", "method", "backend=None", "unbound"] + (["positional-None"] if k == 0 else []))
            members = []        # (label, circuit, pure_layers | None, exact)
            lead_mixed = rng.random() < 0.6 and k > 0
            plan = []
            for i in range(k + 1):
                exact = rng.random() < 0.5
                want_mixed = lead_mixed if i == 0 else rng.random() < 0.35
                plan.append((exact, want_mixed, pure_member(exact, small=(flag is True or want_mixed)),
                             random.Random(rng.getrandbits(64))))
            try:
                for exact, want_mixed, pl, sub in plan:
                    if want_mixed:
                        label, c = self.companion(sub, pl)
                        members.append((label, c, None, False))
                    else:
                        members.append(("pure", build_circuit(*pl), pl, exact))
            except Exception as exc:
                rep.case("conv|%d" % b, True)
                rep.fail("eval_convention_raises:building", dict(stream="eval-conventions", batch=[
                    show_circuit(*p[2]) for p in plan]), "building the circuits raised " + err_class(exc))
                continue
            shows = [show_circuit(*m[2]) if m[2] is not None else "<%s: %s>" % (m[0], m[1]) for m in members]
            kw = {} if flag is None else {"mixed": flag}
            case = dict(stream="eval-conventions", convention=conv, mixed=repr(flag), batch=shows)
            cs = [m[1] for m in members]
            try:
                mixed_flags = [bool(c.is_mixed) for c in cs]
                if conv == "method":
                    out = cs[0].eval(*cs[1:], **kw)
                elif conv == "backend=None":
                    out = cs[0].eval(*cs[1:], backend=None, **kw)
                elif conv == "unbound":
                    out = Circuit.eval(*cs, **kw)
                else:
                    out = cs[0].eval(None, **kw)
            except Exception as exc:
                rep.case("conv|%d" % b, True)
                rep.fail("eval_convention_raises:" + conv, case, "raised " + err_class(exc))
                continue
            results = list(out) if k > 0 and isinstance(out, (list, tuple)) else [out]
            lead = "mixed-leader" if mixed_flags[0] else "pure-leader"
            n_pure = sum(1 for m in members if m[2] is not None)
            rep.case("conv|%s|%s|%r|%s" % (conv, lead, flag, "|".join(shows)), k > 0)
            rep.count("eval_convention:" + conv)
            rep.count("eval_batch_size:%d" % (k + 1))
            rep.count("eval_mixed_flag:%r" % (flag,))
            if k > 0:
                rep.count("eval_batch:%s,%s" % (lead, "pure-followers" if n_pure - (0 if mixed_flags[0] else 1) > 0
                                                else "no-pure-follower"))
            if len(results) != k + 1:
                rep.fail("eval_batch_wrong_length", case, "%d results for %d circuits" % (len(results), k + 1))
                continue
            # correspondence with the model of circuit.py:247-253: which functor evaluated which circuit
            model = self.drv.ask("evalmodes %d %d %d %s" % (
                1 if flag else 0, mixed_flags[0], k, " ".join("01"[m] for m in mixed_flags[1:])))
            real = "ok %d %s" % (len(results), " ".join(tname(r) for r in results))
            rep.count("exact_model_comparisons")
            if real.strip() != model.strip():
                rep.disagree("evalmodes", case, real, model)
            # the property, for every pure circuit of the call
            if flag is not True:
                for i, (label, c, pl, exact) in enumerate(members):
                    if pl is None:
                        continue
                    where = "alone" if k == 0 else ("batched-behind-mixed-leader" if mixed_flags[0] and i > 0
                                                     else "batched")
                    rep.count("pure_in_call:" + where)
                    check_pure(results[i], pl[0], pl[1], exact, dict(case, position=i), where)
                    # second use of the same object, alone, after the batch: still the same Tensor
                    try:
                        again = c.eval()
                        same = not isinstance(again, CQMap) and close(
                            np.asarray(again.array, dtype=complex).reshape(-1),
                            np.asarray(getattr(results[i], "array", [np.nan]), dtype=complex).reshape(-1), TOL)
                    except Exception as exc:
                        rep.fail("eval_convention_raises:second-use", dict(case, position=i), err_class(exc))
                        continue
                    if not same and not isinstance(results[i], CQMap):
                        rep.fail("pure_eval_differs_between_calls", dict(case, position=i),
                                 "c.eval() alone differs from the result for c inside the batch")
        # -- sums
        for b in range(n_sums):
            n_terms = rng.choice([1, 2, 2, 3])
            flag = rng.choice([None, None, False, True])
            with_mixed = rng.random() < 0.3
            small = with_mixed or flag is True          # evaluated as CQ maps (doubled)
            n = rng.randint(1, 2 if small else 3)
            terms, pls = [], []
            for i in range(n_terms):
                gen = QGen(random.Random(rng.getrandbits(64)), exact=(rng.random() < 0.5), roots=True, max_wires=3,
                           phases0=True)
                pls.append(gen.circuit(n_in=n, depth=gen.rng.randint(1, 2 if small else 4), unitary=True))
            try:
                for i, pl in enumerate(list(pls)):
                    c = build_circuit(*pl)
                    if with_mixed and i == n_terms - 1:
                        from discopy.quantum import Discard, MixedState, Id
                        c = c >> Id(n - 1) @ (Discard() >> MixedState())
                        pls[i] = None
                    terms.append(c)
            except Exception as exc:
                rep.case("sum|%d" % b, True)
                rep.fail("eval_convention_raises:building", dict(stream="sum-eval", terms=[
                    show_circuit(*p) for p in pls if p is not None]), "building the terms raised " + err_class(exc))
                continue
            shows = [show_circuit(*pl) if pl is not None else "<mixed: %s>" % c for pl, c in zip(pls, terms)]
            kw = {} if flag is None else {"mixed": flag}
            conv = rng.choice(["sum.eval()", "sum.eval(backend=None)"])
            case = dict(stream="sum-eval", convention=conv, mixed=repr(flag), terms=shows)
            try:
                total = terms[0]
                if n_terms == 1:
                    total = Circuit.sum([terms[0]])
                for t in terms[1:]:
                    total = total + t
                mixed_flags = [bool(t.is_mixed) for t in terms]
                res = total.eval(**kw) if conv == "sum.eval()" else total.eval(backend=None, **kw)
            except Exception as exc:
                rep.case("sum|%d" % b, True)
                rep.fail("eval_convention_raises:Sum.eval", case, "raised " + err_class(exc))
                continue
            rep.case("sum|%s|%r|%s" % (conv, flag, "|".join(shows)), n_terms > 1)
            rep.count("sum_eval:%d-terms,%s" % (n_terms, "with-mixed-term" if with_mixed else "all-pure"))
            model = self.drv.ask("summodes %d %d %s" % (1 if flag else 0, n_terms,
                                                         " ".join("01"[m] for m in mixed_flags)))
            modes = model.split()[2:]
            rep.count("exact_model_comparisons")
            if len(set(modes)) != 1 or tname(res) != modes[0]:
                rep.disagree("summodes", case, tname(res), model)
            if flag is not True and not with_mixed:
                want = sum(product_io(n, pl[1], std_io) for pl in pls)
                self.float_cmp += 1
                if isinstance(res, CQMap) or not isinstance(res, Tensor):
                    rep.fail("pure_sum_eval_not_sum_of_unitaries", case, "came back as a " + type(res).__name__)
                else:
                    arr = np.asarray(res.array, dtype=complex)
                    if arr.size != want.size or not close(arr.reshape(want.shape), want, TOL * n_terms):
                        rep.fail("pure_sum_eval_not_sum_of_unitaries", case,
                                 "the sum of pure circuits does not evaluate to the sum of their unitaries")

    # ---- rewire

    def rewire_cases(self, max_n):
        from discopy.quantum.gates import rewire
        rep = self.rep
        ops = [("N", "CX"), ("N", "CZ"), ("R", "CRz", 2, 0.25), ("R", "CRx", 6, 0.75),
               ("R", "CU1", 3, 0.375), ("C", ("N", "S")), ("C", ("N", "T")), ("C", ("N", "Y")),
               ("C", ("R", "Ry", 2, 0.25)), ("D", ("N", "CX"))]
        float_ops = [("R", "CRx", None, 0.3), ("C", ("R", "Rx", None, -0.7))]
        for g in ops + float_ops:
            obj = build(g)
            op_io = eval_io(obj)
            exact = self._exact(g) and not (g[0] == "R" and g[2] is None)
            for a in range(max_n):
                for b in range(max_n):
                    case = dict(op=show(g), a=a, b=b)
                    rep.case("rewire|%s|%d|%d" % (show(g), a, b), a != b)
                    rep.count("rewire_cases")
                    try:
                        r = rewire(obj, a, b)
                        got = eval_io(r)
                        n = len(r.dom)
                        real = None
                    except Exception as exc:
                        got, real = None, "err " + err_class(exc)
                    if exact:
                        model = self.drv.ask("rewire %s %d %d" % (tok(g), a, b))
                        if real is None:
                            real = rec(got, 2 ** n, 2 ** n)
                        if real != model:
                            rep.disagree("rewire", case, real[:300], model[:300])
                        rep.count("exact_model_comparisons")
                        if got is not None:
                            spec = self.drv.ask("actson %s %d %d %d" % (tok(g), n, a, b))
                            if spec != model:
                                rep.disagree("rewire-vs-actson(model)", case, model[:300], spec[:300])
                    if a == b:
                        if got is not None:
                            rep.fail("rewire_accepts_equal_indices", case, "no ValueError")
                        continue
                    if got is None:
                        rep.fail("rewire_raises", case, real)
                        continue
                    if n != max(a, b) + 1:
                        rep.fail("rewire_wrong_arity", case, "dom has %d qubits" % n)
                        continue
                    self.float_cmp += 1
                    if not close(got, acts_on(op_io, n, a, b), TOL):
                        rep.fail("rewire_not_gate_on_a_b", case,
                                 "evaluation differs from the gate acting on qubits a and b")


def run(tier, seed, replay=None):
    rep = Report(PROP, tier, seed)
    thorough = tier == "thorough"
    rep.rule = ("(00) user-defined QuantumGates on ZERO qubits (global phases i, zeta, zeta^3, zeta^5, -1; float exp(i theta)), "
                "plain / daggered / twice daggered: alone, in adjacent pairs, inside every random circuit stream, and at "
                "every layer and offset of two fixed circuits (phase0-placement); "
                "(0) user-defined QuantumGate(name, n, array) boxes on 1-3 qubits (products of table gates, "
                "controlled-H, Toffoli; none symmetric under qubit reversal) with and without dagger flag, "
                "alone, controlled, and inside the random circuits; pairs of boxes that discopy's == confuses "
                "(Controlled(g)/Controlled(g.dagger()), box/dagger, (controlled) rotations whose phases agree "
                "to 3 digits) placed directly after one another; every circuit c also as c >> c.dagger(); "
                "(1) every gate of gates.GATES, their daggers, Controlled(g) for every 1-qubit g and "
                "their daggers, rotations Rx/Ry/Rz/CU1/CRz/CRx at all phases k/8 (|k| <= 16) and at "
                "random float phases, kets/bras for all bitstrings of length <= 3 (4 thorough); "
                "(2) random pure circuits on 0-4 wires, depth 1-8, gates at random offsets, kets/bras "
                "with random bitstrings, half of them at exactly representable phases (compared "
                "exactly with the model) and half at random float phases; (3) rewire(op, a, b) for "
                "all (a, b) with a, b < 4 (5 thorough) and 12 two-qubit ops. Non-trivial = a rotation "
                "at a non-zero phase, any other single gate, a circuit of >= 2 layers, a rewiring "
                "with a != b; distinct by printed form; "
                "(4) scalar boxes of both classes - scalar(z) and the square-root scalar sqrt(z) - alone, daggered, "
                "doubly daggered, inside the random circuits and in scalar-rich circuits (every second box a scalar "
                "box): data zero, positive, NEGATIVE real, purely imaginary, Gaussian in every quadrant, irrational, "
                "next to the branch cut; typed as int, float, complex, numpy.complex128, numpy.float64; exact stream "
                "z = w^2 for 23 roots w in Z[zeta_8]/2^e (the model is given the principal root and the driver "
                "confirms root^2 = z), float stream random complex z against cmath.sqrt; "
                "(5) calling conventions of Circuit.eval on the numpy route: c.eval(), c.eval(None), "
                "c.eval(backend=None), Circuit.eval(c, ...), batches first.eval(c1, ..., ck) of 1-5 circuits with "
                "every mix of pure / mixed (measuring, discarding, mixed state, encoding, bits next to qubits) / "
                "classical-only leaders and followers, mixed= absent / False / True, each pure circuit re-evaluated "
                "alone afterwards; Sum.eval over 1-3 terms (all pure, or one mixed term)")
    rep.partial = [
        "whole-circuit statements (product of unitaries is unitary, dagger of a product) are proved in Lean "
        "for every well-typed circuit over the gate set (GATES, rotations at phase indices n/8, Controlled(g), "
        "their daggers; kets/bras <= 4 bits and scalars for the dagger) and generically over any commutative "
        "star ring; that discopy's eval IS the ordered product of 1(x)gate(x)1 is C09's functor theorem plus "
        "the exact correspondence of this run; circuits with other gates (kets/bras > 4 bits, custom arrays on "
        ">= 1 qubits; 0-qubit custom gates ARE in circuit_dagger's gate set, phase0_dagOK) "
        "are covered by correspondence and the numpy oracle only",
        "rewire_spec is proved by `decide` for all (a, b) with a, b < 4 on one generic 4x4 matrix with 16 "
        "distinct entries, not for a symbolic op",
        "the tket matrices are transcribed (cross-checked against pytket at run time)",
        "square-root scalars: Z[zeta_8][1/2] is not closed under roots, so the model's sqrt box carries the value of "
        "z ** .5 with it (sqrt_dagger is a theorem for every z, r; that discopy's `data ** .5` IS that principal "
        "root is checked by the exact correspondence on 23 roots and by the float oracle against cmath.sqrt); "
        "sqrt(z).dagger() for a negative real z violates the property (finding F4k, witnessed in Lean)",
        "calling conventions: the model covers only WHICH functor evaluates each circuit of a call (evalModes / "
        "sumModes, circuit.py:247-253, 657-664, compared with the types of the results); the values of pure "
        "circuits are compared with evalCirc and the oracle, the values of mixed companions are not checked here "
        "(C12); the backend route (circuit.eval(backend)) is C13/C14's",
        "exact comparison falls back to a numeric comparison with the model's exact answer (relative 1e-9, counted "
        "as exact_fallback_to_float) when a product of scalars leaves the window in which floats are recognised"]
    rep.assumptions = [
        "float_oracle: comparisons at random real phases use tolerance 1e-9 against an independent numpy "
        "formula and against pytket 2.18.3 unitaries (tket angle = 2 x discopy phase)",
        "recognition of numpy floats in Z[zeta_8]/2^e uses tolerance 1e-9; all model comparisons are exact",
        "matrices are read in discopy's own [input, output] order: the standard matrix U[out][in] of the "
        "tket operation corresponds to the transposed array"]
    rep.lean = lean_obligations(PROP, thorough=thorough)
    rng = random.Random(seed)
    drv = Driver()
    try:
        chk = Check(rep, drv, rng, tier)
        rep.extra["model_switches"] = chk.switches
        # 1. single boxes
        chk.tket_table()
        singles = [("N", n) for n in qgen.NAMED1 + qgen.NAMED2] + [("W",)]
        singles += [("D", g) for g in list(singles)]
        ctrl = [("C", ("N", n)) for n in qgen.NAMED1] + [("C", ("D", ("N", n))) for n in qgen.NAMED1]
        ctrl += [("D", g) for g in list(ctrl)]
        custom = [("Q", q) for q in qgen.CUSTOM]
        custom += [("D", g) for g in list(custom)] + [("D", ("D", ("Q", q))) for q in qgen.CUSTOM2]
        custom += [("C", ("Q", q)) for q in qgen.CUSTOM1] + [("C", ("D", ("Q", q))) for q in qgen.CUSTOM1]
        custom += [("D", ("C", ("Q", q))) for q in qgen.CUSTOM1]
        for g in singles + ctrl:
            chk.one_gate(g, "table")
        for g in custom:
            chk.one_gate(g, "user-defined")
        for kind in qgen.ROT1 + qgen.ROT2:
            for n in range(-16, 17):
                if kind != "CU1" and n % 2:
                    g = ("R", kind, None, n / 8.0)
                else:
                    g = ("R", kind, n, n / 8.0)
                chk.one_gate(g, "rot-k/8")
                if kind in qgen.ROT1 and n % 4 == 2:
                    chk.one_gate(("C", ("R", kind, n, n / 8.0)), "rot-k/8")
            for _ in range(12 if not thorough else 150):
                ph = round(rng.uniform(-3, 3), 6)
                chk.one_gate(("R", kind, None, ph), "rot-float")
                if kind in qgen.ROT1:
                    chk.one_gate(("C", ("R", kind, None, ph)), "rot-float")
        chk.tket_rotations(10 if not thorough else 200)
        for k in range(0, 4 if not thorough else 5):
            for bits in itertools.product((0, 1), repeat=k):
                chk.one_gate(("K", bits), "ketbra")
                chk.one_gate(("B", bits), "ketbra")
        for t in qgen.EXACT_SCALARS:
            chk.one_gate(("S", t, cyc8.to_complex(t)), "scalar")
        chk.scalar_boxes(40 if not thorough else 600)
        # 2. circuits
        n_circ = 600 if not thorough else 6000
        for k in range(n_circ):
            chk.circuit_case(exact=(k % 2 == 0), twins=(0.4 if k % 3 == 0 else 0.0),
                             unitary=(k % 4 >= 2), stream="circuit")
        for k in range(150 if not thorough else 1500):
            chk.circuit_case(exact=(k % 2 == 0), stream="scalar-rich-circuit", gateset=scalar_rich)
        chk.adjacent_pairs(3 if not thorough else 25)
        chk.phase_placements(30 if not thorough else 400, full=thorough)
        # 2b. calling conventions
        chk.eval_conventions(120 if not thorough else 1500, 40 if not thorough else 500)
        # 3. rewire
        chk.rewire_cases(4 if not thorough else 5)
        rep.extra["float_oracle_comparisons"] = chk.float_cmp
        rep.extra["exact_model_comparisons"] = rep.dist.get("exact_model_comparisons", 0)
    finally:
        drv.close()
    return rep.finish()
