"""C17 — export to and import from pyzx graphs preserve the ZX diagram.

Streams
  export     random ZX diagrams (simple underlying graph) -> `Diagram.to_pyzx`; the exported graph is
             compared token by token with the Lean model's graph (functional correspondence) and
             `pyzx.tensorfy(graph)` with an independent textbook ZX evaluator (oracle)
  roundtrip  `Diagram.from_pyzx(d.to_pyzx())`: diagram compared with the model's; oracle: well-typed,
             same arities, same matrix as `d` with its scalar boxes removed
  import     random simple pyzx graphs built directly with pyzx -> `from_pyzx`; model comparison;
             oracle: matrix * graph.scalar == tensorfy(graph)
  refusal    graphs with undeclared / shared boundary vertices must be refused (ValueError)
  state      every `from_pyzx(g)` is run twice on the same graph object with the graph serialised
             before and after (import must not change the caller's graph; the second import must
             return the same diagram); every diagram is exported twice (same graph, diagram unchanged)

The installed pyzx 0.10.6 no longer has the Graph API the pinned discopy was written against; the
property's `observe_at` allows an in-process adapter (class `CompatGraph`, see its docstring for the
complete list of translations).  Nothing in /repo is touched.
"""
import contextlib
import inspect
import itertools
import random
import textwrap
from fractions import Fraction

import numpy as np

from common import Driver, Report, wf_failure, lean_obligations, err_class

PROP = "C17"
TOL = 1e-9

# --------------------------------------------------------------------------- pyzx adapter


def _make_adapter():
    import pyzx
    from pyzx.graph.graph_s import GraphS

    class IOList(list):
        """A list that can also be *called* (returns a tuple): pyzx 0.10.6 internals call
        `g.inputs()`, the pinned discopy uses the attribute `g.inputs` as a list."""
        def __call__(self):
            return tuple(self)

    class CompatGraph(GraphS):
        """pyzx.graph.graph_s.GraphS of pyzx 0.10.6 with the API *shape* of the pyzx the pinned
        discopy was written against.  Pure translations, nothing else is overridden:

        T1  `inputs` / `outputs` are list-valued attributes (append, +, in, len, assignment) —
            in 0.10.6 they are methods returning tuples set through `set_inputs/set_outputs`.
            They stay callable, and `_inputs/_outputs`, `set_inputs/set_outputs` are views of the
            same lists, so pyzx's own code (tensorfy, num_inputs, …) sees the same boundary.
        T2  `set_phase` accepts a Python float and stores `Fraction(phase) % 2` exactly, as the
            pinned pyzx did (0.10.6 raises TypeError on floats unless a global setting is
            switched to *rounding*; the exact conversion does not round).
        T3  `edge_type(e)` of a pair that is not an edge returns 0 as the pinned pyzx did
            (0.10.6 evaluates `EdgeType(0)`, which raises ValueError because 0 is not a member).
            discopy asks for the type of non-edges only through a logic error of its own
            (finding C17-1); T3 keeps that error observable in the form it had: a Hadamard edge
            silently read as a plain one, instead of a crash inside pyzx's enum.
        """
        def _get_in(self):
            return self.__dict__["_io_in"]

        def _set_in(self, value):
            self.__dict__["_io_in"] = IOList(value)

        def _get_out(self):
            return self.__dict__["_io_out"]

        def _set_out(self, value):
            self.__dict__["_io_out"] = IOList(value)

        inputs = property(_get_in, _set_in)
        outputs = property(_get_out, _set_out)
        _inputs = property(lambda self: tuple(self.__dict__["_io_in"]), _set_in)
        _outputs = property(lambda self: tuple(self.__dict__["_io_out"]), _set_out)

        def set_inputs(self, value):
            self._set_in(value)

        def set_outputs(self, value):
            self._set_out(value)

        def set_phase(self, vertex, phase):
            if isinstance(phase, float):
                phase = Fraction(phase)
            GraphS.set_phase(self, vertex, phase)

        def edge_type(self, e):
            v1, v2 = e
            try:
                return self.graph[v1][v2]
            except KeyError:
                return 0

    return pyzx, GraphS, CompatGraph


@contextlib.contextmanager
def adapter_installed():
    """`from pyzx import Graph` inside `to_pyzx` resolves `pyzx.Graph` at call time: swap the
    factory for the duration of the check only."""
    pyzx, _, CompatGraph = _make_adapter()
    old = pyzx.Graph
    pyzx.Graph = lambda *a, **k: CompatGraph()
    try:
        yield CompatGraph
    finally:
        pyzx.Graph = old


def to_plain(g):
    """Copy of a graph as an unmodified pyzx 0.10.6 GraphS (what the oracle hands to tensorfy)."""
    from pyzx.graph.graph_s import GraphS
    p = GraphS()
    for v in g.vertices():
        p.add_vertex(g.type(v), qubit=g.qubit(v), row=g.row(v), phase=g.phase(v), index=v)
    for v in g.vertices():
        for w in g.neighbors(v):
            if v < w:
                p.add_edge((v, w), g.graph[v][w])
    p.set_inputs(tuple(g.inputs() if callable(g.inputs) else g.inputs))
    p.set_outputs(tuple(g.outputs() if callable(g.outputs) else g.outputs))
    p.scalar = g.scalar.copy()
    return p


def to_compat(g, CompatGraph):
    """The same graph in the API shape discopy expects (for graphs built directly with pyzx)."""
    c = CompatGraph()
    for v in g.vertices():
        c.add_vertex(g.type(v), qubit=g.qubit(v), row=g.row(v), phase=g.phase(v), index=v)
    for v in g.vertices():
        for w in g.neighbors(v):
            if v < w:
                c.add_edge((v, w), g.graph[v][w])
    c.inputs = list(g.inputs())
    c.outputs = list(g.outputs())
    c.scalar = g.scalar.copy()
    return c


# --------------------------------------------------------------------------- exact scalars

def gauss_norm(re, im, e):
    """(re + i im) / 2^e with e minimal."""
    while e > 0 and re % 2 == 0 and im % 2 == 0:
        re, im, e = re // 2, im // 2, e - 1
    if re == 0 and im == 0:
        e = 0
    return re, im, e


def gauss_of_complex(z):
    z = complex(z)
    fr, fi = Fraction(z.real), Fraction(z.imag)   # exact: floats are dyadic
    e = max(fr.denominator.bit_length() - 1, fi.denominator.bit_length() - 1)
    return gauss_norm(int(fr * 2 ** e), int(fi * 2 ** e), e)


def gauss_to_complex(t):
    re, im, e = t
    return complex(re, im) / 2 ** e


SCALARS = [(1, 0, 1), (2, 0, 0), (0, 1, 0), (-1, 0, 0), (1, 1, 0), (0, 1, 2), (-1, -1, 1),
           (3, 0, 0), (3, 0, 1), (1, -2, 3), (0, 0, 0)]


# --------------------------------------------------------------------------- diagram descriptions
# a description is (dom, [box]) with box = dict(k=Z|X|H|S|C, i=n_in, o=n_out, p=phase numerator
# over 8, c=(re, im, e) for scalars, off=offset)

def width_after(dom, boxes):
    w = dom
    for b in boxes:
        w += b["o"] - b["i"]
    return w


def gen_diagram(rng, stats, max_depth=7, max_width=5, max_dom=4):
    """Grow a ZX diagram layer by layer, keeping the underlying graph simple: a spider may not
    consume two wires produced by the same spider (boundaries have one wire, so spider pairs
    are the only way to get a parallel edge; self-loops cannot be drawn).  Rejected candidate
    boxes are counted in `stats`."""
    dom = rng.randint(0, max_dom)
    prod = [("in", k) for k in range(dom)]
    boxes = []
    depth = rng.randint(0, max_depth)
    tries = 0
    while len(boxes) < depth and tries < 60:
        tries += 1
        w = len(prod)
        r = rng.random()
        if r < 0.55:
            n_in = rng.randint(0, min(3, w))
            n_out = rng.randint(0, 3)
            if w - n_in + n_out > max_width:
                continue
            off = rng.randint(0, w - n_in)
            stats["spider_candidates"] = stats.get("spider_candidates", 0) + 1
            used = prod[off:off + n_in]
            if len(set(used)) < len(used):
                stats["rejected_parallel_edge"] = stats.get("rejected_parallel_edge", 0) + 1
                continue
            k = rng.choice("ZX")
            p = rng.choice([0, 0, 1, 2, 3, 4, 5, 6, 7, 8, 9, 12, -1, -2, -4, -7])
            me = ("sp", len(boxes))
            boxes.append(dict(k=k, i=n_in, o=n_out, p=p, c=None, off=off))
            prod = prod[:off] + [me] * n_out + prod[off + n_in:]
        elif r < 0.70:
            if w < 1:
                continue
            off = rng.randint(0, w - 1)
            boxes.append(dict(k="H", i=1, o=1, p=0, c=None, off=off))
        elif r < 0.87:
            if w < 2:
                continue
            off = rng.randint(0, w - 2)
            boxes.append(dict(k="S", i=2, o=2, p=0, c=None, off=off))
            prod = prod[:off] + [prod[off + 1], prod[off]] + prod[off + 2:]
        else:
            off = rng.randint(0, w)
            boxes.append(dict(k="C", i=0, o=0, p=0, c=rng.choice(SCALARS), off=off))
    return dom, boxes


def build_real(desc):
    """The real diagram, through the public scanning constructor (no >> / @ involved)."""
    from discopy.quantum import zx
    from discopy.rigid import PRO
    dom, boxes = desc
    real = []
    for n, b in enumerate(boxes):
        if b["k"] in "ZX":
            phase = b["p"] / 8 if b["p"] else 0
            real.append((zx.Z if b["k"] == "Z" else zx.X)(b["i"], b["o"], phase))
        elif b["k"] == "H":
            real.append(zx.H if n % 2 else zx.Had())
        elif b["k"] == "S":
            real.append(zx.SWAP)
        else:
            z = gauss_to_complex(b["c"])
            real.append(zx.scalar(z.real if b["c"][1] == 0 and n % 2 else z))
    return zx.Diagram(PRO(dom), PRO(width_after(dom, boxes)), real, [b["off"] for b in boxes])


def tok_desc(desc):
    dom, boxes = desc
    out = [str(dom), str(len(boxes))]
    for b in boxes:
        c = b["c"] or (0, 0, 0)
        out += [b["k"], str(b["i"]), str(b["o"]), str(b["p"]), "8",
                str(c[0]), str(c[1]), str(c[2]), str(b["off"])]
    return " ".join(out)


def phase_tok(x):
    """Exact rational of a phase held as int / float / Fraction."""
    f = Fraction(x)
    return "%d %d" % (f.numerator, f.denominator)


def ser_zx_diagram(d):
    """Canonical token form of a real zx.Diagram (same format as the driver's)."""
    from discopy.quantum import zx
    out = [str(len(d.dom)), str(len(d.cod)), str(len(d.boxes))]
    for box, off in zip(d.boxes, d.offsets):
        if isinstance(box, zx.Z) or isinstance(box, zx.X):
            out += ["Z" if isinstance(box, zx.Z) else "X", str(len(box.dom)), str(len(box.cod)),
                    phase_tok(box.phase), "0 0 0"]
        elif isinstance(box, zx.Swap):
            out += ["S", "2", "2", "0 1", "0 0 0"]
        elif isinstance(box, zx.Scalar):
            out += ["C", "0", "0", "0 1", "%d %d %d" % gauss_of_complex(box.data)]
        elif box == zx.H:
            out += ["H", "1", "1", "0 1", "0 0 0"]
        else:
            out += ["?" + type(box).__name__, str(len(box.dom)), str(len(box.cod)), "0 1", "0 0 0"]
        out.append(str(int(off)))
    return " ".join(out)


# --------------------------------------------------------------------------- graphs

def ser_graph(g):
    """Canonical token form of a pyzx graph: vertices by index with type, phase (exact), qubit,
    row; sorted edge list with types; inputs; outputs; scalar (exact Gaussian dyadic)."""
    vs = sorted(g.vertices())
    out = ["V", str(len(vs))]
    for v in vs:
        q, r = g.qubit(v), g.row(v)
        out += [str(int(g.type(v))), phase_tok(g.phase(v)),
                str(int(q)) if q == int(q) else repr(q), str(int(r)) if r == int(r) else repr(r)]
    if vs != list(range(len(vs))):
        out.append("noncontiguous-ids")
    es = sorted((min(s, t), max(s, t), int(g.graph[s][t])) for s in g.vertices()
                for t in g.graph[s] if s <= t)
    out += ["E", str(len(es))]
    for e in es:
        out += [str(x) for x in e]
    ins = list(g.inputs()) if callable(g.inputs) else list(g.inputs)
    outs = list(g.outputs()) if callable(g.outputs) else list(g.outputs)
    out += ["I", str(len(ins))] + [str(v) for v in ins]
    out += ["O", str(len(outs))] + [str(v) for v in outs]
    sc = g.scalar
    plain = (sc.power2 == 0 and sc.phase == 0 and not sc.phasenodes and not sc.sum_of_phases
             and not sc.is_unknown)
    out += ["S"] + ([str(x) for x in gauss_of_complex(sc.floatfactor)] if plain else ["nonplain"])
    return " ".join(out)


def tok_graph(g, edge_order=None):
    """Request form for the driver: vertices (type, phase), edges in insertion order, I, O."""
    vs = sorted(g.vertices())
    assert vs == list(range(len(vs)))
    out = [str(len(vs))]
    for v in vs:
        out += [str(int(g.type(v))), phase_tok(g.phase(v))]
    es = edge_order if edge_order is not None else sorted(
        (min(s, t), max(s, t)) for s in g.vertices() for t in g.graph[s] if s < t)
    out.append(str(len(es)))
    for s, t in es:
        out += [str(s), str(t), str(int(g.graph[s][t]))]
    ins = list(g.inputs()) if callable(g.inputs) else list(g.inputs)
    outs = list(g.outputs()) if callable(g.outputs) else list(g.outputs)
    out += [str(len(ins))] + [str(v) for v in ins] + [str(len(outs))] + [str(v) for v in outs]
    return " ".join(out)


def gen_graph(rng, stats):
    """A random simple pyzx graph of Z/X spiders with declared, disjoint inputs and outputs,
    built directly with pyzx 0.10.6 (`GraphS`, `add_vertex`, `add_edge`, `set_inputs`)."""
    from pyzx.graph.graph_s import GraphS
    from pyzx.utils import VertexType, EdgeType
    n_in, n_out, n_sp = rng.randint(0, 3), rng.randint(0, 3), rng.randint(0, 5)
    roles = ["i"] * n_in + ["s"] * n_sp + ["o"] * n_out
    shuffled = rng.random() < 0.3
    if shuffled:
        rng.shuffle(roles)
    stats["graph_order:" + ("shuffled" if shuffled else "natural")] = \
        stats.get("graph_order:" + ("shuffled" if shuffled else "natural"), 0) + 1
    g = GraphS()
    ids = {"i": [], "s": [], "o": []}
    for k, role in enumerate(roles):
        if role == "s":
            v = g.add_vertex(rng.choice([VertexType.Z, VertexType.X]), qubit=k, row=1 + k,
                             phase=Fraction(rng.choice([0, 0, 1, 2, 3, 4, 5, 6, 7]), 4))
        else:
            v = g.add_vertex(VertexType.BOUNDARY, qubit=k, row=0 if role == "i" else len(roles) + 2)
        ids[role].append(v)
    et = lambda: EdgeType.HADAMARD if rng.random() < 0.35 else EdgeType.SIMPLE
    edges = []
    for a, b in itertools.combinations(ids["s"], 2):
        if rng.random() < 0.4:
            edges.append((a, b, et()))
    free_out = list(ids["o"])
    rng.shuffle(free_out)
    for v in ids["i"]:
        if ids["s"] and (not free_out or rng.random() < 0.8):
            edges.append((v, rng.choice(ids["s"]), et()))
        elif free_out:
            edges.append((v, free_out.pop(), et()))
        else:
            return None
    for v in free_out:
        if not ids["s"]:
            return None
        edges.append((rng.choice(ids["s"]), v, et()))
    rng.shuffle(edges)
    for a, b, t in edges:
        g.add_edge((a, b), t)
    ins, outs = list(ids["i"]), list(ids["o"])
    rng.shuffle(ins)
    rng.shuffle(outs)
    g.set_inputs(tuple(ins))
    g.set_outputs(tuple(outs))
    if rng.random() < 0.3:
        g.scalar.add_float(gauss_to_complex(rng.choice(SCALARS[:-1])))
    return g, [(a, b) for a, b, _ in edges]


# --------------------------------------------------------------------------- independent evaluator

HAD = np.array([[1, 1], [1, -1]], dtype=complex) / np.sqrt(2)


def spider_tensor(kind, n_in, n_out, turns):
    """Textbook definition.  Z: |0..0><0..0| + e^{2 pi i turns} |1..1><1..1| (a legless spider is the
    number 1 + e^{i alpha}); X: the same conjugated by a Hadamard on every leg.  Axes: outputs, inputs."""
    n = n_in + n_out
    t = np.zeros([2] * n, dtype=complex)
    ph = np.exp(2j * np.pi * turns)
    if n == 0:
        t[()] = 1 + ph
    else:
        t[(0,) * n] = 1
        t[(1,) * n] = ph
    if kind == "X":
        for ax in range(n):
            t = np.moveaxis(np.tensordot(t, HAD, axes=([ax], [0])), -1, ax)
    return t


def box_tensor(b):
    """(tensor with axes outputs+inputs, n_in, n_out) of a box description."""
    k = b["k"]
    if k in "ZX":
        return spider_tensor(k, b["i"], b["o"], Fraction(b["p"], b.get("q", 8)))
    if k == "H":
        return HAD.copy()
    if k == "S":
        t = np.zeros((2, 2, 2, 2), dtype=complex)          # out0 out1 in0 in1
        for a in range(2):
            for c in range(2):
                t[c, a, a, c] = 1
        return t
    return np.array(gauss_to_complex(b["c"]), dtype=complex)


def evaluate(dom, boxes):
    """Tensor of a diagram description, axes: outputs first, then inputs (each axis of size 2)."""
    n = dom
    t = np.eye(2 ** n, dtype=complex).reshape([2] * (2 * n))   # in axes, then wire axes
    width = n
    for b in boxes:
        m, ni, no, off = box_tensor(b), b["i"], b["o"], b["off"]
        assert 0 <= off and off + ni <= width
        wire_axes = [n + off + j for j in range(ni)]
        t = np.tensordot(t, m, axes=(wire_axes, list(range(no, no + ni))))
        # new axes (the box outputs) are last: move them to position n + off
        for j in range(no):
            t = np.moveaxis(t, t.ndim - no + j, n + off + j)
        width += no - ni
    return np.transpose(t, list(range(n, n + width)) + list(range(n)))


def desc_of_real(d):
    """Description of a real zx diagram (for evaluating what from_pyzx returned)."""
    from discopy.quantum import zx
    boxes = []
    for box, off in zip(d.boxes, d.offsets):
        if isinstance(box, (zx.Z, zx.X)):
            f = Fraction(box.phase)
            boxes.append(dict(k="Z" if isinstance(box, zx.Z) else "X", i=len(box.dom),
                              o=len(box.cod), p=f.numerator, q=f.denominator, c=None, off=off))
        elif isinstance(box, zx.Swap):
            boxes.append(dict(k="S", i=2, o=2, p=0, c=None, off=off))
        elif isinstance(box, zx.Scalar):
            boxes.append(dict(k="C", i=0, o=0, p=0, c=gauss_of_complex(box.data), off=off))
        elif box == zx.H:
            boxes.append(dict(k="H", i=1, o=1, p=0, c=None, off=off))
        else:
            raise ValueError("unexpected box %r" % (box,))
    return len(d.dom), boxes


def close(a, b):
    a, b = np.asarray(a), np.asarray(b)
    if a.shape != b.shape:
        return False
    scale = max(1.0, float(np.abs(a).max()) if a.size else 1.0)
    return bool(np.abs(a - b).max() <= TOL * scale) if a.size else True


# --------------------------------------------------------------------------- proposed patches

PATCHES = {
    # C17-1: `move` labels the moved scan entry with the closure variable `node` (the spider being
    # built) instead of the entry that moves; its `target > source` branch is also off by one
    "move_label": [
        ("scan = scan[:target] + [node]\\\n", "scan = scan[:target] + [scan[source]]\\\n"),
        ("scan = scan[:source] + scan[source + 1:target]\\\n",
         "scan = scan[:source] + scan[source + 1:target + 1]\\\n"),
        ("+ [node] + scan[target:]\n", "+ [scan[source]] + scan[target + 1:]\n"),
    ],
    # C17-2: the output loop searches the whole scan, finding wires already put in place
    "output_search": [
        ("scan, swaps = move(scan, scan.index(node), target)\n",
         "scan, swaps = move(scan, scan.index(node, target), target)\n"),
    ],
}


# Which repairs of the model's `Fix` flags the tree in /repo contains (moveLabel, outputSearch):
# both since the fix: commits 1c99d10 and cf1604e (findings F19, F20).
TREE_FIX = "11"


def patched_from_pyzx(names):
    """`Diagram.from_pyzx` with the named proposed patches applied to the CURRENT source text
    (None if a patch no longer applies, i.e. the tree has changed there)."""
    from discopy.quantum import zx
    src = textwrap.dedent(inspect.getsource(zx.Diagram.from_pyzx))
    src = src.replace("@staticmethod\n", "", 1)
    for name in names:
        for old, new in PATCHES[name]:
            if src.count(old) != 1:
                return None
            src = src.replace(old, new)
    ns = dict(vars(zx))
    exec(compile(src, "<from_pyzx patched: %s>" % "+".join(names), "exec"), ns)
    return ns["from_pyzx"]


# --------------------------------------------------------------------------- the check

NEEDS = {(True, False): "move_bookkeeping", (False, True): "output_search",
         (True, True): "either", (False, False): "both"}


def judge_import(d2, n_in, n_out, want, factor=1):
    """The property's predicate on an imported diagram: None, or (kind, text).  `factor` is the
    scalar the graph carries and the diagram cannot (graph.scalar / the scalar boxes)."""
    why = wf_failure(d2)
    if why is not None:
        return "illtyped", why
    if (len(d2.dom), len(d2.cod)) != (n_in, n_out):
        return "arity", "imported diagram has %d inputs, %d outputs; expected %d, %d" % (
            len(d2.dom), len(d2.cod), n_in, n_out)
    try:
        got = evaluate(*desc_of_real(d2)) * factor
    except Exception as exc:
        return "foreign_box", repr(exc)
    if not close(want, got):
        return "matrix", "max |difference| = %.3g (tolerance %g, scaled)" % (
            float(np.abs(want - got).max()), TOL)
    return None


def attempt(fn, graph):
    try:
        return fn(graph), None
    except Exception as exc:  # noqa: the class is the observation
        return None, exc


def import_observed(rep, case, stream, graph):
    """`Diagram.from_pyzx(graph)` run TWICE on the same graph object, with the graph serialised
    (vertices, types, phases, positions, typed edges, inputs, outputs, scalar) before and after
    each call.  Importing must not change the caller's graph, and importing the same graph again
    must give the same diagram (state carried between calls — e.g. a scan that aliases
    `graph.inputs` and is reordered in place — shows up here and nowhere else: the first diagram
    can be right while the graph is silently corrupted).  Returns the first call's (diagram, exc)."""
    from discopy.quantum import zx
    before = ser_graph(graph)
    d2, exc = attempt(zx.Diagram.from_pyzx, graph)
    first = "err " + err_class(exc) if exc else "ok " + ser_zx_diagram(d2)
    after = ser_graph(graph)
    if after != before:
        rep.count(stream + "_graph_mutated")
        rep.fail("from_pyzx_mutates_graph:" + stream, dict(case, graph_before=before[:600],
                                                            graph_after=after[:600]),
                 "from_pyzx changed the graph it was given (first difference at token %d): the graph "
                 "no longer denotes what it denoted; returned %s" % (
                     next((i for i, (a, b) in enumerate(zip(before.split(), after.split()))
                           if a != b), -1), first[:200]))
    d2b, excb = attempt(zx.Diagram.from_pyzx, graph)
    second = "err " + err_class(excb) if excb else "ok " + ser_zx_diagram(d2b)
    if second != first:
        rep.count(stream + "_second_import_differs")
        rep.fail("from_pyzx_not_repeatable:" + stream, dict(case, first=first[:600],
                                                             second=second[:600]),
                 "importing the same graph object a second time gives a different result: "
                 "first %s, then %s" % (str(d2)[:200] if exc is None else first,
                                        str(d2b)[:200] if excb is None else second))
    elif ser_graph(graph) != before:
        rep.fail("from_pyzx_mutates_graph:" + stream + "_second_call", case,
                 "the second from_pyzx call changed the graph")
    rep.count(stream + "_imported_twice")
    return d2, exc


def attribute(variants, graph, n_in, n_out, want, factor=1):
    """Which of the proposed patches make the property hold on this graph."""
    ok = {}
    for names, fn in variants.items():
        if fn is None:
            ok[names] = False
            continue
        d2, exc = attempt(fn, graph)
        ok[names] = exc is None and judge_import(d2, n_in, n_out, want, factor) is None
    if not ok[("move_label", "output_search")]:
        return None
    return NEEDS[(ok[("move_label",)], ok[("output_search",)])]


def run(tier, seed, replay=None):
    import pyzx
    from discopy.quantum import zx
    rep = Report(PROP, tier, seed)
    rep.rule = ("random ZX diagrams over Z/X spiders (0-3 legs each side, phases k/8 incl. negative "
                "and > 1), H, SWAP, scalars; 0-4 input wires, <= 5 wires inside, depth <= 7, simple "
                "underlying graph by construction (rejections counted); random simple pyzx graphs "
                "(0-3 inputs, 0-3 outputs, 0-5 spiders, 35% Hadamard edges, 30% with shuffled vertex "
                "ids) built with pyzx itself; non-trivial = at least two boxes one of which is a "
                "spider with >= 2 legs (diagrams) / at least two spiders or a Hadamard edge (graphs); "
                "distinct by token form; every import is repeated on the same graph object and the "
                "graph compared before/after, every export is repeated")
    rep.partial = [
        "meaning clauses (tensorfy(exported graph) = matrix of the diagram; imported diagram "
        "denotes the graph) rest on pyzx.tensorfy and the harness evaluator through the oracle "
        "only: neither semantics is in the Lean model",
        "from_pyzx: the round trip is NOT correct in the tree (findings C17-1, C17-2; witnesses "
        "decided in Lean, failures attributed by re-running the patched source); the theorems "
        "about the import cover typing, the spider list, refusal and move",
        "the model's graph is the list of add_edge requests; it is pyzx's adjacency structure "
        "under the property's simple-graph hypothesis only (to_pyzx_simple_neighbours)",
    ]
    rep.assumptions = [
        "pyzx 0.10.6 seen through the adapter CompatGraph (translations T1-T3 in its docstring: "
        "list-valued callable inputs/outputs, exact Fraction of float phases, edge_type of a "
        "non-edge is 0 as in the pinned pyzx); nothing in /repo is patched",
        "oracle = pyzx.tensorfy(graph, strategy='naive'), the algorithm of the pinned pyzx; the "
        "default strategy of 0.10.6 ('auto' = rank-width contraction after full_reduce) is run as "
        "well and its agreement is recorded, its internal crashes are not attributed to discopy",
        "matrices compared with absolute tolerance 1e-9 scaled by max(1, max |entry|)",
        "graphs with an edge joining two inputs or two outputs are outside the generator "
        "(pyzx's own tensorfy does not support them)",
    ]
    rep.lean = lean_obligations(PROP, thorough=(tier == "thorough"))
    n_diag = 500 if tier == "quick" else 8000
    n_graph = 300 if tier == "quick" else 5000
    n_refuse = 100 if tier == "quick" else 1000
    rng = random.Random(seed)
    stats = {}
    drv = Driver()
    try:
        with adapter_installed() as CompatGraph:
            variants = {names: patched_from_pyzx(list(names)) for names in
                        [("move_label",), ("output_search",), ("move_label", "output_search")]}
            rep.extra["proposed_patches_apply"] = {
                "+".join(k): v is not None for k, v in variants.items()}
            both = variants[("move_label", "output_search")]
            t3 = {"n": 0}
            orig_et = CompatGraph.edge_type

            def counting_edge_type(self, e):
                r = orig_et(self, e)
                if r == 0:
                    t3["n"] += 1
                return r
            CompatGraph.edge_type = counting_edge_type

            # ---------------------------------------------------------------- diagrams
            descs = [gen_diagram(rng, stats) for _ in range(n_diag)]
            full = [(dom, width_after(dom, boxes), boxes) for dom, boxes in descs]
            toks = ["%d %d %s" % (dom, cod, tok_desc((dom, boxes)).split(" ", 1)[1])
                    for dom, cod, boxes in full]
            ans_export = drv.ask_many(["zx_export " + t for t in toks])
            ans_rt = drv.ask_many(["zx_roundtrip " + TREE_FIX + " " + t for t in toks])
            ans_rt_fixed = drv.ask_many(["zx_roundtrip 11 " + t for t in toks])
            for desc, tok, m_exp, m_rt, m_fix in zip(descs, toks, ans_export, ans_rt, ans_rt_fixed):
                dom, boxes = desc
                case = dict(diagram=tok)
                d = build_real(desc)
                case["repr"] = str(d)[:300]
                n_sp = sum(b["k"] in "ZX" for b in boxes)
                rep.count("diagram_boxes:%d" % len(boxes))
                rep.count("diagram_dom:%d" % dom)
                for b in boxes:
                    rep.count("box:" + b["k"])
                nontrivial = len(boxes) >= 2 and any(
                    b["k"] in "ZX" and b["i"] + b["o"] >= 2 for b in boxes)
                rep.case("diagram " + tok, nontrivial)
                rep.sample(dict(stream="export", diagram=str(d)[:200]))
                # export: correspondence
                d_before = ser_zx_diagram(d)
                g, exc = attempt(lambda x: x.to_pyzx(), d)
                real = "err " + err_class(exc) if exc else "ok " + ser_graph(g) + " simple 1"
                if real != m_exp:
                    rep.disagree("export", case, real, m_exp)
                # exporting must neither change the diagram nor depend on earlier exports
                g_again, exc_again = attempt(lambda x: x.to_pyzx(), d)
                real_again = "err " + err_class(exc_again) if exc_again else \
                    "ok " + ser_graph(g_again) + " simple 1"
                if real_again != real or g_again is g and g is not None:
                    rep.fail("to_pyzx_not_repeatable", dict(case, first=real[:600],
                                                            second=real_again[:600]),
                             "exporting the same diagram twice gives different graphs (or the "
                             "same graph object)")
                if ser_zx_diagram(d) != d_before:
                    rep.fail("to_pyzx_mutates_diagram", case, "to_pyzx changed the diagram")
                rep.count("exported_twice")
                if exc is not None:
                    rep.fail("to_pyzx_raises:" + err_class(exc), case, repr(exc))
                    continue
                # export: oracle
                plain = to_plain(g)
                if ser_graph(plain) != ser_graph(g):
                    rep.disagree("adapter_view", case, ser_graph(g), ser_graph(plain))
                want = evaluate(dom, boxes)
                got = pyzx.tensorfy(plain, strategy="naive")
                if len(g.inputs) != dom or len(g.outputs) != width_after(dom, boxes):
                    rep.fail("export_arity", case, "inputs/outputs %d/%d" % (
                        len(g.inputs), len(g.outputs)))
                elif not close(want, got):
                    rep.fail("export_matrix", case, "tensorfy(graph) differs from the diagram: "
                             "max |difference| = %.3g" % float(np.abs(want - got).max()))
                try:
                    auto = pyzx.tensorfy(to_plain(g))
                    rep.count("pyzx_auto_strategy:" + ("agrees" if close(want, auto) else "DIFFERS"))
                except Exception as exc2:
                    rep.count("pyzx_auto_strategy:internal_error_" + type(exc2).__name__)
                # round trip: correspondence (tree and patched) and oracle
                stripped = [b for b in boxes if b["k"] != "C"]
                want_rt = evaluate(dom, stripped)
                d2, exc = import_observed(rep, case, "roundtrip", g)
                real = "err " + err_class(exc) if exc else "ok " + ser_zx_diagram(d2)
                if real != m_rt:
                    rep.disagree("roundtrip", case, real, m_rt)
                if both is not None:
                    d3, exc3 = attempt(both, g)
                    real3 = "err " + err_class(exc3) if exc3 else "ok " + ser_zx_diagram(d3)
                    if real3 != m_fix:
                        rep.disagree("roundtrip_patched", case, real3, m_fix)
                verdict = ("raises", repr(exc)) if exc else judge_import(
                    d2, dom, width_after(dom, boxes), want_rt)
                rep.count("roundtrip:" + ("ok" if verdict is None else verdict[0]))
                if verdict is not None:
                    needs = attribute(variants, g, dom, width_after(dom, boxes), want_rt)
                    sig = ("from_pyzx:needs_" + needs) if needs else \
                        "from_pyzx_roundtrip_unexplained:" + verdict[0]
                    rep.count("roundtrip_failure:" + sig)
                    rep.fail(sig, case, "from_pyzx(to_pyzx(d)): %s; got %s" % (
                        verdict[1], str(d2)[:200]))

            # ---------------------------------------------------------------- graphs
            graphs = []
            while len(graphs) < n_graph:
                gg = gen_graph(rng, stats)
                if gg is not None:
                    graphs.append(gg)
            gtoks = [tok_graph(g, order) for g, order in graphs]
            ans_imp = drv.ask_many(["zx_import " + TREE_FIX + " " + t for t in gtoks])
            ans_imp_fixed = drv.ask_many(["zx_import 11 " + t for t in gtoks])
            for (g, order), tok, m_imp, m_fix in zip(graphs, gtoks, ans_imp, ans_imp_fixed):
                case = dict(graph=tok)
                n_in, n_out = len(g.inputs()), len(g.outputs())
                n_sp = sum(1 for v in g.vertices() if int(g.type(v)) != 0)
                n_h = sum(1 for e in g.edges() if int(g.edge_type(e)) == 2)
                rep.count("graph_spiders:%d" % n_sp)
                rep.count("graph_hadamard_edges:%d" % min(n_h, 4))
                rep.case("graph " + tok, n_sp >= 2 or n_h >= 1)
                rep.sample(dict(stream="import", graph=tok[:200]), cap=6)
                cg = to_compat(g, CompatGraph)
                want = pyzx.tensorfy(g, strategy="naive")
                factor = g.scalar.to_number()
                d2, exc = import_observed(rep, case, "import", cg)
                if ser_graph(cg) != ser_graph(g):
                    rep.fail("from_pyzx_mutates_graph:import_vs_original", case,
                             "after from_pyzx the graph differs from the pyzx graph it was copied from")
                real = "err " + err_class(exc) if exc else "ok " + ser_zx_diagram(d2)
                if real != m_imp:
                    rep.disagree("import", case, real, m_imp)
                if both is not None:
                    d3, exc3 = attempt(both, cg)
                    real3 = "err " + err_class(exc3) if exc3 else "ok " + ser_zx_diagram(d3)
                    if real3 != m_fix:
                        rep.disagree("import_patched", case, real3, m_fix)
                verdict = ("raises", repr(exc)) if exc else judge_import(
                    d2, n_in, n_out, want, factor)
                rep.count("import:" + ("ok" if verdict is None else verdict[0]))
                if verdict is not None:
                    needs = attribute(variants, cg, n_in, n_out, want, factor)
                    sig = ("from_pyzx:needs_" + needs) if needs else \
                        "from_pyzx_import_unexplained:" + verdict[0]
                    rep.count("import_failure:" + sig)
                    rep.fail(sig, case, "from_pyzx(graph): %s; got %s" % (verdict[1], str(d2)[:200]))

            # ---------------------------------------------------------------- refusal
            pool = [(to_compat(g, CompatGraph), order) for g, order in graphs
                    if len(g.inputs()) + len(g.outputs()) >= 1]
            lines, reals, cases = [], [], []
            for k in range(n_refuse):
                g0, order = pool[rng.randrange(len(pool))]
                g = g0.clone()
                g.__class__ = CompatGraph
                g.inputs, g.outputs = list(g0.inputs), list(g0.outputs)
                mode = ["missing_input", "missing_output", "shared", "missing_and_shared"][k % 4]
                if mode == "missing_input" and not g.inputs:
                    mode = "missing_output"
                if mode == "missing_output" and not g.outputs:
                    mode = "missing_input"
                if mode in ("missing_input", "missing_and_shared") and g.inputs:
                    g.inputs.pop(rng.randrange(len(g.inputs)))
                elif mode in ("missing_output",) or (mode == "missing_and_shared"):
                    g.outputs.pop(rng.randrange(len(g.outputs)))
                if mode in ("shared", "missing_and_shared"):
                    if g.inputs and (not g.outputs or rng.random() < 0.5):
                        g.outputs.insert(rng.randrange(len(g.outputs) + 1), rng.choice(g.inputs))
                    elif g.outputs:
                        g.inputs.insert(rng.randrange(len(g.inputs) + 1), rng.choice(g.outputs))
                    else:
                        continue
                tok = tok_graph(g, order)
                d2, exc = import_observed(rep, dict(mode=mode, graph=tok), "refusal", g)
                lines.append("zx_import " + TREE_FIX + " " + tok)
                reals.append("err " + err_class(exc) if exc else "ok " + ser_zx_diagram(d2))
                cases.append((mode, tok, exc, d2))
            for (mode, tok, exc, d2), real, model in zip(cases, reals, drv.ask_many(lines)):
                rep.count("refusal_request:" + mode)
                rep.count("refusal_answer:" + (err_class(exc) if exc else "ACCEPTED"))
                rep.case("refuse " + tok, True)
                if real != model:
                    rep.disagree("refusal", dict(mode=mode, graph=tok), real, model)
                if exc is None:
                    rep.fail("boundary_not_refused:" + mode, dict(mode=mode, graph=tok),
                             "from_pyzx accepted a graph with a %s boundary: %s" % (mode, str(d2)[:200]))
            rep.extra["t3_non_edge_type_queries"] = t3["n"]
            CompatGraph.edge_type = orig_et
    finally:
        drv.close()
    for k, v in sorted(stats.items()):
        rep.count("generator:" + k, v)
    return rep.finish()
