"""C19 — cartesian diagrams compute the function they draw.

Streams (every real call is mirrored by one request to the compiled Lean model):
  call      random cartesian diagrams called on random integer tuples      ccall
  box       a single Box called directly (the functor's Box branch)        cbox
  run       the model's reference semantics vs the oracle interpreter      crun
  struct    Swap / Copy / Discard of every small width: wiring and values  cnet, cswap, ccopy, cdiscard
  natural   naturality / comonoid laws, both sides on the real code        ccall
  mk        ill-typed constructor requests                                 ccall
  history   ONE diagram object (typed wire values: 1 / 1.0 / True, 0.0 / -0.0, None, strings,
            lists, dicts, sets; boxes built through every constructor route, the same box object
            several times in a diagram, 0-input states, counters, boxes returning fresh lists)
            called several times in a row on equal-but-distinguishable inputs, the previous
            result mutated in between; every call against the oracle and the model   ccall, cbox
  function  cartesian.Function objects composed with >> / @ / Function.id  ccall
  callable  the KIND of callable held by a box: builtins and types with and without an
            inspectable signature, operator.*, functools.partial, functools.wraps wrappers that
            change the arity, bound / unbound / static / class methods, callable instances,
            classes, lambdas with *args / **kwargs / defaults — each through every constructor
            route, alone and inside random diagrams over sorted wires; constructing the box
            must not raise; evaluated against the oracle interpreter           (oracle only)

The model has no history (a call is a function of its inputs) and wire values are typed tokens
(`show`): the comparison is type-sensitive, never Python's `==`.

The oracle (`splice`) is written from the property statement: feed the inputs through the boxes
in order, each box applied to the wires at its offset, its outputs spliced back in place.
"""
import copy
import math
import random

from common import Driver, Report, lean_obligations, err_class

PROP = "C19"


# --------------------------------------------------------------------------- the pool of functions

def affine(m, n, s, bare):
    def f(*xs):
        if len(xs) != m:
            raise TypeError("arity")
        outs = []
        for j in range(n):
            acc = s + j
            for i in range(m):
                acc = acc + (i + j + 1) * xs[i]
            outs.append(acc)
        return outs[0] if (bare and n == 1) else tuple(outs)
    return f


def fixed(m, g):
    def f(*xs):
        if len(xs) != m:
            raise TypeError("arity")
        return g(xs)
    return f


def fail(*xs):
    raise ValueError("fail")


# The model's arithmetic (PyVal.add / rmul) covers ints, bools and integer-valued floats below
# 2^53.  The arithmetic pool functions raise this flag when they see or produce anything else that
# Python computes differently (sequence repetition `2 * "a"`, -0.0, 1.5, inf): such a call is
# compared with the oracle only.
TAINT = [False]
TYPES = [int, float, bool, str, bytes, type(None), list, dict, set, frozenset, tuple]


def nice_float(v):
    return math.isfinite(v) and v == int(v) and abs(v) < 2 ** 53 \
        and not (v == 0 and math.copysign(1.0, v) < 0)


def outside_arith(v):
    if isinstance(v, tuple):
        return any(outside_arith(x) for x in v)
    if type(v) is float:
        return not nice_float(v)
    return isinstance(v, (str, bytes, list))


def arith(fn):
    def f(*xs):
        if any(outside_arith(x) for x in xs):
            TAINT[0] = True
        out = fn(*xs)
        if outside_arith(out):
            TAINT[0] = True
        return out
    return f


class Counter:
    """An impure box: every evaluation hands out the next numbers (n of them)."""
    __name__ = "counter"

    def __init__(self, m, n):
        self.m, self.n, self.calls = m, n, 0

    def __call__(self, *xs):
        if len(xs) != self.m:
            raise TypeError("arity")
        self.calls += 1
        out = tuple(100 * self.calls + j for j in range(self.n))
        return out[0] if self.n == 1 else out


def py_prim(tok):
    """The Python function behind a pool token (the Lean side is `Prim.sem`)."""
    p = tok.split(":")
    if p[0] in ("add", "scale", "aff"):
        return arith(py_arith(p))
    if p[0] == "tyc":
        i = int(p[2])
        return fixed(int(p[1]), lambda xs: TYPES.index(type(xs[i])) if type(xs[i]) in TYPES else 11)
    if p[0] == "pick":
        idx = [int(i) for i in p[2].split(".") if i]
        return fixed(int(p[1]), lambda xs: tuple(xs[i] for i in idx))
    if p[0] == "const":
        v = parse_token(p[2])
        return fixed(int(p[1]), lambda xs: v)
    # no model counterpart (token None on the box): fresh mutable results, impure boxes
    if p[0] == "lst":
        return fixed(int(p[1]), lambda xs: list(xs))
    if p[0] == "dct":
        return fixed(int(p[1]), lambda xs: {"args": list(xs)})
    if p[0] == "ctr":
        return Counter(int(p[1]), int(p[2]))
    return py_generic(p, tok)


def py_arith(p):
    if p[0] == "add":
        return lambda x, y: x + y
    if p[0] == "scale":
        k = int(p[1])
        return lambda x: k * x
    return affine(int(p[1]), int(p[2]), int(p[3]), p[4] == "1")


UNMODELLED = ("lst", "dct", "ctr")


def py_generic(p, tok):
    if p[0] == "swap":
        return lambda x, y: (y, x)
    if p[0] == "copy":
        return lambda *x: x + x
    if p[0] == "discard":
        return lambda *x: ()
    if p[0] == "proj":
        i = int(p[2])
        return fixed(int(p[1]), lambda xs: xs[i])
    if p[0] == "pack":
        return fixed(int(p[1]), lambda xs: xs)
    if p[0] == "nest":
        return fixed(int(p[1]), lambda xs: (xs,))
    if p[0] == "fail":
        return fail
    raise KeyError(tok)


def identity(m):
    """What the sub-diagram Id(m) draws: m wires straight through (stated here, not read off
    the code): one value is returned bare, otherwise the tuple."""
    def f(*xs):
        if len(xs) != m:
            raise TypeError("arity")
        return xs[0] if len(xs) == 1 else xs
    return f


class Falsy:
    """A legitimate callable whose truth value is False (`__bool__`)."""
    def __init__(self, fn):
        self.fn = fn

    def __call__(self, *xs):
        return self.fn(*xs)

    def __bool__(self):
        return False


class EmptyTable(dict):
    """A callable lookup table with a default rule, still empty (so `bool(table)` is False)."""
    def __init__(self, fn):
        super().__init__()
        self.fn = fn

    def __call__(self, *xs):
        return self[xs] if xs in self else self.fn(*xs)


class EmptyList(list):
    """A callable empty container (`len() == 0`)."""
    def __init__(self, fn):
        super().__init__()
        self.fn = fn

    def __call__(self, *xs):
        return self.fn(*xs)

    __hash__ = object.__hash__


WRAPS = {"falsy": Falsy, "table": EmptyTable, "list": EmptyList}
STD = ("add", 2, 1, "ADD"), ("swap", 2, 2, "SWAP"), ("copy", 1, 2, "COPY"), ("discard", 1, 0, "DISCARD")
SHARED_NAMES = ["<lambda>", "f", "g", "swap", "copy", "add", "discard"]


def tag(box, tok, fn):
    """Harness-side truth about a box, kept apart from what the library stored:
    `_c19tok` the pool token sent to the Lean model (None: no model counterpart),
    `_c19fn` the function the box was GIVEN (the oracle never reads `box.function` back)."""
    box._c19tok, box._c19fn = tok, fn
    box.__dict__.setdefault("_c19falsy", False)
    return box


def tag_generators():
    from discopy import cartesian
    for tok, _, _, attr in STD:
        tag(getattr(cartesian, attr), tok, py_prim(tok))


def tok_of(box):
    return box._c19tok


class Refused(Exception):
    """A constructor of the library raised while a box of the pool was being built.  A box whose
    function really has another arity than declared (flavour badarity) may be refused when it is
    built rather than when it is called — the property speaks about calls; any other box must be
    constructible."""
    def __init__(self, tok, m, n, exc, route="Box"):
        Exception.__init__(self, "%s %d -> %d: %r" % (tok, m, n, exc))
        self.tok, self.m, self.n, self.exc, self.route, self.flavour = tok, m, n, exc, route, "clean"


def refused(rep, stream, e):
    """Accounts for a Refused: counted for badarity boxes, a failure with its input otherwise."""
    if e.flavour == "badarity":
        rep.count("badarity:refused_by_constructor:" + err_class(e.exc))
        return
    rep.fail("box_construction_raises:pool",
             dict(stream=stream, token=e.tok, dom=e.m, cod=e.n, route=e.route, flavour=e.flavour),
             "a box %d -> %d around the pool function %s cannot be built: %r" % (e.m, e.n, e.tok, e.exc))


def make_box(tok, m, n, name=None, wrap=None, via_disco=False):
    """A cartesian.Box declared m -> n around the pool function `tok`.
    name=None: the token is the name (and the library's own ADD/SWAP/COPY/DISCARD are used when
    they fit); otherwise the given name — several boxes of a diagram may share it.
    wrap: pass the function inside a falsy callable.  via_disco: build with the `disco` decorator
    (the name is then the function's `__name__`: '<lambda>' or 'f' for the whole pool)."""
    from discopy import cartesian
    if name in (None, tok) and wrap is None and not via_disco:
        for t, a, b, attr in STD:
            if (tok, m, n) == (t, a, b):
                return getattr(cartesian, attr)
    fn = identity(int(tok.split(":")[1])) if tok.startswith("ident:") else py_prim(tok)
    given = cartesian.Id(int(tok.split(":")[1])) if tok.startswith("ident:") else fn
    if wrap is not None and not tok.startswith("ident:"):
        given = WRAPS[wrap](fn)
    try:
        if via_disco and hasattr(given, "__name__"):
            return tag(cartesian.disco(m, n)(given), tok, fn)
        box = tag(cartesian.Box(tok if name is None else name, m, n, given), tok, fn)
    except Exception as exc:
        raise Refused(tok, m, n, exc, "disco" if via_disco else "Box")
    box._c19falsy = not given
    return box


def sub_box(name, inner):
    """A hierarchical box: its function is the cartesian diagram `inner`.  No model counterpart;
    the oracle interprets the inner diagram with `splice` as well."""
    from discopy import cartesian
    dom, boxes, offsets = len(inner.dom), list(inner.boxes), list(inner.offsets)

    def fn(*xs):
        return pack_result(splice(dom, boxes, offsets, xs)[0])
    try:
        return tag(cartesian.Box(name, len(inner.dom), len(inner.cod), inner), None, fn)
    except Exception as exc:
        raise Refused("sub-diagram " + safe_repr(inner, 120), len(inner.dom), len(inner.cod), exc)


def safe_repr(x, cap=300):
    try:
        return repr(x)[:cap]
    except Exception as exc:       # Box.__repr__ reads box.function
        return "<repr raised %s>" % type(exc).__name__


def name_collisions(boxes):
    """Number of (name, dom, cod) classes of the diagram holding >= 2 different functions."""
    seen = {}
    for b in boxes:
        seen.setdefault((b.name, len(b.dom), len(b.cod)), set()).add(id(b._c19fn))
    return sum(1 for v in seen.values() if len(v) >= 2)


# --------------------------------------------------------------------------- canonical forms

# Wire values other than ints, bools and integer floats: fixed tables, entry k of table L is the
# model's token `L<k>` (Ty.floatx, none, str, bytes, list, dict, set, frozenset).  Templates are
# never handed out themselves (`fresh`): a call gets its own copies of lists, dicts and sets.
TABLE = {
    "x": [-0.0, 1.5, -2.5, float("inf"), 1e300],
    "N": [None],
    "s": ["a", "", "1", "1.0", "True"],
    "y": [b"a", b""],
    "l": [[1, 2], [], [1.0, 2], [[1], (2,)], [None], [True, 2]],
    "d": [{"k": 1}, {}, {1: "x"}, {1.0: "x"}],
    "e": [{1, 2}, set(), {1.0, 2}],
    "z": [frozenset({1}), frozenset(), frozenset({1.0}), frozenset({True})],
}
TABLE_INDEX = {(type(v).__name__, repr(v)): "%s%d" % (letter, k)
               for letter, vs in TABLE.items() for k, v in enumerate(vs)}
# values Python's == / hash identify although they differ (type, sign of zero, contents)
CLUSTERS = [[1, 1.0, True], [0, 0.0, -0.0, False], [2, 2.0], [-1, -1.0], [3, 3.0], [7, 7.0],
            [42, 42.0], [frozenset({1}), frozenset({1.0}), frozenset({True})],
            [[1, 2], [1.0, 2], [True, 2]], [{1: "x"}, {1.0: "x"}], [{1, 2}, {1.0, 2}]]


def fresh(v):
    return copy.deepcopy(v)


def show(v):
    """Canonical, type-sensitive form of a value (the model's token when there is one)."""
    if isinstance(v, tuple):
        return "(" + ",".join(show(x) for x in v) + ")"
    t = type(v)
    if t is bool:
        return "b%d" % v
    if t is int:
        return str(v)
    if t is float and nice_float(v):
        return "f%d" % int(v)
    try:
        key = (t.__name__, repr(v))
    except Exception as exc:
        key = (t.__name__, "<repr raised %s>" % type(exc).__name__)
    return TABLE_INDEX.get(key) or ("?%s:%s" % key).replace(" ", "")


def parse_token(tok):
    """The Python value of a typed token (a fresh copy)."""
    if tok[0] == "f":
        return float(int(tok[1:]))
    if tok[0] == "b":
        return bool(int(tok[1:]))
    if tok[0] in TABLE:
        return fresh(TABLE[tok[0]][int(tok[1:])])
    return int(tok)


def has_token(v):
    return "?" not in show(v)


def siblings(v):
    """Values that compare (and hash) equal to v without being v: other type, other sign of zero."""
    sv = show(v)
    for cl in CLUSTERS:
        if sv in [show(c) for c in cl]:
            return [fresh(c) for c in cl if show(c) != sv]
    if type(v) is int and abs(v) < 2 ** 40:
        return [float(v)]
    if type(v) is float and nice_float(v):
        return [int(v)]
    return []


def mutable_parts(v, depth=2):
    if isinstance(v, tuple):
        return [p for x in v for p in mutable_parts(x, depth)]
    if isinstance(v, list):
        return [v] + ([p for x in v for p in mutable_parts(x, depth - 1)] if depth else [])
    if isinstance(v, dict):
        return [v] + ([p for x in v.values() for p in mutable_parts(x, depth - 1)] if depth else [])
    return [v] if isinstance(v, set) else []


def mutate(v):
    """What a caller may do with a result that belongs to it; returns the number of objects changed."""
    parts = mutable_parts(v)
    for p in parts:
        if isinstance(p, list):
            p.append("mine")
        elif isinstance(p, dict):
            p["mine"] = 1
        else:
            p.add("mine")
    return len(parts)


def answer(fn):
    try:
        return "ok " + show(fn())
    except Exception as exc:  # the class is the observation
        return "err " + err_class(exc)


def ser_request(dom, cod, boxes, offsets, xs):
    toks = [str(dom), str(cod), str(len(boxes))]
    for b in boxes:
        toks += [tok_of(b), str(len(b.dom)), str(len(b.cod))]
    toks += [str(len(offsets))] + [str(int(o)) for o in offsets]
    toks += [str(len(xs))] + [show(x) for x in xs]
    return " ".join(toks)


def ser_diagram_call(d, xs):
    return ser_request(len(d.dom), len(d.cod), d.boxes, d.offsets, xs)


# --------------------------------------------------------------------------- the oracle

def splice(dom, boxes, offsets, xs):
    """The property's statement.  Returns (wires, in_scope); raises what a box raises.
    `in_scope` is False as soon as a box does not put exactly len(cod) non-tuple values on its
    output wires (the documented limit: the statement quantifies over boxes *with* n outputs)."""
    scope = [all(not isinstance(x, tuple) for x in xs)]
    try:
        if len(xs) != dom:
            raise TypeError("expected %d inputs" % dom)
        wires = list(xs)
        for box, off in zip(boxes, offsets):
            m, n = len(box.dom), len(box.cod)
            out = box._c19fn(*wires[off:off + m])
            outs = list(out) if isinstance(out, tuple) else [out]
            if len(outs) != n or any(isinstance(o, tuple) for o in outs):
                scope[0] = False
            wires[off:off + m] = outs
        return wires, scope[0]
    except Exception as exc:
        exc.in_scope = scope[0]
        raise


def pack_result(wires):
    """Python's convention for returning n values: the value itself when n == 1, else a tuple."""
    return wires[0] if len(wires) == 1 else tuple(wires)


def as_wires(value):
    return list(value) if isinstance(value, tuple) else [value]


# --------------------------------------------------------------------------- generators

class Gen:
    def __init__(self, rng, max_width, max_depth, max_arity=3, names="unique"):
        self.rng, self.W, self.D, self.A = rng, max_width, max_depth, max_arity
        self.names, self.seen = names, []      # unique | disco | few

    def box(self, tok, m, n, clean=True):
        """A box for `tok` under this generator's naming policy; now and then the function is
        handed over inside a falsy callable."""
        r = self.rng
        wrap = r.choice(sorted(WRAPS)) if clean and r.random() < 0.06 else None
        if self.names == "disco":
            return make_box(tok, m, n, name="<lambda>", wrap=wrap, via_disco=True)
        if self.names == "few":
            return make_box(tok, m, n, name=r.choice(SHARED_NAMES), wrap=wrap)
        return make_box(tok, m, n, wrap=wrap)

    def token(self, m, n, flavour):
        """A pool token for a box declared m -> n.  flavour: clean | tuplewire | badarity."""
        r = self.rng
        if flavour == "badarity":
            k = r.random()
            if k < 0.3:
                return "fail"
            if k < 0.5:   # really has other arities than declared
                return "aff:%d:%d:%d:%d" % (max(0, m + r.choice([-1, 1])), n, r.randint(-3, 3), 0)
            if k < 0.8:
                return "aff:%d:%d:%d:%d" % (m, max(0, n + r.choice([-1, 1])), r.randint(-3, 3),
                                            r.randint(0, 1))
            return r.choice(["add", "swap", "copy", "discard", "scale:2"])
        if flavour == "tuplewire" and n == 1:
            return r.choice(["pack:%d" % m, "nest:%d" % m])
        opts = ["aff:%d:%d:%d:%d" % (m, n, r.randint(-5, 5), r.randint(0, 1))]
        if (m, n) == (2, 1):
            opts += ["add", "add"]
        if (m, n) == (2, 2):
            opts += ["swap", "swap"]
        if (m, n) == (1, 2):
            opts += ["copy", "copy"]
        if n == 0 and m >= 1:
            opts += ["discard"] * (2 if m == 1 else 1)
        if (m, n) == (1, 1):
            opts += ["scale:%d" % r.randint(-3, 4), "pack:1"]
        if m == n:
            opts += ["ident:%d" % m]
        if n == 1 and m >= 1:
            opts += ["proj:%d:%d" % (m, r.randrange(m))]
        return r.choice(opts)

    def arities(self, width):
        r = self.rng
        if self.names != "unique" and self.seen and r.random() < 0.5:
            # shared names only collide on equal arities: reuse one already in the diagram
            fits = [(m, n) for m, n in self.seen if m <= width and width - m + n <= self.W]
            if fits:
                return r.choice(fits)
        m = r.randint(0, min(self.A, width))
        n = r.randint(0, min(self.A, self.W - (width - m)))
        return m, n

    def layers(self, dom, depth, flavour="clean"):
        """[(box, offset)] grown from `dom` layer by layer, and the codomain reached."""
        r, width, out = self.rng, dom, []
        special = r.randrange(depth) if depth and flavour != "clean" else -1
        for k in range(depth):
            m, n = self.arities(width)
            fl = flavour if k == special else "clean"
            if fl == "tuplewire":
                n = 1
                if width - m + 1 > self.W:
                    m = 1
            try:
                box = self.box(self.token(m, n, fl), m, n, clean=(fl == "clean"))
            except Refused as e:
                e.flavour = fl
                raise
            out.append((box, r.randint(0, width - m)))
            self.seen.append((m, n))
            width = width - m + n
        return out, width

    def inputs(self, n):
        return tuple(self.rng.randint(-9, 99) for _ in range(n))


def build_public(dom, cod, layers):
    from discopy.cartesian import Diagram
    return Diagram(dom, cod, [b for b, _ in layers], [o for _, o in layers])


def build_ops(rng, dom, layers):
    """The same diagram built with >> and @ (and Id): whiskered layers composed in sequence,
    neighbouring layers that act on disjoint wires merged into one tensor now and then."""
    from discopy.cartesian import Id
    d, width, k = Id(dom), dom, 0
    while k < len(layers):
        box, off = layers[k]
        m, n = len(box.dom), len(box.cod)
        if k + 1 < len(layers) and rng.random() < 0.5:
            box2, off2 = layers[k + 1]
            start2 = off2 - (off + n)       # where box2 sits to the right of box's outputs
            if start2 >= 0:
                right = width - m + n - off2 - len(box2.dom)
                d = d >> Id(off) @ box @ Id(start2) @ box2 @ Id(right)
                width = width - m + n - len(box2.dom) + len(box2.cod)
                k += 2
                continue
        d = d >> Id(off) @ box @ Id(width - off - m)
        width, k = width - m + n, k + 1
    return d


# --------------------------------------------------------------------------- typed generator

ROUTES = ["Box", "Box_kw", "Box_data", "disco", "disco_name", "disco_pos", "disco_kw", "decorator",
          "Function"]
NEED_NAME = ("disco", "disco_kw")     # these read the function's __name__


def route_box(route, name, m, n, given):
    """Every public way of turning a Python callable into a cartesian box."""
    from discopy import cartesian
    if route == "Box":
        return cartesian.Box(name, m, n, given)
    if route == "Box_kw":
        return cartesian.Box(name=name, dom=m, cod=n, function=given)
    if route == "Box_data":
        return cartesian.Box(name, m, n, given, data={"note": [m, n]})   # no strings: cat.Box recurses on them
    if route == "disco":
        return cartesian.disco(m, n)(given)
    if route == "disco_name":
        return cartesian.disco(m, n, name=name)(given)
    if route == "disco_pos":
        return cartesian.disco(m, n, name)(given)
    if route == "disco_kw":
        return cartesian.disco(cod=n, dom=m)(given)
    if route == "decorator":
        @cartesian.disco(m, n)
        def boxed(*xs):
            return given(*xs)
        return boxed
    if route == "Function":          # a cartesian.Function object as the box's function
        return cartesian.Box(name, m, n, cartesian.Function(m, n, given))
    raise KeyError(route)


class TGen(Gen):
    """Typed wire values (`mode` numeric: ints / floats / bools that compare equal; mixed: also
    None, strings, bytes, lists, dicts, sets, other floats), boxes through every constructor
    route, the same box object used several times, states, counters, fresh mutable results."""

    def __init__(self, rng, max_width, max_depth, mode, rep):
        super().__init__(rng, max_width, max_depth)
        self.mode, self.rep, self.made = mode, rep, []

    def value(self):
        r = self.rng
        if self.mode == "numeric" or r.random() < 0.4:
            if r.random() < 0.65:
                return fresh(r.choice(r.choice(CLUSTERS[:7])))
            n = r.randint(-9, 99)
            return r.choice([n, n, float(n)])
        return fresh(r.choice(TABLE[r.choice(sorted(TABLE))]))

    def immutable(self):
        r = self.rng
        return fresh(r.choice([1, 1.0, True, 0, 0.0, -0.0, False, 2.0, 7, None, "a", "", b"a", 1.5,
                               frozenset({1}), frozenset({1.0}), r.randint(-9, 99)]))

    def inputs(self, n):
        return tuple(self.value() for _ in range(n))

    def variant(self, xs):
        """Equal-but-distinguishable inputs: each value replaced, more often than not, by another
        member of its ==-class (1 -> 1.0 -> True, 0.0 -> -0.0, [1, 2] -> [1.0, 2])."""
        r, out = self.rng, []
        for x in xs:
            sib = siblings(x)
            out.append(r.choice(sib) if sib and r.random() < 0.7 else fresh(x))
        return tuple(out)

    def token(self, m, n, flavour="clean"):
        r = self.rng
        k = r.random()
        if k < 0.15:                                   # no model counterpart
            opts = ["ctr:%d:%d" % (m, n)]
            if n == 1:
                opts += ["lst:%d" % m, "lst:%d" % m, "dct:%d" % m]
            return r.choice(opts)
        if k < 0.33:                                   # arithmetic, identities, the library's boxes
            return Gen.token(self, m, n, "clean")
        if n == 1 and k < 0.45:                        # states (m == 0) and constants
            return "const:%d:%s" % (m, show(self.immutable()))
        if n == 1 and m >= 1 and k < 0.80:
            return r.choice(["proj:%d:%d", "tyc:%d:%d", "tyc:%d:%d"]) % (m, r.randrange(m))
        if m >= 1 or n == 0:                           # hand the arguments back as they are
            return "pick:%d:%s" % (m, ".".join(str(r.randrange(m)) for _ in range(n)))
        if n == 1:
            return "const:0:%s" % show(self.immutable())
        return "aff:0:%d:%d:0" % (n, r.randint(-5, 5))

    def arities(self, width):
        m, n = Gen.arities(self, width)
        if self.rng.random() < 0.3 and width - m + 1 <= self.W:
            n = 1                                      # one output: observers, lists, states
        return m, n

    def box(self, tok, m, n, clean=True):
        from discopy import cartesian
        r, kind = self.rng, tok.split(":")[0]
        if kind == "ident":
            fn, given = identity(m), cartesian.Id(m)
        elif kind == "ctr":                            # two counters in the same state: one for the
            fn, given = py_prim(tok), py_prim(tok)     # oracle, one for the library
        else:
            fn = given = py_prim(tok)
        routes = [x for x in ROUTES if hasattr(given, "__name__") or x not in NEED_NAME]
        route = r.choice(routes)
        try:
            box = route_box(route, r.choice(SHARED_NAMES + [tok, tok]), m, n, given)
        except Exception as exc:
            raise Refused(tok, m, n, exc, route)
        tag(box, None if kind in UNMODELLED else tok, fn)
        box._c19given, box._c19route = given, route
        self.rep.count("route:" + route)
        self.rep.count("typedpool:" + kind)
        return box

    def layers(self, dom, depth, flavour="clean"):
        r, width, out = self.rng, dom, []
        for _ in range(depth):
            fits = [b for b in self.made
                    if len(b.dom) <= width and width - len(b.dom) + len(b.cod) <= self.W]
            if fits and r.random() < 0.35:             # the same box OBJECT once more
                b = r.choice(fits)
                self.rep.count("history:box_object_used_again")
            else:
                m, n = self.arities(width)
                b = self.box(self.token(m, n), m, n)
                self.made.append(b)
            m, n = len(b.dom), len(b.cod)
            out.append((b, r.randint(0, width - m)))
            width = width - m + n
        return out, width


# --------------------------------------------------------------------------- kinds of callables

# "Diagrams of Python functions": the function of a box may be ANY callable — a builtin or a type
# (with or without a signature `inspect` can read), an operator.* object, a functools.partial, a
# functools.wraps-decorated wrapper whose arity differs from the wrapped function's, a bound
# method, an instance with __call__, a class, a static / class method, a lambda with *args,
# **kwargs or defaults.  The catalog below lists such callables with the SORTS of wires they take
# and give (i int/bool, s numeric string, t text, L list of ints, R range, T iterator, o opaque),
# so that diagrams of them can be grown layer by layer and mostly evaluate without an exception.

class Pair:
    """A user class used as a box function (2 -> 1) and as a wire value."""
    def __init__(self, left, right=0):
        self.left, self.right = left, right

    def __repr__(self):
        return "Pair(%r,%r)" % (self.left, self.right)

    def total(self):
        return self.left + self.right

    def shifted(self, k):
        return self.left + self.right + k

    @staticmethod
    def static_sum(x, y):
        return x + 2 * y

    @classmethod
    def diagonal(cls, x):
        return cls(x, x)


class Adder:
    """An instance with __call__ of fixed arity."""
    def __init__(self, k):
        self.k = k

    def __call__(self, x):
        return x + self.k

    def __repr__(self):
        return "Adder(%r)" % (self.k,)


class Variadic:
    """An instance with __call__(*args)."""
    def __call__(self, *xs):
        return len(xs) + sum(xs)


def with_last_fixed(value):
    """A decorator fixing the LAST argument: the wrapper takes one argument fewer than the wrapped
    function whose metadata (and `__wrapped__`) it carries."""
    import functools

    def decorator(func):
        @functools.wraps(func)
        def wrapper(*xs):
            return func(*(xs + (value,)))
        return wrapper
    return decorator


def with_extra_argument(func):
    """A decorator ADDING an argument: wrapper(x, ..., extra) = func(x, ...) + extra."""
    import functools

    @functools.wraps(func)
    def wrapper(x, extra):
        return func(x) + extra
    return wrapper


def fixed_arity_wrapper(func):
    """functools.wraps around a *args function: the wrapper is stricter than the wrapped."""
    import functools

    @functools.wraps(func)
    def wrapper(x, y):
        return func(x, y)
    return wrapper


def callable_catalog():
    """[(label, kind, accepted input sorts per wire, output sorts, make)] with make() -> callable."""
    import functools
    import operator

    def plus(x, y):
        return x + y

    def double(x):
        return 2 * x

    def spread(*xs):
        return sum(xs) - len(xs)

    def cached():
        @functools.lru_cache(maxsize=None)
        def square(x):
            return x * x
        return square

    C = []
    add = lambda label, kind, ins, outs, make: C.append((label, kind, tuple(ins), tuple(outs), make))
    # builtins and types whose signature inspect cannot read (ValueError on Python <= 3.12)
    add("max", "builtin_nosig", ["i", "i"], ["i"], lambda: max)
    add("max3", "builtin_nosig", ["i", "i", "i"], ["i"], lambda: max)
    add("max_of_list", "builtin_nosig", ["LR"], ["i"], lambda: max)
    add("min", "builtin_nosig", ["i", "i"], ["i"], lambda: min)
    add("int_of_str", "type_nosig", ["s"], ["i"], lambda: int)
    add("int_of_int", "type_nosig", ["i"], ["i"], lambda: int)
    add("int0", "type_nosig", [], ["i"], lambda: int)
    add("str", "type_nosig", ["i"], ["s"], lambda: str)
    add("str_of_list", "type_nosig", ["LR"], ["t"], lambda: str)
    add("str0", "type_nosig", [], ["t"], lambda: str)
    add("bool", "type_nosig", ["isLt"], ["i"], lambda: bool)
    add("bool0", "type_nosig", [], ["i"], lambda: bool)
    add("dict0", "type_nosig", [], ["o"], lambda: dict)
    add("range1", "type_nosig", ["i"], ["R"], lambda: range)
    add("range2", "type_nosig", ["i", "i"], ["R"], lambda: range)
    add("zip", "type_nosig", ["LRT", "LRT"], ["T"], lambda: zip)
    add("zip1", "type_nosig", ["LRT"], ["T"], lambda: zip)
    add("map", "type_nosig", ["F", "LRT"], ["T"], lambda: map)
    add("iter", "builtin_nosig", ["LR"], ["T"], lambda: iter)
    add("next", "builtin_nosig", ["T"], ["o"], lambda: next)
    add("next_default", "builtin_nosig", ["T", "i"], ["o"], lambda: next)
    add("set", "type_nosig", ["LRT"], ["o"], lambda: set)
    add("frozenset", "type_nosig", ["LR"], ["o"], lambda: frozenset)
    add("type", "type_nosig", ["isLRto"], ["o"], lambda: type)
    add("getattr_real", "builtin_nosig", ["i", "A"], ["i"], lambda: getattr)
    add("slice", "type_nosig", ["i", "i"], ["o"], lambda: slice)
    # builtins and types with a readable signature
    add("len", "builtin_sig", ["LRst"], ["i"], lambda: len)
    add("sum", "builtin_sig", ["LRT"], ["i"], lambda: sum)
    add("sum_start", "builtin_sig", ["LRT", "i"], ["i"], lambda: sum)
    add("sorted", "builtin_sig", ["LRT"], ["L"], lambda: sorted)
    add("divmod", "builtin_sig", ["i", "i"], ["i", "i"], lambda: divmod)
    add("abs", "builtin_sig", ["i"], ["i"], lambda: abs)
    add("pow", "builtin_sig", ["i", "d"], ["i"], lambda: pow)
    add("pow_mod", "builtin_sig", ["i", "d", "i"], ["i"], lambda: pow)
    add("list", "type_sig", ["LRT"], ["L"], lambda: list)
    add("list0", "type_sig", [], ["L"], lambda: list)
    add("complex", "type_sig", ["i", "i"], ["o"], lambda: complex)
    add("float", "type_sig", ["is"], ["o"], lambda: float)
    add("enumerate", "type_sig", ["LRT"], ["T"], lambda: enumerate)
    add("reversed", "type_sig", ["LR"], ["T"], lambda: reversed)
    add("repr", "builtin_sig", ["isLRt"], ["t"], lambda: repr)
    add("hex", "builtin_sig", ["i"], ["t"], lambda: hex)
    # operator.*
    add("operator.add", "operator", ["i", "i"], ["i"], lambda: operator.add)
    add("operator.add_lists", "operator", ["L", "L"], ["L"], lambda: operator.add)
    add("operator.add_str", "operator", ["s", "s"], ["s"], lambda: operator.add)
    add("operator.neg", "operator", ["i"], ["i"], lambda: operator.neg)
    add("operator.mul", "operator", ["L", "d"], ["L"], lambda: operator.mul)
    add("itemgetter(0)", "operator_nosig", ["L"], ["i"], lambda: operator.itemgetter(0))
    add("itemgetter(0,-1)", "operator_nosig", ["L"], ["i", "i"], lambda: operator.itemgetter(0, -1))
    add("attrgetter(real)", "operator_nosig", ["i"], ["i"], lambda: operator.attrgetter("real"))
    add("attrgetter(real,imag)", "operator_nosig", ["i"], ["i", "i"],
        lambda: operator.attrgetter("real", "imag"))
    add("attrgetter(left)", "operator_nosig", ["P"], ["i"], lambda: operator.attrgetter("left"))
    add("methodcaller(bit_length)", "operator_nosig", ["i"], ["i"],
        lambda: operator.methodcaller("bit_length"))
    add("methodcaller(count,1)", "operator_nosig", ["L"], ["i"], lambda: operator.methodcaller("count", 1))
    add("methodcaller(zfill,5)", "operator_nosig", ["s"], ["s"], lambda: operator.methodcaller("zfill", 5))
    add("methodcaller(total)", "operator_nosig", ["P"], ["i"], lambda: operator.methodcaller("total"))
    # functools.partial
    add("partial(max,0)", "partial", ["i"], ["i"], lambda: functools.partial(max, 0))
    add("partial(pow,2)", "partial", ["d"], ["i"], lambda: functools.partial(pow, 2))
    add("partial(sorted,reverse)", "partial", ["LRT"], ["L"], lambda: functools.partial(sorted, reverse=True))
    add("partial(plus,10)", "partial", ["i"], ["i"], lambda: functools.partial(plus, 10))
    add("partial(plus,1,2)", "partial", [], ["i"], lambda: functools.partial(plus, 1, 2))
    add("partial(map,abs)", "partial", ["LR"], ["T"], lambda: functools.partial(map, abs))
    add("partial(int,base=2)", "partial", ["b"], ["i"], lambda: functools.partial(int, base=2))
    add("partial(partial)", "partial", ["i"], ["i"],
        lambda: functools.partial(functools.partial(spread, 1), 2))
    # functools.wraps wrappers whose arity differs from the wrapped function's
    add("wraps:fewer(plus)", "wraps_arity", ["i"], ["i"], lambda: with_last_fixed(10)(plus))
    add("wraps:fewer_to_state(double)", "wraps_arity", [], ["i"], lambda: with_last_fixed(4)(double))
    add("wraps:fewer(divmod)", "wraps_arity", ["i"], ["i", "i"], lambda: with_last_fixed(7)(divmod))
    add("wraps:more(double)", "wraps_arity", ["i", "i"], ["i"], lambda: with_extra_argument(double))
    add("wraps:more(abs)", "wraps_arity", ["i", "i"], ["i"], lambda: with_extra_argument(abs))
    add("wraps:fixed(spread)", "wraps_same", ["i", "i"], ["i"], lambda: fixed_arity_wrapper(spread))
    add("wraps:fewer(max)", "wraps_arity", ["i"], ["i"], lambda: with_last_fixed(5)(max))
    add("lru_cache(square)", "wraps_same", ["i"], ["i"], cached)
    # bound methods (of builtins and of user objects), unbound methods
    add("(5).__add__", "bound_method", ["i"], ["i"], lambda: (5).__add__)
    add("'{}-{}'.format", "bound_method_nosig", ["i", "is"], ["t"], lambda: "{}-{}".format)
    add("'0'.join", "bound_method", ["q"], ["s"], lambda: "0".join)
    add("[3,1,2].index", "bound_method", ["k"], ["i"], lambda: [3, 1, 2].index)
    add("Pair(1,2).shifted", "bound_method", ["i"], ["i"], lambda: Pair(1, 2).shifted)
    add("Pair(1,2).total", "bound_method", [], ["i"], lambda: Pair(1, 2).total)
    add("Pair.total", "unbound_method", ["P"], ["i"], lambda: Pair.total)
    add("str.upper", "unbound_method", ["st"], ["t"], lambda: str.upper)
    add("int.bit_length", "unbound_method", ["i"], ["i"], lambda: int.bit_length)
    add("dict.fromkeys", "bound_method", ["LR"], ["o"], lambda: dict.fromkeys)
    # instances with __call__, classes, static / class methods
    add("Adder(3)", "callable_instance", ["i"], ["i"], lambda: Adder(3))
    add("Variadic()", "callable_instance", ["i", "i"], ["i"], lambda: Variadic())
    add("Variadic()0", "callable_instance", [], ["i"], lambda: Variadic())
    add("Pair", "class", ["i", "i"], ["P"], lambda: Pair)
    add("Pair1", "class", ["i"], ["P"], lambda: Pair)
    add("Adder", "class", ["i"], ["F"], lambda: Adder)
    add("Pair.static_sum", "staticmethod", ["i", "i"], ["i"], lambda: Pair.static_sum)
    add("Pair(0).static_sum", "staticmethod", ["i", "i"], ["i"], lambda: Pair(0).static_sum)
    add("staticmethod_object", "staticmethod", ["i", "i"], ["i"], lambda: Pair.__dict__["static_sum"])
    add("Pair.diagonal", "classmethod", ["i"], ["P"], lambda: Pair.diagonal)
    # lambdas / defs with *args, **kwargs, defaults, keyword-only arguments
    add("lambda*xs:0", "lambda_varargs", [], ["i"], lambda: (lambda *xs: len(xs) + sum(xs)))
    add("lambda*xs:1", "lambda_varargs", ["i"], ["i"], lambda: (lambda *xs: len(xs) + sum(xs)))
    add("lambda*xs:3", "lambda_varargs", ["i", "i", "i"], ["i"], lambda: (lambda *xs: len(xs) + sum(xs)))
    add("lambda*xs->xs", "lambda_varargs", ["i", "i"], ["i", "i"], lambda: (lambda *xs: xs[::-1]))
    add("lambda_default:1", "lambda_defaults", ["i"], ["i"], lambda: (lambda x, y=10: x - y))
    add("lambda_default:2", "lambda_defaults", ["i", "i"], ["i"], lambda: (lambda x, y=10: x - y))
    add("lambda_default:0", "lambda_defaults", [], ["i"], lambda: (lambda x=1, y=10: x - y))
    add("lambda**kw", "lambda_kwargs", [], ["i"], lambda: (lambda **kw: len(kw)))
    add("lambda_x**kw", "lambda_kwargs", ["i"], ["i"], lambda: (lambda x, **kw: x + len(kw)))
    add("lambda_x*rest_kwonly", "lambda_kwargs", ["i", "i"], ["i"],
        lambda: (lambda x, *rest, k=2, **kw: x + k * len(rest)))
    add("lambda_posonly", "lambda_defaults", ["i", "i"], ["i"], lambda: eval("lambda x, /, y: x - 2 * y"))
    # plain lambdas that put functions / other sorts on wires (states)
    add("state:abs", "state", [], ["F"], lambda: (lambda: abs))
    add("state:str", "state", [], ["F"], lambda: (lambda: str))
    add("state:'real'", "state", [], ["A"], lambda: (lambda: "real"))
    add("state:'101'", "state", [], ["b"], lambda: (lambda: "101"))
    add("state:['4','2']", "state", [], ["q"], lambda: (lambda: ["4", "2"]))
    add("state:1", "state", [], ["k"], lambda: (lambda: 1))
    add("state:small", "state", [], ["d"], lambda: (lambda: 3))
    return C


CALLABLE_SORT_OF_INPUT = "iisL"          # sorts drawn for the diagram's own inputs


def callable_input(r, sort):
    if sort == "i":
        return r.choice([r.randint(-9, 99), r.randint(-9, 99), 0, 1, True])
    if sort == "s":
        return str(r.randint(0, 99))
    return [r.randint(-9, 20) for _ in range(r.randint(1, 4))]


def fits(entry, wires, off):
    ins = entry[2]
    return off + len(ins) <= len(wires) and all(w in acc or (w in "kd" and "i" in acc)
                                                for w, acc in zip(wires[off:off + len(ins)], ins))


def callable_box(rep, r, entry, route=None):
    """A cartesian box around a catalog callable, through one of the constructor routes; a
    constructor that raises is a failure with its input."""
    label, kind, ins, outs, make = entry
    given = make()
    routes = [x for x in ROUTES if hasattr(given, "__name__") or x not in NEED_NAME]
    route = route or r.choice(routes)
    m, n = len(ins), len(outs)
    try:
        box = route_box(route, label, m, n, given)
    except Exception as exc:
        rep.fail("box_construction_raises:" + kind,
                 dict(callable=label, kind=kind, dom=m, cod=n, route=route, function=safe_repr(given, 120)),
                 "a box %d -> %d around the callable %s cannot be built (%s): %r" % (
                     m, n, label, route, exc))
        return None
    tag(box, None, given)          # no model counterpart; the oracle calls what the box was GIVEN
    box._c19given, box._c19route, box._c19kind = given, route, kind
    rep.count("callable_kind:" + kind)
    rep.count("callable_route:" + route)
    return box


def callable_layers(rep, r, catalog, sorts, depth, max_width=6):
    """[(box, offset)] grown over wires of the given sorts; iterators left at the end are read
    out with `list`.  Returns (layers, sorts at the end) or None when a constructor raised."""
    from discopy import cartesian
    wires, out = list(sorts), []
    list_entry = next(e for e in catalog if e[0] == "list")
    steps = 0
    while steps < depth or "T" in wires:
        steps += 1
        if steps > depth:                                   # read the iterators out
            off = wires.index("T")
            entry = list_entry
        else:
            options = [(e, off) for e in catalog for off in range(len(wires) + 1)
                       if fits(e, wires, off) and len(wires) - len(e[2]) + len(e[3]) <= max_width]
            k = r.random()
            if k < 0.12 and len(wires) >= 2:
                off = r.randrange(len(wires) - 1)
                out.append((cartesian.SWAP, off))
                wires[off:off + 2] = [wires[off + 1], wires[off]]
                continue
            if k < 0.22 and len(wires) < max_width and any(w != "T" for w in wires):
                off = r.choice([j for j, w in enumerate(wires) if w != "T"])
                out.append((cartesian.COPY, off))
                wires[off:off + 1] = [wires[off], wires[off]]
                continue
            if k < 0.27 and wires:
                off = r.randrange(len(wires))
                out.append((cartesian.DISCARD, off))
                del wires[off]
                continue
            if not options:
                continue
            # draw the KIND first: every kind of callable is used about equally often
            kinds = sorted({e[1] for e, _ in options})
            kind = r.choice(kinds)
            entry, off = r.choice([(e, o) for e, o in options if e[1] == kind])
        box = callable_box(rep, r, entry)
        if box is None:
            return None
        out.append((box, off))
        wires[off:off + len(entry[2])] = list(entry[3])
    return out, wires


def stream_callable(rep, cases, rng, n, thorough):
    """Diagrams whose boxes hold every kind of Python callable, against the oracle interpreter."""
    catalog = callable_catalog()
    # every catalog entry through the constructor routes, on inputs of its sorts: wires of a sort
    # that cannot be drawn directly (function, iterator, range, Pair, ...) are fed by a box above
    from discopy import cartesian
    r = random.Random(rng.getrandbits(64))

    list_entry = next(e for e in catalog if e[0] == "list")

    def feeder_for(acc):
        states = [e for e in catalog if not e[2] and len(e[3]) == 1 and e[3][0] in acc]
        if states:
            return states[0]
        via = [e for e in catalog if len(e[3]) == 1 and e[3][0] in acc and e[2]
               and all(any(c in "isL" for c in a) for a in e[2])]
        return via[0] if via else None

    for entry in catalog:
        label, kind, ins, outs, make = entry
        has_name = hasattr(make(), "__name__")
        for route in ROUTES:
            if route in NEED_NAME and not has_name:
                continue
            if not thorough and route not in ("Box", "disco_name") and r.random() < 0.5:
                continue
            top, xs, fed, bad = cartesian.Id(0), [], 0, False
            for acc in ins:
                direct = [c for c in acc if c in "isL"]
                if direct:
                    top = top @ cartesian.Id(1)
                    xs.append(callable_input(r, direct[0]))
                    continue
                feeder = feeder_for(acc)
                fb = callable_box(rep, r, feeder, route="Box") if feeder else None
                if fb is None:
                    bad = True
                    break
                top, fed = top @ fb, fed + 1
                xs += [callable_input(r, [c for c in a if c in "isL"][0]) for a in feeder[2]]
            box = None if bad else callable_box(rep, r, entry, route=route)
            if box is None:
                rep.count("callable:alone_not_built")
                continue
            try:
                d = top >> box
                if "T" in outs:                              # iterators are read out with `list`
                    tail = cartesian.Id(0)
                    for c in outs:
                        tail = tail @ (callable_box(rep, r, list_entry, route="Box") if c == "T"
                                       else cartesian.Id(1))
                    d = d >> tail
            except Exception as exc:
                rep.fail("callable_build_raises", dict(callable=label, route=route),
                         "composing well-typed boxes raised %r" % (exc,))
                continue
            rep.count("callable:alone")
            check_call(rep, cases, d, tuple(xs), "callable:alone:" + route, "callable", stream="callable")
            if not fed and "T" not in outs:
                check_box_alone(rep, cases, box, tuple(fresh(xs)))
    # random diagrams over the catalog
    for k in range(n):
        r = random.Random(rng.getrandbits(64))
        dom = r.randint(0, 4)
        sorts = [r.choice(CALLABLE_SORT_OF_INPUT) for _ in range(dom)]
        xs = tuple(callable_input(r, c) for c in sorts)
        grown = callable_layers(rep, r, catalog, sorts, r.randint(1, 8 if thorough else 6))
        if grown is None:
            continue
        layers, end = grown
        how = "public" if k % 2 == 0 else "ops"
        try:
            d = build_public(dom, len(end), layers) if k % 2 == 0 else build_ops(r, dom, layers)
        except Exception as exc:
            rep.fail("callable_build_raises", dict(layers=safe_repr(layers), built=how),
                     "building a well-typed diagram raised %r" % (exc,))
            continue
        kinds = sorted({getattr(b, "_c19kind", "structural") for b, _ in layers})
        rep.count("callable:diagram_kinds:%d" % len(kinds))
        rep.count("callable:depth:%d" % len(layers))
        real = check_call(rep, cases, d, xs, "callable:" + how, "callable", stream="callable")
        rep.count("callable:result:" + real.split(" ")[0 if real.startswith("ok") else 1])
        if k % 4 == 0:                                       # second call of the same object
            check_call(rep, cases, d, fresh(xs), "callable:" + how, "callable", stream="callable",
                       history=["called on %s -> %s" % (show(tuple(xs)), real[:200])])



# --------------------------------------------------------------------------- the check

class Cases:
    """Collects (stream, request line, real answer, meta); asks the model in one batch."""

    def __init__(self, rep):
        self.rep, self.items = rep, []

    def add(self, stream, line, real, meta=None, nontrivial=False):
        self.items.append((stream, line, real, meta or {}, nontrivial))

    def flush(self, drv):
        answers = drv.ask_many([line for _, line, _, _, _ in self.items])
        for (stream, line, real, meta, nontrivial), model in zip(self.items, answers):
            self.rep.case(line, nontrivial)
            self.rep.count("stream:" + stream)
            self.rep.count("%s:%s" % (stream, real.split(" ")[0 if real.startswith("ok") else 1]))
            if real != model:
                self.rep.disagree(stream, dict(meta, line=line), real, model)
        self.items = []


def check_call(rep, cases, d, xs, how, flavour, stream="call", history=None, out=None):
    """Real call, model call (when every box has a model token), oracle; returns the real answer."""
    return check_callable(rep, cases, lambda *vals: d(*vals), len(d.dom), len(d.cod),
                          list(d.boxes), list(d.offsets), xs, how, flavour, stream,
                          safe_repr(d), history, out)


def check_callable(rep, cases, call, dom, cod, boxes, offsets, xs, how, flavour, stream, descr,
                   history=None, out=None):
    """`call(*xs)` on the real code against the model (request built from dom/cod/boxes/offsets)
    and the oracle.  history: what was done to the same object before this call (replay needs it);
    out: receives the raw result, which belongs to the caller."""
    has_model = all(tok_of(b) is not None for b in boxes) and all(has_token(x) for x in xs)
    line = ser_request(dom, cod, boxes, offsets, xs) if has_model else None
    meta = dict(built=how, flavour=flavour, diagram=descr, inputs=repr(xs), input_tokens=show(tuple(xs)),
                tokens=" ".join(str(tok_of(b)) for b in boxes)[:300])
    if any(hasattr(b, "_c19route") for b in boxes):
        meta["routes"] = " ".join(getattr(b, "_c19route", "-") for b in boxes)
        meta["same_box_object_twice"] = len({id(b) for b in boxes}) < len(boxes)
    if history is not None:
        meta["earlier_on_this_object"] = list(history)
    xs_oracle = fresh(tuple(xs))      # results of the real call may alias (and change) its inputs
    raw = []
    real = answer(lambda: (raw.append(call(*xs)), raw[0])[1])
    if out is not None:
        out[:] = raw
    nontrivial = len(boxes) >= 2 and real.startswith("ok")
    if name_collisions(boxes):
        rep.count("names:same_name_and_arity_different_function")
    if any(b._c19falsy for b in boxes):
        rep.count("functions:falsy_callable_in_diagram")
    # the oracle: independent interpreter of the statement, on the real diagram's own fields
    TAINT[0] = False
    try:
        wires, in_scope = splice(dom, boxes, offsets, xs_oracle)
        want = "ok " + show(pack_result(wires))
        run_line = "ok " + show(tuple(wires))
    except Exception as exc:
        want, in_scope = "err " + err_class(exc), getattr(exc, "in_scope", True)
        run_line = want
    modelled = has_model
    if modelled and TAINT[0]:
        modelled = False
        rep.count("typed:arithmetic_outside_model(oracle only)")
    if modelled:
        cases.add(stream, "ccall " + line, real, meta, nontrivial=nontrivial)
        cases.add("run", "crun " + line, run_line, meta)
    else:
        rep.case("oracle-only %s %s %r" % (stream, descr, meta["inputs"]), nontrivial)
        rep.count("stream:%s(oracle only)" % stream)
    rep.count("scope:" + ("in" if in_scope else "out(%s)" % flavour))
    if in_scope and real != want:
        rep.fail("call_ne_splice:" + flavour, meta,
                 "d(*xs) = %s but feeding the inputs through the boxes gives %s" % (real, want))
    if not in_scope and real != want:
        rep.count("limit_witnessed")
    return real


def check_box_alone(rep, cases, b, bx, history=None, out=None):
    """A Box called directly (the functor's Box branch): model when it has a token, oracle always.
    The comparison is on canonical forms: type-sensitive (1 is not 1.0 is not True)."""
    got = []
    where = dict(box=b.name, token=str(tok_of(b)), inputs=repr(bx), input_tokens=show(tuple(bx)),
                 route=getattr(b, "_c19route", "-"))
    if history is not None:
        where["earlier_on_this_object"] = list(history)
    bx_oracle = fresh(tuple(bx))
    breal = answer(lambda: (got.append(b(*bx)), got[0])[1])
    if out is not None:
        out[:] = got
    TAINT[0] = False
    try:
        bw, ok = splice(len(b.dom), [b], [0], bx_oracle)
        good = bool(got) and show(tuple(as_wires(got[0]))) == show(tuple(bw))
    except Exception as exc:
        ok, good = getattr(exc, "in_scope", True), breal == "err " + err_class(exc)
    if tok_of(b) is not None and not TAINT[0] and all(has_token(x) for x in bx):
        cases.add("box", "cbox %s %d %d %d %s" % (
            tok_of(b), len(b.dom), len(b.cod), len(bx), " ".join(show(x) for x in bx)), breal, where)
    else:
        rep.case("oracle-only box %s %r" % (b.name, where["inputs"]), False)
    if ok and not good:
        rep.fail("box_call_ne_splice", where, "Box called directly gives %s" % breal)
    return breal


def run(tier, seed, replay=None):
    from discopy import cartesian
    from discopy.cartesian import Diagram, Id, Swap, Copy, Discard
    thorough = tier == "thorough"
    rep = Report(PROP, tier, seed)
    rep.rule = ("random cartesian diagrams grown layer by layer (width 0-%d, box arities 0..3 in and "
                "out, depth 0-%d), built with the public constructor and with >>/@, called on random "
                "integer tuples, box names unique / all '<lambda>' via disco / drawn from a few shared "
                "names, functions also handed over as falsy callables or identity sub-diagrams; "
                "Swap/Copy/Discard of all widths 0-%d; histories: one diagram object (width <= 5, "
                "depth 1-5, typed wire values int/float/bool/None/str/bytes/list/dict/set/frozenset, "
                "boxes through 9 constructor routes, box objects reused, states, counters, fresh "
                "lists) called 2-4 times on same / equal-but-distinguishable / new inputs with the "
                "earlier result mutated in between; callable: 110 catalogued Python callables of 20 "
                "kinds (builtins/types with and without inspectable signature, operator.*, partial, "
                "arity-changing functools.wraps wrappers, methods, callable instances, classes, "
                "lambdas with *args/**kwargs/defaults) x constructor routes, alone and in random "
                "diagrams of depth 1-%d over sorted wires; non-trivial = a successful "
                "call of a diagram with >= 2 boxes; distinct by request line"
                % ((8, 24, 6, 8) if thorough else (6, 10, 4, 6)))
    rep.partial = [
        "callable stream: Python's own callables (builtins, operator.*, functools objects, methods, "
        "classes) have no counterpart in the model's pool: those diagrams are compared with the "
        "oracle interpreter only (stream:callable(oracle only)); the theorems quantify over "
        "arbitrary box functions",
        "history stream: boxes that are impure (counters) or return a fresh list/dict have no model "
        "counterpart (the model's boxes are functions of their arguments): compared with the oracle "
        "interpreter only, counted under stream:history(oracle only)",
        "pool arithmetic on -0.0, non-integer floats, strings, bytes, lists (2 * 'a', 0 * -3.0) is "
        "outside the model's number tower: those calls are compared with the oracle only "
        "(typed:arithmetic_outside_model)"]
    rep.assumptions = [
        "wire values are non-tuple Python objects (ints in the random/structural streams; ints, "
        "floats, bools, None, strings, bytes, lists, dicts, sets, frozensets in the history, function "
        "and exotic streams — typed tokens `tok ty n` in the model); a box returning a tuple "
        "on one wire is re-split by tuplify: excluded by hypothesis, exhibited by an example in "
        "Props/C19.lean and by the `tuplewire` cases of this check",
        "the Python recursion limit is not modelled (three frames per layer)",
        "box functions come from a fixed pool implemented twice (Prim.sem in Lean, py_prim in the "
        "harness); the theorems quantify over arbitrary functions",
        "the model has no history: d.call is a function of the inputs; the check calls one object "
        "repeatedly and compares every call with that function, comparing types and reprs, not =="]
    rep.lean = lean_obligations(PROP, thorough=thorough)
    rng = random.Random(seed)
    tag_generators()
    drv = Driver()
    cases = Cases(rep)
    W, D = (8, 24) if thorough else (6, 10)
    n_cases = 6000 if thorough else 700
    SW = 6 if thorough else 4
    try:
        # ---- stream call / run / box / mk
        for k in range(n_cases):
            policy = ("unique", "unique", "disco", "few")[(k // 2) % 4]
            g = Gen(random.Random(rng.getrandbits(64)), W, D, names=policy)
            rep.count("names:" + policy)
            r = g.rng
            dom = r.randint(0, W)
            depth = r.choice([0, 1, 1, 2, 3]) if r.random() < 0.3 else r.randint(0, D)
            roll = k % 20
            flavour = "tuplewire" if roll in (17,) else "badarity" if roll in (18, 19) else "clean"
            try:
                layers, cod = g.layers(dom, depth, flavour)
            except Refused as e:
                refused(rep, "call", e)
                continue
            rep.count("flavour:" + flavour)
            rep.count("depth:%s" % (depth if depth < 11 else "11+"))
            rep.count("width:%d" % dom)
            for b, _ in layers:
                rep.count("arity:%d->%d" % (len(b.dom), len(b.cod)))
            xs = g.inputs(dom)
            if flavour == "tuplewire" and dom and r.random() < 0.3:   # a tuple fed in directly
                j = r.randrange(dom)
                xs = xs[:j] + (g.inputs(r.randint(0, 2)),) + xs[j + 1:]
                rep.count("inputs:with_tuple")
            if roll == 16 and flavour == "clean":            # malformed call: wrong number of inputs
                xs = g.inputs(r.choice([n for n in range(0, W + 2) if n != dom]))
                rep.count("malformed:wrong_input_count")
            if k % 2 == 0:
                how, d = "public", build_public(dom, cod, layers)
            else:
                how, d = "ops", build_ops(r, dom, layers)
                if [id(b) for b in d.boxes] != [id(b) for b, _ in layers] \
                        or list(d.offsets) != [o for _, o in layers] or len(d.cod) != cod:
                    rep.fail("ops_build_differs", dict(layers=safe_repr(layers)),
                             ">>/@ built boxes/offsets %r differ from the requested layers" % (
                                 list(d.offsets),))
            rep.count("built:" + how)
            real = check_call(rep, cases, d, xs, how, flavour)
            rep.sample(dict(request=("ccall " + ser_diagram_call(d, xs))[:300], answer=real[:120]))
            if layers and k % 5 == 0:                        # a Box called directly
                b = r.choice(layers)[0]
                bx = g.inputs(len(b.dom)) if r.random() < 0.9 else g.inputs(len(b.dom) + 1)
                check_box_alone(rep, cases, b, bx)
            if k % 10 == 3 and layers:                       # ill-typed constructor request
                bs, os_ = [b for b, _ in layers], [o for _, o in layers]
                what = r.choice(["cod", "neg", "far", "len", "shift"])
                j = r.randrange(len(os_))
                c2 = cod
                if what == "cod":
                    c2 = cod + r.choice([-1, 1, 2]) if cod else cod + 1
                elif what == "neg":
                    os_[j] = -r.randint(1, 3)
                elif what == "far":
                    os_[j] = os_[j] + W + r.randint(1, 3)
                elif what == "len":
                    os_ = os_[:-1]
                else:
                    os_[j] = os_[j] + r.choice([-1, 1])
                rep.count("malformed:mk_" + what)
                cases.add("mk", "ccall " + ser_request(dom, c2, bs, os_, xs),
                          answer(lambda: Diagram(dom, c2, bs, os_)(*xs)),
                          dict(what=what, offsets=os_))
        cases.flush(drv)

        # ---- stream struct: Swap / Copy / Discard, wiring and values, every width
        def net(mk):
            try:
                d = mk()
            except Exception as exc:
                return "err " + err_class(exc)
            return "ok " + " ".join(
                [str(len(d.dom)), str(len(d.cod)), str(len(d.boxes))] +
                ["%d %d %d" % (len(b.dom), len(b.cod), o) for b, o in zip(d.boxes, d.offsets)])
        g = Gen(random.Random(rng.getrandbits(64)), W, D)
        for l in range(SW + 1):
            for r_ in range(SW + 1):
                cases.add("struct", "cnet swap %d %d" % (l, r_), net(lambda: Swap(l, r_)))
                for _ in range(2):
                    xs = g.inputs(l + r_)
                    real = answer(lambda: Swap(l, r_)(*xs))
                    cases.add("struct", "cswap %d %d %d %s" % (l, r_, len(xs), " ".join(map(show, xs))),
                              real, nontrivial=l * r_ >= 2)
                    if real != "ok " + show(pack_result(list(xs[l:] + xs[:l]))):
                        rep.fail("swap_spec", dict(left=l, right=r_, xs=repr(xs)), real)
                bad = g.inputs(l + r_ + 1)
                cases.add("struct", "cswap %d %d %d %s" % (l, r_, len(bad), " ".join(map(show, bad))),
                          answer(lambda: Swap(l, r_)(*bad)))
        for n in range((8 if thorough else 5) + 1):
            cases.add("struct", "cnet copy %d" % n, net(lambda: Copy(n)))
            cases.add("struct", "cnet discard %d" % n, net(lambda: Discard(n)))
            for _ in range(2):
                xs = g.inputs(n)
                real = answer(lambda: Copy(n)(*xs))
                cases.add("struct", "ccopy %d %d %s" % (n, n, " ".join(map(show, xs))), real,
                          nontrivial=n >= 2)
                if real != "ok " + show(pack_result(list(xs + xs))):
                    rep.fail("copy_spec", dict(n=n, xs=repr(xs)), real)
                real = answer(lambda: Discard(n)(*xs))
                cases.add("struct", "cdiscard %d %d %s" % (n, n, " ".join(map(show, xs))), real,
                          nontrivial=n >= 2)
                if real != "ok ()":
                    rep.fail("discard_spec", dict(n=n, xs=repr(xs)), real)
            bad = g.inputs(n + 1)
            cases.add("struct", "ccopy %d %d %s" % (n, n + 1, " ".join(map(show, bad))),
                      answer(lambda: Copy(n)(*bad)))
            cases.add("struct", "cdiscard %d %d %s" % (n, n + 1, " ".join(map(show, bad))),
                      answer(lambda: Discard(n)(*bad)))
        cases.flush(drv)

        # ---- stream exotic (oracle only): "all input tuples" — any non-tuple Python object is a
        # legitimate wire value (None, strings, floats, lists, dicts); structural diagrams must
        # permute / duplicate / delete them as a whole
        def exotic(r):
            return r.choice([None, None, "s", "", 0, 1.5, [1, 2], [], {"k": 1}, True, False, 7])
        for k in range(400 if thorough else 80):
            r = random.Random(rng.getrandbits(64))
            a, b, c = r.randint(0, 3), r.randint(0, 3), r.randint(0, 2)
            xs = [exotic(r) for _ in range(a)]
            ys = [exotic(r) for _ in range(b)]
            zs = [exotic(r) for _ in range(c)]
            trials = [
                ("swap", lambda: Swap(a, b)(*(xs + ys)), ys + xs),
                ("copy", lambda: Copy(a)(*xs), xs + xs),
                ("discard", lambda: Discard(a)(*xs), []),
                ("id@swap", lambda: (Id(c) @ Swap(a, b))(*(zs + xs + ys)), zs + ys + xs),
                ("swap@id", lambda: (Swap(a, b) @ Id(c))(*(xs + ys + zs)), ys + xs + zs),
                ("copy>>discard@id", lambda: (Copy(a) >> Discard(a) @ Id(a))(*xs), xs),
                ("id@discard", lambda: (Id(a) @ Discard(b))(*(xs + ys)), xs),
            ]
            for name, call, want in trials:
                rep.count("exotic:" + name)
                case = dict(stream="exotic", what=name, inputs=repr((xs, ys, zs)))
                try:
                    got = call()
                except Exception as exc:
                    rep.fail("exotic_values:" + name, case, "raised %r" % (exc,))
                    continue
                gotw = list(got) if isinstance(got, tuple) else [got]
                # Python's convention: a single value is returned bare; compare as wire lists
                if len(want) == 1:
                    ok = (got == want[0] and type(got) is type(want[0])) or gotw == want
                else:
                    ok = gotw == want and all(type(p) is type(q) for p, q in zip(gotw, want))
                rep.case("exotic %s %r" % (name, (xs, ys, zs)), len(want) >= 2)
                if not ok:
                    rep.fail("exotic_values:" + name, case, "got %r, expected wires %r" % (got, want))

        # ---- stream samename: several boxes of one diagram share name and arity but wrap
        # different functions (disco-wrapped lambdas are all called '<lambda>'; a user box called
        # 'swap' next to the library's SWAP); each box must be evaluated with its OWN function
        for k in range(400 if thorough else 90):
            r = random.Random(rng.getrandbits(64))
            g = Gen(r, W, D)
            m = r.choice([1, 1, 2, 2, 3])
            name = r.choice(SHARED_NAMES)
            count = r.randint(2, 4)
            toks = []
            while len(toks) < count:
                t = g.token(m, m, "clean")
                if t not in toks and not t.startswith(("pack", "ident")):
                    toks.append(t)
            try:
                bs = [make_box(t, m, m, name=name, via_disco=(name == "<lambda>")) for t in toks]
            except Refused as e:
                refused(rep, "samename", e)
                continue
            if m == 2 and name == "swap":
                bs[r.randrange(count)] = cartesian.SWAP
            if m == 1 and r.random() < 0.3:
                bs.append(bs[0])                           # the same box twice is fine too
            xs = g.inputs(m)
            seq, par = bs[0], bs[0]
            for b in bs[1:]:
                seq, par = seq >> b, par @ b
            shapes = [("seq", seq, xs),
                      ("public", Diagram(m, m, bs, [0] * len(bs)), xs),
                      ("par", par, g.inputs(m * len(bs))),
                      ("mixed", bs[0] @ bs[1] >> Swap(m, m) >> bs[-1] @ bs[0] >> Id(m) @ bs[1],
                       g.inputs(2 * m)),
                      ("copy", bs[0] >> Copy(m) >> bs[1] @ bs[-1], xs)]
            for how, d, args in shapes:
                rep.count("samename:" + how)
                check_call(rep, cases, d, args, "samename:" + how, "clean", stream="samename")
        cases.flush(drv)

        # ---- stream hier: boxes whose function is itself a cartesian diagram (identity sub-diagrams
        # are falsy: bool(diagram) is len(boxes) != 0) or another falsy callable; called alone and
        # inside diagrams built both ways.  Sub-diagram boxes have no model token: oracle only.
        for k in range(400 if thorough else 90):
            r = random.Random(rng.getrandbits(64))
            g = Gen(r, W, D)
            try:
                pre, w = g.layers(r.randint(0, W), r.randint(0, 3))
                kind = ("ident", "sub", "wrap", "unit")[k % 4]
                if kind == "ident":
                    m = r.randint(0, min(3, w))
                    special = make_box("ident:%d" % m, m, m, name=r.choice(["wires", "id", "f"]))
                elif kind == "unit":
                    special = make_box("ident:0", 0, 0, name="unit")
                elif kind == "sub":
                    a = r.randint(0, min(3, w))
                    gi = Gen(r, min(W, W - (w - a)), 4)
                    il, ic = gi.layers(a, r.randint(0, 4))
                    inner = build_public(a, ic, il) if r.random() < 0.5 else build_ops(r, a, il)
                    special = sub_box(r.choice(["sub", "f", "<lambda>"]), inner)
                else:
                    m = r.randint(0, min(3, w))
                    n = r.randint(0, min(3, W - (w - m)))
                    special = make_box(g.token(m, n, "clean"), m, n, wrap=r.choice(sorted(WRAPS)),
                                       name=r.choice([None, "lookup", "f"]))
                sm, sn = len(special.dom), len(special.cod)
                off = r.randint(0, w - sm)
                post, cod = g.layers(w - sm + sn, r.randint(0, 3))
            except Refused as e:
                refused(rep, "hier", e)
                continue
            layers = pre + [(special, off)] + post
            # the domain the `pre` layers started from
            start = w
            for b, _ in reversed(pre):
                start = start - len(b.cod) + len(b.dom)
            rep.count("hier:" + kind)
            xs = g.inputs(start)
            d = build_public(start, cod, layers) if k % 8 < 4 else build_ops(r, start, layers)
            check_call(rep, cases, d, xs, "hier:" + kind, "clean", stream="hier")
            check_box_alone(rep, cases, special, g.inputs(sm))
            if kind != "sub" and sm == sn:               # naturality of copy / discard for that box
                args = g.inputs(sm)
                for how, mk in (("copy", lambda: special >> Copy(sm)),
                                ("copy'", lambda: Copy(sm) >> special @ special),
                                ("discard", lambda: special >> Discard(sm))):
                    try:
                        dd = mk()
                    except Exception as exc:
                        rep.fail("composition_raises:" + how,
                                 dict(box=safe_repr(special, 200), wires=sm),
                                 "composing a box with Copy/Discard of its own arity raised %r" % (exc,))
                        continue
                    check_call(rep, cases, dd, args, "hier:" + how, "clean", stream="hier")
        cases.flush(drv)

        # ---- stream natural: the cartesian axioms on the real code (both sides also on the model)
        n_nat = 600 if thorough else 120
        for k in range(n_nat):
            g = Gen(random.Random(rng.getrandbits(64)), SW, 5,
                    names=("unique", "disco", "few")[k % 3])
            r = g.rng
            fd, gd = r.randint(0, SW), r.randint(0, SW)
            try:
                fl, fc = g.layers(fd, r.randint(0, 5))
                gl, gc = g.layers(gd, r.randint(0, 5))
            except Refused as e:
                refused(rep, "natural", e)
                continue
            f, h = build_public(fd, fc, fl), build_public(gd, gc, gl)
            xs, ys = g.inputs(fd), g.inputs(gd)
            laws = [
                ("swap_natural", lambda: f @ h >> Swap(fc, gc), lambda: Swap(fd, gd) >> h @ f, xs + ys),
                ("copy_natural", lambda: f >> Copy(fc), lambda: Copy(fd) >> f @ f, xs),
                ("discard_natural", lambda: f >> Discard(fc), lambda: Discard(fd), xs),
                ("copy_counit_right", lambda: Copy(fd) >> Id(fd) @ Discard(fd), lambda: Id(fd), xs),
                ("copy_counit_left", lambda: Copy(fd) >> Discard(fd) @ Id(fd), lambda: Id(fd), xs),
                ("copy_cocommutative", lambda: Copy(fd) >> Swap(fd, fd), lambda: Copy(fd), xs),
                ("swap_involution", lambda: Swap(fd, gd) >> Swap(gd, fd), lambda: Id(fd + gd),
                 xs + ys),
            ]
            for name, mk_lhs, mk_rhs, args in laws[:3] + [laws[3 + k % 4]]:
                rep.count("law:" + name)
                where = dict(f=safe_repr(f, 200), g=safe_repr(h, 200), args=repr(args))
                try:
                    lhs, rhs = mk_lhs(), mk_rhs()
                except Exception as exc:
                    rep.fail("law_build:" + name, where,
                             "%s: a side of the law cannot be built: %r" % (name, exc))
                    continue
                a = check_call(rep, cases, lhs, args, "law:" + name, "clean", stream="natural")
                b = check_call(rep, cases, rhs, args, "law:" + name, "clean", stream="natural")
                if a != b:
                    rep.fail("law:" + name, where, "%s: lhs %s, rhs %s" % (name, a, b))
        cases.flush(drv)

        # ---- stream history: ONE diagram object called several times in a row.  The function a
        # diagram draws has no memory: every call must give what the drawn function gives on THAT
        # call's inputs (type-sensitively: 1, 1.0 and True are different inputs), whatever was
        # computed before and whatever the caller did to earlier results.
        from discopy.cartesian import Function
        for k in range(1200 if thorough else 170):
            r = random.Random(rng.getrandbits(64))
            mode = ("numeric", "mixed", "mixed")[k % 3]
            g = TGen(r, 5, 5, mode, rep)
            dom = r.randint(0, 4)
            try:
                layers, cod = g.layers(dom, r.randint(1, 5))
            except Refused as e:
                refused(rep, "history", e)
                continue
            rep.count("history:mode_" + mode)
            how = "public" if k % 2 == 0 else "ops"
            try:
                d = build_public(dom, cod, layers) if k % 2 == 0 else build_ops(r, dom, layers)
            except Exception as exc:
                rep.fail("history_build_raises", dict(layers=safe_repr(layers), built=how),
                         "building a well-typed diagram raised %r" % (exc,))
                continue
            template = g.inputs(dom)
            history, prev = [], []
            for c in range(r.randint(2, 4)):
                kind = "first" if c == 0 else r.choice(["same", "variant", "variant", "new"])
                xs = g.inputs(dom) if kind == "new" else g.variant(template) if kind == "variant" \
                    else fresh(template)
                if prev and r.random() < 0.8 and mutate(prev[0]):
                    rep.count("history:earlier_result_mutated_by_caller")
                    history.append("caller mutated the result of the previous call")
                rep.count("history:call_" + kind)
                for x in xs:
                    rep.count("value:" + type(x).__name__)
                if any(isinstance(x, (list, dict, set)) for x in xs):
                    rep.count("history:unhashable_input")
                real = check_call(rep, cases, d, xs, "history:" + how, "typed", stream="history",
                                  history=history, out=prev)
                history.append("called on %s -> %s" % (show(tuple(xs)), real[:200]))
            if k % 3 == 0:                       # a box of it called directly, three times
                b = r.choice(layers)[0]
                bt, bprev = g.inputs(len(b.dom)), []
                bh = ["(inside its diagram) " + h for h in history]
                for kind in ("first", "variant", "same"):
                    bx = g.variant(bt) if kind == "variant" else fresh(bt)
                    if bprev and mutate(bprev[0]):
                        bh.append("caller mutated the result of the previous call")
                    rep.count("history:box_call_" + kind)
                    breal = check_box_alone(rep, cases, b, bx, history=bh, out=bprev)
                    bh.append("called on %s -> %s" % (show(tuple(bx)), breal[:200]))
            if k % 4 == 1:                       # the same boxes twice inside one diagram
                args = g.variant(template)
                for name, mk, vals in (
                        ("f>>copy", lambda: d >> Copy(cod), args),
                        ("copy>>f@f", lambda: Copy(dom) >> d @ d, args),
                        ("f@f", lambda: d @ d, fresh(template) + g.variant(template)),
                        ("f@f>>swap", lambda: d @ d >> Swap(cod, cod), g.variant(template) + args),
                        ("f>>discard", lambda: d >> Discard(cod), args)):
                    try:
                        dd = mk()
                    except Exception as exc:
                        rep.fail("composition_raises:" + name, dict(diagram=safe_repr(d)),
                                 "composing a diagram with Copy/Swap/Discard raised %r" % (exc,))
                        continue
                    rep.count("history:law_" + name)
                    check_call(rep, cases, dd, fresh(vals), "history:" + name, "typed",
                               stream="history", history=history + ["(now inside %s)" % name])
        cases.flush(drv)

        # ---- stream function: cartesian.Function objects composed directly with >> / @ /
        # Function.id (what the functor does with the boxes), typed inputs, called twice
        for k in range(500 if thorough else 70):
            r = random.Random(rng.getrandbits(64))
            g = TGen(r, 5, 5, ("numeric", "mixed")[k % 2], rep)
            dom = r.randint(0, 4)
            try:
                layers, cod = g.layers(dom, r.randint(0, 4))
            except Refused as e:
                refused(rep, "function", e)
                continue
            bs, os_ = [b for b, _ in layers], [o for _, o in layers]
            try:
                F, width = Function.id(dom), dom
                for b, off in layers:
                    m, n = len(b.dom), len(b.cod)
                    layer = Function.id(off) @ Function(m, n, b._c19given) @ Function.id(width - off - m)
                    F, width = F >> layer, width - m + n
            except Exception as exc:
                rep.fail("function_build_raises", dict(layers=safe_repr(layers)),
                         "composing Functions of matching arities raised %r" % (exc,))
                continue
            template, history = g.inputs(dom), []
            for xs in (fresh(template), g.variant(template)):
                real = check_callable(rep, cases, F, dom, cod, bs, os_, xs, "Function", "typed",
                                      "function", "Function.id(%d) >> layers of %s" % (
                                          dom, " ".join(str(tok_of(b)) for b in bs)), history)
                history.append("called on %s -> %s" % (show(tuple(xs)), real[:200]))
        cases.flush(drv)

        # ---- stream callable (oracle only): every KIND of Python callable as a box function
        stream_callable(rep, cases, random.Random(rng.getrandbits(64)), 2000 if thorough else 250,
                        thorough)
        cases.flush(drv)
    finally:
        drv.close()
    return rep.finish()
