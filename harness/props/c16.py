"""C16 — circuits translate to ZX diagrams denoting the same linear map.

discopy 0.3.5 has no evaluator for ZX diagrams (zx spiders carry no array; the only semantic route
is pyzx, whose API changed), so the "standard interpretation" is stated twice, independently:
  * `zx_numpy` below — textbook definition of spiders (sums over computational / Hadamard basis
    states), Hadamard, swap, scalar, composed layer by layer; used by the ORACLE;
  * lean/Model/Gates.lean (`zMat`, `xMat`, `evalZX`) — used by the theorems; the two are compared
    exactly (through recognition in ℤ[ζ₈]/2^e) on every generator and on every generated diagram.
Correspondence: `circuit2zx(c)` (boxes, offsets, phases) against the model's `gate2zx`/`circuit2zx`,
and `.dagger()` of ZX diagrams against the model's.
"""
import itertools
import math
import cmath
import random

import numpy as np

import cyc8
import qgen
from common import Driver, Report, lean_obligations, err_class
from qgen import QGen, build, tok, show, kinds, build_circuit, tok_circuit, show_circuit, eval_io, arity

PROP = "C16"
TOL = 1e-9
F7_KINDS = ("CRz", "CRx", "CU1")


# --------------------------------------------------------------------------- independent ZX semantics

def _basis_state(bit, n):
    v = np.zeros(2 ** n, dtype=complex)
    v[(2 ** n - 1) if bit else 0] = 1
    return v


def _pm_state(minus, n):
    one = np.array([1, -1 if minus else 1], dtype=complex) / math.sqrt(2)
    v = np.ones(1, dtype=complex)
    for _ in range(n):
        v = np.kron(v, one)
    return v


def zx_spider(colour, n, m, phase):
    """[input, output] matrix (2^n x 2^m) of a spider with n inputs, m outputs, phase in FULL turns:
    Z = |0..0><0..0| + e^{2 pi i phase} |1..1><1..1|,  X the same over |+>, |->."""
    st = _basis_state if colour == "z" else _pm_state
    mu = cmath.exp(2j * math.pi * phase)
    return np.outer(st(0, n), st(0, m)) + mu * np.outer(st(1, n), st(1, m))


H_IO = np.array([[1, 1], [1, -1]], dtype=complex) / math.sqrt(2)
SWAP_IO = np.array([[1, 0, 0, 0], [0, 0, 1, 0], [0, 1, 0, 0], [0, 0, 0, 1]], dtype=complex)


def zx_box(b):
    """b = ("z"|"x", n, m, phase) | ("h",) | ("w",) | ("s", value)."""
    if b[0] in "zx":
        return zx_spider(b[0], b[1], b[2], b[3])
    if b[0] == "h":
        return H_IO
    if b[0] == "w":
        return SWAP_IO
    return np.array([[b[1]]], dtype=complex)


def zx_arity(b):
    if b[0] in "zx":
        return b[1], b[2]
    return {"h": (1, 1), "w": (2, 2), "s": (0, 0)}[b[0]]


def zx_numpy(dom, layers):
    """Standard interpretation of [(box, offset)] on `dom` input wires; returns (matrix, cod)."""
    m, w = np.eye(2 ** dom, dtype=complex), dom
    for b, off in layers:
        d, c = zx_arity(b)
        assert 0 <= off and off + d <= w, (b, off, w)
        m = m @ np.kron(np.kron(np.eye(2 ** off), zx_box(b)), np.eye(2 ** (w - off - d)))
        w = w - d + c
    return m, w


def read_zx(diagram):
    """(dom, [(box, offset)]) of a real zx.Diagram."""
    from discopy.quantum import zx
    out = []
    for b, off in zip(diagram.boxes, diagram.offsets):
        if isinstance(b, zx.Z):
            out.append((("z", len(b.dom), len(b.cod), b.phase), off))
        elif isinstance(b, zx.X):
            out.append((("x", len(b.dom), len(b.cod), b.phase), off))
        elif isinstance(b, zx.Had):
            out.append((("h",), off))
        elif isinstance(b, zx.Swap):
            out.append((("w",), off))
        elif isinstance(b, zx.Scalar):
            out.append((("s", complex(b.data)), off))
        else:
            raise TypeError("unexpected ZX box %r" % (b,))
    return len(diagram.dom), out


def tok_zxbox(b):
    """Driver token of a ZX box, or None if its phase / scalar is not exactly representable."""
    if b[0] in "zx":
        p = b[3] * 8
        if abs(p - round(p)) > 1e-12:
            return None
        return "%s %d %d %d" % (b[0], b[1], b[2], int(round(p)) % 8)
    if b[0] in "hw":
        return b[0]
    t = cyc8.recognise(b[1])
    return None if t is None else "s " + cyc8.scalar_tok(t)


def tok_zx(layers):
    toks = []
    for b, off in layers:
        t = tok_zxbox(b)
        if t is None:
            return None
        toks.append("%s %d" % (t, off))
    return "ok " + " ".join([str(len(layers))] + toks)


def proportional(z, e):
    """(ok, k): z == k * e for ONE non-zero scalar k (both zero counts as ok)."""
    scale = max(1.0, float(np.max(np.abs(z))), float(np.max(np.abs(e))))
    if float(np.max(np.abs(e))) <= TOL * scale:
        return float(np.max(np.abs(z))) <= TOL * scale, 1.0
    k = np.vdot(e, z) / np.vdot(e, e)
    return abs(k) > TOL and bool(np.all(np.abs(z - k * e) <= TOL * scale)), k


# --------------------------------------------------------------------------- corrected decompositions

def fixed_layers(kind, phase):
    """The proposed repair of zx.py:376-384 (see notes/finding_F7.md)."""
    h = phase / 2
    if kind == "CRz":
        return [(("z", 1, 2, 0), 0), (("z", 1, 2, h), 2), (("x", 2, 1, 0), 1), (("z", 1, 0, -h), 1)]
    if kind == "CU1":
        return [(("z", 1, 2, h), 0), (("z", 1, 2, h), 2), (("x", 2, 1, 0), 1), (("z", 1, 0, -h), 1)]
    return [(("z", 1, 2, 0), 0), (("x", 1, 2, h), 2), (("h",), 1), (("z", 2, 1, 0), 1),
            (("x", 1, 0, -h), 1)]


def zx_gateset(gen, w):
    """Gate classes of the property's quantifier: Ket, Bra, H, X, Y, Z, CX, CZ, Rx, Rz, CRz, CRx, CU1,
    SWAP, scalar — and their daggers."""
    rng = gen.rng
    opts = ["scalar"]
    if w >= 1:
        opts += ["n1", "n1", "r1", "r1", "bra"]
    if w >= 2:
        opts += ["n2", "r2", "r2", "swap"]
    if w < gen.max_wires:
        opts += ["ket"] * (3 if w == 0 else 1)
    o = rng.choice(opts)
    if o == "n1":
        g = ("N", rng.choice(("H", "X", "Y", "Z")))
    elif o == "r1":
        g = gen.rot(rng.choice(("Rx", "Rz")))
    elif o == "n2":
        g = ("N", rng.choice(("CX", "CZ")))
    elif o == "r2":
        g = gen.rot(rng.choice(F7_KINDS))
    elif o == "swap":
        g = ("W",)
    elif o == "ket":
        return ("K", gen.bits(rng.randint(1, min(2, gen.max_wires - w))))
    elif o == "bra":
        return ("B", gen.bits(rng.randint(1, min(2, w))))
    else:
        return gen.scalar()
    if rng.random() < 0.25:
        g = ("D", g)
    return g


def exact_desc(g):
    k = g[0]
    if k == "R":
        return g[2] is not None and g[2] % 2 == 0
    if k in "DC":
        return exact_desc(g[1])
    if k == "S":
        return g[1] is not None
    return True


def f7_gate(g):
    g = qgen.norm(g)
    return g[0] == "R" and g[1] in F7_KINDS


class Check:
    def __init__(self, rep, drv, rng):
        self.rep, self.drv, self.rng = rep, drv, rng
        self.switches = drv.ask("switches")
        self.f7 = "1" if "f7=1" in self.switches else "0"
        self.float_cmp = 0

    # ---- model semantics vs textbook semantics, generator by generator

    def generators(self, max_legs):
        rep = self.rep
        for colour in "zx":
            for n, m in itertools.product(range(max_legs + 1), repeat=2):
                for p in range(8):
                    b = (colour, n, m, p / 8.0)
                    model = self.drv.ask("zxmat " + tok_zxbox(b))
                    real = cyc8.recognise_matrix(zx_box(b), 2 ** n, 2 ** m)
                    rep.case("gen|%s" % (b,), True)
                    rep.count("zx_generator_semantics_checked")
                    if real != model:
                        rep.disagree("zxmat", dict(box=b), real, model)
        for b in (("h",), ("w",), ("s", 0.5j)):
            model = self.drv.ask("zxmat " + tok_zxbox(b))
            d, c = zx_arity(b)
            real = cyc8.recognise_matrix(zx_box(b), 2 ** d, 2 ** c)
            rep.case("gen|%s" % (b,), True)
            if real != model:
                rep.disagree("zxmat", dict(box=b), real, model)

    # ---- one circuit (a single gate is a circuit of one layer)

    def circuit(self, n_in, layers, stream):
        from discopy.quantum import zx
        rep = self.rep
        case = dict(circuit=show_circuit(n_in, layers), stream=stream)
        c = build_circuit(n_in, layers)
        exact = all(exact_desc(g) for _, g, _ in layers)
        allk = [k for _, g, _ in layers for k in kinds(g)]
        for k in set(allk):
            rep.count("has:" + k)
        nontrivial = any(not (g[0] == "R" and g[3] % 1 == 0) and g[0] != "S" for _, g, _ in layers)
        rep.case(stream + "|" + case["circuit"], nontrivial)
        rep.sample(case)
        try:
            d = zx.circuit2zx(c)
            real_err = None
        except KeyError:
            d, real_err = None, "err index"
        except Exception as exc:
            d, real_err = None, "err " + err_class(exc)
        if exact:
            model = self.drv.ask("c2zx %s %s" % (self.f7, tok_circuit(layers)))
            real = real_err if d is None else (tok_zx(read_zx(d)[1]) or "unrepresentable")
            rep.count("exact_structure_comparisons")
            if real != model:
                rep.disagree("c2zx", case, real[:400], model[:400])
        if d is None:
            rep.count("unsupported")
            if all(self.supported(g) for _, g, _ in layers):
                rep.fail("circuit2zx_raises:" + real_err, case, "supported gate set but circuit2zx raised")
            return
        dom, zl = read_zx(d)
        e = eval_io(c)
        # arity
        if dom != len(c.dom) or len(d.cod) != len(c.cod):
            rep.fail("circuit2zx_arity", case, "ZX diagram has %d -> %d wires, circuit %d -> %d" % (
                dom, len(d.cod), len(c.dom), len(c.cod)))
            return
        z, cod = zx_numpy(dom, zl)
        if exact:
            t = tok_zx(zl)
            if t is not None:
                m = self.drv.ask("zxeval %d %s" % (dom, t[3:]))
                r = cyc8.recognise_matrix(z, 2 ** dom, 2 ** cod) or "unrepresentable"
                rep.count("exact_semantics_comparisons")
                if r != m:
                    rep.disagree("zxeval", case, r[:300], m[:300])
        # oracle: proportional to the circuit's evaluation with ONE non-zero scalar
        ok, k = proportional(z, e)
        self.float_cmp += 1
        if not ok:
            if any(f7_gate(g) for _, g, _ in layers):
                zl2 = self.repaired_layers(layers)
                z2, _ = zx_numpy(dom, zl2)
                ok2, _ = proportional(z2, e)
                if ok2:
                    rep.fail("circuit2zx_not_proportional:CRz|CRx|CU1", case,
                             "not proportional to the evaluation; proportional once the decompositions "
                             "of CRz/CRx/CU1 are replaced by the corrected ones")
                else:
                    rep.fail("circuit2zx_not_proportional", case, "also with corrected CRz/CRx/CU1")
            else:
                rep.fail("circuit2zx_not_proportional", case,
                         "ZX diagram does not denote the evaluation up to a non-zero scalar")
        # oracle: dagger of the ZX diagram denotes the conjugate transpose
        self.zx_dagger(d, z, case, exact)

    def supported(self, g):
        g = qgen.norm(g)
        k = g[0]
        if k == "N":
            return g[1] in ("H", "X", "Y", "Z", "CX", "CZ")
        if k == "D":
            return g[1] == ("N", "Y")
        if k == "R":
            return g[1] in ("Rx", "Rz") + F7_KINDS
        return k in "KBWS"

    def repaired_layers(self, layers):
        """circuit2zx with the real gate2zx for every gate except CRz/CRx/CU1, which get the
        corrected decomposition."""
        from discopy.quantum import zx
        out = []
        for l, g, _ in layers:
            n = qgen.norm(g)
            if n[0] == "R" and n[1] in F7_KINDS:
                sub = fixed_layers(n[1], n[3])
            else:
                sub = read_zx(zx.circuit2zx(build(g)))[1]
            out += [(b, o + l) for b, o in sub]
        return out

    def zx_dagger(self, d, z, case, exact):
        rep = self.rep
        dd = d.dagger()
        dom2, zl2 = read_zx(dd)
        z2, _ = zx_numpy(dom2, zl2)
        self.float_cmp += 1
        rep.count("zx_dagger_checked")
        if z2.shape != z.conj().T.shape or not np.all(
                np.abs(z2 - z.conj().T) <= TOL * max(1.0, float(np.max(np.abs(z))))):
            rep.fail("zx_dagger_not_adjoint", case, "[[d.dagger()]] != [[d]]^H")
        if exact:
            t1, t2 = tok_zx(read_zx(d)[1]), tok_zx(zl2)
            if t1 is not None and t2 is not None:
                model = self.drv.ask("zxdag " + t1[3:])
                rep.count("exact_structure_comparisons")
                if t2 != model:
                    rep.disagree("zxdag", case, t2[:300], model[:300])

    # ---- random ZX diagrams (not images of circuits), for the dagger clause

    def random_zx(self):
        from discopy.quantum import zx
        rng, rep = self.rng, self.rep
        w = rng.randint(0, 3)
        d = zx.Id(w)
        desc = ["Id(%d)" % w]
        for _ in range(rng.randint(1, 6)):
            o = rng.choice(["z", "x", "z", "x", "h", "w", "s"])
            if o in "zx":
                n = rng.randint(0, min(2, w))
                m = rng.randint(0, 2 if w - n + 2 <= 4 else max(0, 4 - (w - n)))
                ph = rng.randint(-8, 8) / 8.0 if rng.random() < 0.5 else round(rng.uniform(-1, 1), 4)
                b = (zx.Z if o == "z" else zx.X)(n, m, ph)
            elif o == "h":
                if w < 1:
                    continue
                b = zx.Had()
            elif o == "w":
                if w < 2:
                    continue
                b = zx.SWAP
            else:
                b = zx.scalar(rng.choice([0.5, 1j, -1.0, 0.5 + 0.5j, 2.0]))
            off = rng.randint(0, w - len(b.dom))
            d = d >> zx.Id(off) @ b @ zx.Id(w - off - len(b.dom))
            w = len(d.cod)
            desc.append("Id(%d) @ %r @ Id(%d)" % (off, b, w - off - len(b.cod)))
        case = dict(zx=" >> ".join(desc), stream="random-zx")
        dom, zl = read_zx(d)
        z, cod = zx_numpy(dom, zl)
        rep.case("rzx|" + case["zx"], len(zl) >= 2)
        rep.count("random_zx_diagrams")
        t = tok_zx(zl)
        exact = t is not None
        if exact:
            m = self.drv.ask("zxeval %d %s" % (dom, t[3:]))
            r = cyc8.recognise_matrix(z, 2 ** dom, 2 ** cod) or "unrepresentable"
            rep.count("exact_semantics_comparisons")
            if r != m:
                rep.disagree("zxeval", case, r[:300], m[:300])
        self.zx_dagger(d, z, case, exact)


def run(tier, seed, replay=None):
    rep = Report(PROP, tier, seed)
    thorough = tier == "thorough"
    rep.rule = ("(1) every gate class of the property's set {Ket, Bra, H, X, Y, Z, CX, CZ, Rx, Rz, CRz, CRx, "
                "CU1, SWAP, scalar} and its dagger, rotations at all phases k/8 (|k| <= 16) and at random "
                "float phases, all bitstrings of length <= 3; unsupported gates (S, T, Ry, Controlled(Z)) for "
                "the refusal; (2) random pure circuits over that set on 0-4 wires, depth 1-8, random offsets "
                "and bitstrings, half at exactly representable phases; (3) random ZX diagrams of 1-6 "
                "generators (arities 0-2, phases k/8 or random) for the dagger clause; (4) all spiders with "
                "<= 2 (3 thorough) legs per side at all phases k/8: model semantics = textbook semantics. "
                "Non-trivial = contains a gate other than a scalar or a rotation at an integer phase; "
                "distinct by printed form")
    rep.partial = [
        "the lifting of the per-gate theorem to whole circuits (one overall non-zero scalar = product of the "
        "per-gate scalars) is proved in Lean for every well-typed circuit over the translated gate set at the "
        "even integer phase indices (kets/bras <= 4 bits) and generically over any commutative ring; circuits with "
        "longer kets/bras are covered by the oracle and exact correspondence only",
        "the dagger of a whole ZX diagram is proved (every well-typed diagram, any arities and phases) for the "
        "model's interpretation; discopy's own .dagger() is tied to the model's by exact correspondence",
        "gate2zx_sound for kets/bras is decided for bitstrings of <= 3 bits; the as-is CRx image is refuted at "
        "phase 1/4 only (CRz, CU1: exact extent proved for every real phase)"]
    rep.assumptions = [
        "discopy 0.3.5 cannot evaluate ZX diagrams itself; the standard interpretation is the textbook one "
        "written independently in harness/props/c16.py (numpy) and in lean/Model/Gates.lean, compared "
        "exactly on every generator and diagram of the run",
        "float_oracle: proportionality and dagger comparisons use relative tolerance 1e-9"]
    rep.lean = lean_obligations(PROP, thorough=thorough)
    rng = random.Random(seed)
    drv = Driver()
    try:
        chk = Check(rep, drv, rng)
        rep.extra["model_switches"] = chk.switches
        chk.generators(2 if not thorough else 3)
        # single gates
        singles = [("N", n) for n in ("H", "X", "Y", "Z", "CX", "CZ")] + [("W",)]
        singles += [("D", g) for g in list(singles)]
        singles += [("N", "S"), ("N", "T"), ("D", ("N", "S")), ("C", ("N", "Z")), ("R", "Ry", 2, 0.25),
                    ("C", ("N", "X")), ("C", ("D", ("N", "X")))]
        for g in singles:
            d, _ = arity(g)
            chk.circuit(d, [(0, g, 0)], "gate")
        for kind in ("Rx", "Rz") + F7_KINDS:
            for n in range(-16, 17):
                g = ("R", kind, n if n % 2 == 0 else None, n / 8.0)
                chk.circuit(arity(g)[0], [(0, g, 0)], "rot-k/8")
            for _ in range(10 if not thorough else 120):
                g = ("R", kind, None, round(rng.uniform(-3, 3), 6))
                chk.circuit(arity(g)[0], [(0, g, 0)], "rot-float")
                chk.circuit(arity(g)[0], [(0, ("D", g), 0)], "rot-float")
        for k in range(0, 4):
            for bits in itertools.product((0, 1), repeat=k):
                chk.circuit(0, [(0, ("K", bits), 0)], "ketbra")
                chk.circuit(k, [(0, ("B", bits), 0)], "ketbra")
        for t in qgen.EXACT_SCALARS:
            chk.circuit(0, [(0, ("S", t, cyc8.to_complex(t)), 0)], "scalar")
        # circuits
        for k in range(400 if not thorough else 5000):
            gen = QGen(random.Random(rng.getrandbits(64)), exact=(k % 2 == 0), gateset=zx_gateset)
            n_in, layers = gen.circuit()
            chk.circuit(n_in, layers, "circuit")
        for _ in range(300 if not thorough else 4000):
            chk.random_zx()
        rep.extra["float_oracle_comparisons"] = chk.float_cmp
    finally:
        drv.close()
    return rep.finish()
