"""C16 — circuits translate to ZX diagrams denoting the same linear map.

discopy 0.3.5 has no evaluator for ZX diagrams (zx spiders carry no array; the only semantic route
is pyzx, whose API changed), so the "standard interpretation" is stated twice, independently:
  * `zx_numpy` below — textbook definition of spiders (sums over computational / Hadamard basis
    states), Hadamard, swap, scalar, composed layer by layer; used by the ORACLE;
  * lean/Model/Gates.lean (`zMat`, `xMat`, `evalZX`) — used by the theorems; the two are compared
    exactly (through recognition in ℤ[ζ₈]/2^e) on every generator and on every generated diagram.
Correspondence: `circuit2zx(c)` (boxes, offsets, phases) against the model's `gate2zx`/`circuit2zx`,
and `.dagger()` of ZX diagrams against the model's.

Numeric TYPES (harness/numtypes.py): scalar data and phases are drawn from every kind of number a user
can pass (Python int/bool/float/complex/Fraction/Decimal, numpy floats / ints / complex of every
width, 0-d arrays, elements of arrays, sympy Integer/Rational/Float/`Rational + I*Rational`), at
exactly representable values (Gaussian dyadic rationals, phases n/8).  Whatever object discopy stores
is read back EXACTLY (`numtypes.exact`), so the numpy oracle and the tokens sent to the Lean model
carry the exact value whatever its type; the model itself has no notion of the Python type.
"""
import itertools
import math
import cmath
import random

import numpy as np

import cyc8
import numtypes
import qgen
from fractions import Fraction
from numtypes import NumGen
from common import Driver, Report, lean_obligations, err_class
from qgen import QGen, build, tok, show, kinds, build_circuit, tok_circuit, show_circuit, eval_io, arity

PROP = "C16"
TOL = 1e-9
F7_KINDS = ("CRz", "CRx", "CU1")


# --------------------------------------------------------------------------- independent ZX semantics

def _basis_state(bit, n):
    v = np.zeros(2 ** n, dtype=complex)
    v[(2 ** n - 1) if bit else 0] = 1
    return v


def _pm_state(minus, n):
    one = np.array([1, -1 if minus else 1], dtype=complex) / math.sqrt(2)
    v = np.ones(1, dtype=complex)
    for _ in range(n):
        v = np.kron(v, one)
    return v


def _y_state(minus, n):
    one = np.array([1, -1j if minus else 1j], dtype=complex) / math.sqrt(2)
    v = np.ones(1, dtype=complex)
    for _ in range(n):
        v = np.kron(v, one)
    return v


def zx_spider(colour, n, m, phase):
    """[input, output] matrix (2^n x 2^m) of a spider with n inputs, m outputs, phase in FULL turns:
    Z = |0..0><0..0| + e^{2 pi i phase} |1..1><1..1|,  X the same over |+>, |->,  Y over |+i>, |-i>
    (the [input, output] matrix of |s..s><s..s| is outer(conj(s^n), s^m))."""
    st = {"z": _basis_state, "x": _pm_state, "y": _y_state}[colour]
    mu = cmath.exp(2j * math.pi * complex(phase))
    return np.outer(st(0, n).conj(), st(0, m)) + mu * np.outer(st(1, n).conj(), st(1, m))


H_IO = np.array([[1, 1], [1, -1]], dtype=complex) / math.sqrt(2)
SWAP_IO = np.array([[1, 0, 0, 0], [0, 0, 1, 0], [0, 1, 0, 0], [0, 0, 0, 1]], dtype=complex)


def zx_box(b):
    """b = ("z"|"x"|"y", n, m, phase) | ("h",) | ("w",) | ("s", value[, exact cyc8 tuple | None])."""
    if b[0] in "zxy":
        return zx_spider(b[0], b[1], b[2], b[3])
    if b[0] == "h":
        return H_IO
    if b[0] == "w":
        return SWAP_IO
    return np.array([[b[1]]], dtype=complex)


def zx_arity(b):
    if b[0] in "zxy":
        return b[1], b[2]
    return {"h": (1, 1), "w": (2, 2), "s": (0, 0)}[b[0]]


def zx_numpy(dom, layers):
    """Standard interpretation of [(box, offset)] on `dom` input wires; returns (matrix, cod)."""
    m, w = np.eye(2 ** dom, dtype=complex), dom
    for b, off in layers:
        d, c = zx_arity(b)
        assert 0 <= off and off + d <= w, (b, off, w)
        m = m @ np.kron(np.kron(np.eye(2 ** off), zx_box(b)), np.eye(2 ** (w - off - d)))
        w = w - d + c
    return m, w


def read_phase(p):
    """The phase a spider stores, whatever its numeric type: an exact Fraction when it is a real
    number (always, for finite floats), a complex when it has an imaginary part, else a float."""
    e = numtypes.exact(p)
    if e is None:
        return float(p)
    return e[0] if e[1] == 0 else complex(float(e[0]), float(e[1]))


def read_scalar(x):
    """("s", complex value, exact cyc8 tuple | None) of the datum a zx.Scalar stores, whatever its
    numeric type."""
    e = numtypes.exact(x)
    if e is None:
        return ("s", complex(x), None)
    return ("s", complex(float(e[0]), float(e[1])), cyc8.from_gaussian(*e))


def read_zx(diagram, types=None):
    """(dom, [(box, offset)]) of a real zx.Diagram; `types` (a dict) collects the stored data types."""
    from discopy.quantum import zx
    out = []
    for b, off in zip(diagram.boxes, diagram.offsets):
        spider = {zx.Z: "z", zx.X: "x", zx.Y: "y"}.get(type(b))
        if spider is not None:
            out.append(((spider, len(b.dom), len(b.cod), read_phase(b.phase)), off))
            if types is not None:
                types["phase:" + numtypes.kind_of(b.phase)] = True
        elif isinstance(b, zx.Had):
            out.append((("h",), off))
        elif isinstance(b, zx.Swap):
            out.append((("w",), off))
        elif isinstance(b, zx.Scalar):
            out.append((read_scalar(b.data), off))
            if types is not None:
                types["scalar:" + numtypes.kind_of(b.data)] = True
        else:
            raise TypeError("unexpected ZX box %r" % (b,))
    return len(diagram.dom), out


def tok_zxbox(b):
    """Driver token of a ZX box, or None if its phase / scalar is not exactly representable."""
    if b[0] == "y":
        return None                      # Y spiders are not in the Lean syntax: oracle only
    if b[0] in "zx":
        if isinstance(b[3], complex):
            return None
        p = b[3] * 8
        if isinstance(p, Fraction):
            if p.denominator != 1:
                return None
        elif abs(p - round(p)) > 1e-12:
            return None
        return "%s %d %d %d" % (b[0], b[1], b[2], int(round(p)) % 8)
    if b[0] in "hw":
        return b[0]
    t = b[2] if len(b) > 2 and b[2] is not None else cyc8.recognise(b[1])
    return None if t is None else "s " + cyc8.scalar_tok(t)


def tok_zx(layers):
    toks = []
    for b, off in layers:
        t = tok_zxbox(b)
        if t is None:
            return None
        toks.append("%s %d" % (t, off))
    return "ok " + " ".join([str(len(layers))] + toks)


def proportional(z, e, tol=TOL):
    """(ok, k): z == k * e for ONE non-zero scalar k (both zero counts as ok)."""
    scale = max(1.0, float(np.max(np.abs(z))), float(np.max(np.abs(e))))
    if float(np.max(np.abs(e))) <= tol * scale:
        return float(np.max(np.abs(z))) <= tol * scale, 1.0
    k = np.vdot(e, z) / np.vdot(e, e)
    return abs(k) > tol and bool(np.all(np.abs(z - k * e) <= tol * scale)), k


# --------------------------------------------------------------------------- corrected decompositions

def fixed_layers(kind, phase):
    """The proposed repair of zx.py:376-384 (see notes/finding_F7.md)."""
    h = phase / 2
    if kind == "CRz":
        return [(("z", 1, 2, 0), 0), (("z", 1, 2, h), 2), (("x", 2, 1, 0), 1), (("z", 1, 0, -h), 1)]
    if kind == "CU1":
        return [(("z", 1, 2, h), 0), (("z", 1, 2, h), 2), (("x", 2, 1, 0), 1), (("z", 1, 0, -h), 1)]
    return [(("z", 1, 2, 0), 0), (("x", 1, 2, h), 2), (("h",), 1), (("z", 2, 1, 0), 1),
            (("x", 1, 0, -h), 1)]


TYPED_P = 0.4                                   # share of scalars / phases given in a non-plain type
FLOATY = [k for k in numtypes.REAL_KINDS if not k.ints and k.circuits and k.prec != "f16"]
FLOATY_ZX = [k for k in numtypes.REAL_KINDS if not k.ints]
NONINT = [k for k in numtypes.KINDS if not k.ints]
EVAL_TOL = {"hi": TOL, "f32": 2e-5, "f16": 2e-2}


def decimal_fraction(x, digits):
    return Fraction(int(round(x * 10 ** digits)), 10 ** digits)


def typed_rot(gen, kind):
    """A rotation whose phase is, with probability TYPED_P, given in a random real numeric type."""
    g = gen.rot(kind)
    rng = gen.rng
    if rng.random() >= TYPED_P:
        return g
    if g[2] is not None:
        _, v = NumGen(rng).phase(g[2], circuits=True)
    else:
        v = rng.choice(FLOATY).make(decimal_fraction(g[3], 6), Fraction(0))
    return ("R", kind, g[2], v)


def typed_scalar(gen):
    """A scalar gate whose datum is, with probability TYPED_P, given in a random numeric type (zero,
    negative, real, imaginary and general values)."""
    rng = gen.rng
    if rng.random() >= TYPED_P:
        return gen.scalar()
    if gen.exact:
        _, v, (re, im) = NumGen(rng).scalar(circuits=True)
        return ("S", cyc8.from_gaussian(re, im), v)
    kind = rng.choice([k for k in NONINT if k.circuits])
    re = decimal_fraction(rng.uniform(-2, 2), 3)
    im = decimal_fraction(rng.uniform(-2, 2), 3) if kind.cplx else Fraction(0)
    return ("S", None, kind.make(re, im))


SQRT_P = 0.35             # share of the scalar boxes that are square-root scalars sqrt(z) (gates.Sqrt)
SUBCLASS_P = 0.06         # share of the kets / bras / rotations / scalars built as a trivial user subclass


def sub(gen, g):
    """`g`, or (rarely) the same gate as an instance of `class My<cls>(<cls>): pass`."""
    return ("U", g) if gen.rng.random() < SUBCLASS_P else g


def zx_gateset(gen, w):
    """Gate classes of the property's quantifier: Ket, Bra, H, X, Y, Z, CX, CZ, Rx, Rz, CRz, CRx, CU1,
    SWAP, scalar — and their daggers; phases and scalar data in every numeric type.  Every way the
    library offers to get a box of one of these classes: `sqrt(z)` (gates.Sqrt SUBCLASSES gates.Scalar),
    `Controlled(X)` (what CX is), and trivial user subclasses."""
    rng = gen.rng
    opts = ["scalar"]
    if w >= 1:
        opts += ["n1", "n1", "r1", "r1", "bra"]
    if w >= 2:
        opts += ["n2", "r2", "r2", "swap"]
    if w < gen.max_wires:
        opts += ["ket"] * (3 if w == 0 else 1)
    o = rng.choice(opts)
    if o == "n1":
        g = ("N", rng.choice(("H", "X", "Y", "Z")))
    elif o == "r1":
        g = typed_rot(gen, rng.choice(("Rx", "Rz")))
        if rng.random() < SUBCLASS_P:
            return ("U", g)
    elif o == "n2":
        g = ("N", rng.choice(("CX", "CZ"))) if rng.random() < 0.85 else ("C", ("N", "X"))
    elif o == "r2":
        g = typed_rot(gen, rng.choice(F7_KINDS))
        if rng.random() < SUBCLASS_P:
            return ("U", g)
    elif o == "swap":
        g = ("W",)
    elif o == "ket":
        return sub(gen, ("K", gen.bits(rng.randint(1, min(2, gen.max_wires - w)))))
    elif o == "bra":
        return sub(gen, ("B", gen.bits(rng.randint(1, min(2, w)))))
    else:
        g = gen.sqrt_box() if rng.random() < SQRT_P else typed_scalar(gen)
        if rng.random() < SUBCLASS_P:
            return ("U", g)
        return ("D", g) if rng.random() < 0.25 else g
    if rng.random() < 0.25:
        g = ("D", g)
    return g


def exact_desc(g):
    k = g[0]
    if k == "R":
        return g[2] is not None and g[2] % 2 == 0
    if k in "DCU":
        return exact_desc(g[1])
    if k == "S":
        return g[1] is not None
    if k == "Z":
        return g[1] is not None and g[2] is not None
    return True


def f7_gate(g):
    g = qgen.norm(g)
    if g[0] == "U":
        g = g[1]
    return g[0] == "R" and g[1] in F7_KINDS


def desc_values(g):
    """[(role, value)] of the numbers a gate descriptor carries."""
    k = g[0]
    if k in "DCU":
        return desc_values(g[1])
    if k == "R":
        return [("phase", g[3])]
    if k == "S":
        return [("scalar", g[2])]
    if k == "Z":
        return [("sqrt-data", g[3])]
    return []


def value_prec(v):
    dt = getattr(v, "dtype", None)
    if dt is None:
        return "hi"
    if dt == np.float16:
        return "f16"
    return "f32" if dt in (np.float32, np.complex64) else "hi"


def worst_prec(values):
    precs = {value_prec(v) for v in values}
    return "f16" if "f16" in precs else "f32" if "f32" in precs else "hi"


def plain(g):
    """The descriptor with every number turned into a Python float / complex (for the textbook
    matrices of qgen.std_io, which know nothing of numeric types)."""
    k = g[0]
    if k in "DCU":
        return (k, plain(g[1]))
    if k == "R":
        return ("R", g[1], g[2], numtypes.to_complex(g[3]).real)
    if k == "S":
        return ("S", g[1], numtypes.to_complex(g[2]))
    if k == "Z":
        return ("Z", g[1], g[2], numtypes.to_complex(g[3]))
    return g


def integer_phase(v):
    e = numtypes.exact(v)
    return e is not None and e[1] == 0 and e[0].denominator == 1


# --------------------------------------------------------------------------- ZX diagram descriptors
# zxd = (start, layers): start = ("id", w) | ("c2zx", n_in, circuit layers);
# layers = [(box, offset)], box = ("z"|"x"|"y", n, m, phase object) | ("h",) | ("w",) | ("s", datum object)

def build_zxbox(b):
    from discopy.quantum import zx
    if b[0] in "zxy":
        return {"z": zx.Z, "x": zx.X, "y": zx.Y}[b[0]](b[1], b[2], b[3])
    if b[0] == "h":
        return zx.Had()
    if b[0] == "w":
        return zx.SWAP
    return zx.scalar(b[1])


def show_zxbox(b):
    if b[0] in "zxy":
        return "%s(%d, %d, %s)" % (b[0].upper(), b[1], b[2], numtypes.show(b[3]))
    if b[0] == "h":
        return "H"
    if b[0] == "w":
        return "SWAP"
    return "scalar(%s)" % numtypes.show(b[1])


def desc_arity(b):
    if b[0] in "zxy":
        return b[1], b[2]
    return {"h": (1, 1), "w": (2, 2), "s": (0, 0)}[b[0]]


def build_zx(zxd):
    from discopy.quantum import zx
    start, layers = zxd
    if start[0] == "id":
        d = zx.Id(start[1])
    else:
        d = zx.circuit2zx(build_circuit(start[1], start[2]))
    w = len(d.cod)
    for b, off in layers:
        box = build_zxbox(b)
        d = d >> zx.Id(off) @ box @ zx.Id(w - off - len(box.dom))
        w = len(d.cod)
    return d


def show_zx(zxd):
    start, layers = zxd
    head = "Id(%d)" % start[1] if start[0] == "id" else "circuit2zx(%s)" % show_circuit(start[1], start[2])
    w = start[1] if start[0] == "id" else start[1] + sum(
        arity(g)[1] - arity(g)[0] for _, g, _ in start[2])
    out = [head]
    for b, off in layers:
        dm, cd = desc_arity(b)
        out.append("Id(%d) @ %s @ Id(%d)" % (off, show_zxbox(b), w - off - dm))
        w = w - dm + cd
    return " >> ".join(out)


# --------------------------------------------------------------------------- shapes of circuits

def base(g):
    """The descriptor without `.dagger()` / subclass wrappers."""
    while g[0] in "DU":
        g = g[1]
    return g


def phase_colour(g):
    """"z" / "x" if the gate translates to ONE 1 -> 1 phase spider of that colour (Rz, Rx, Z, X), else None."""
    b = base(g)
    if b[0] == "R" and b[1] in ("Rz", "Rx"):
        return b[1][1]
    if b[0] == "N" and b[1] in ("Z", "X"):
        return b[1].lower()
    return None


def shape_tags(layers):
    """Where the states and effects of a circuit are: `states_first_effects_last` (Ket >> gates >> Bra, the
    usual shape) or `state_or_effect_mid_circuit`; and whether a wire that carries a phase gate is
    RE-INDEXED by a later Ket / Bra to its left and then gets another phase gate (of the same colour, with
    nothing in between on that wire: `same_colour_phase_gates_across_reindexing`)."""
    tags = []
    ks = [base(g)[0] for _, g, _ in layers]
    if not any(k in "KB" for k in ks):
        return ["no_state_or_effect"] if layers else []
    body = [k for k in ks if k not in "SZ"]
    i = 0
    while i < len(body) and body[i] == "K":
        i += 1
    j = len(body)
    while j > i and body[j - 1] == "B":
        j -= 1
    mid = any(k in "KB" for k in body[i:j])
    tags.append("state_or_effect_mid_circuit" if mid else "states_first_effects_last")
    # wires tracked by identity: each wire remembers the colour of the last phase gate that was the LAST
    # box on it, and whether its index has changed since
    wires = []                                   # [colour | None, reindexed?]
    n_in = layers[0][0] + qgen.arity(layers[0][1])[0] + layers[0][2]
    wires = [[None, False] for _ in range(n_in)]
    across = across_same = 0
    for l, g, _ in layers:
        d, c = qgen.arity(g)
        col = phase_colour(g)
        if col is not None:
            w = wires[l]
            if w[0] is not None and w[1]:
                across += 1
                across_same += w[0] == col
            wires[l] = [col, False]
            continue
        if c != d:
            for w in wires[l + d:]:
                w[1] = True
        wires[l:l + d] = [[None, False] for _ in range(c)]
    if across:
        tags.append("phase_gates_across_reindexing")
    if across_same:
        tags.append("same_colour_phase_gates_across_reindexing")
    return tags


def interleaved(gen, reindex_only=False):
    """(n_in, layers): rounds of 1 -> 1 phase gates (Rz / Rx / Z / X, typed phases, daggers) on most wires,
    separated by Kets and Bras (1-2 bits, any offset: to the left of, between, to the right of the rotated
    wires) and now and then another gate — states and effects at EVERY depth, so that wires carrying
    rotations change their index between two rotations."""
    rng = gen.rng
    w = n_in = rng.randint(1, 4)
    layers = []
    rounds = rng.randint(2, 5)
    for rnd in range(rounds):
        common = rng.choice("zx") if rng.random() < 0.5 else None
        for i in range(w):
            if rng.random() < 0.75:
                col = common or rng.choice("zx")
                r = rng.random()
                if r < 0.8:
                    g = typed_rot(gen, "R" + col)
                    if rng.random() < 0.15:
                        g = ("D", g)
                    elif rng.random() < SUBCLASS_P:
                        g = ("U", g)
                else:
                    g = ("N", col.upper())
                layers.append((i, g, w - i - 1))
        if rnd == rounds - 1:
            break
        for _ in range(1 if rng.random() < 0.75 else 2):
            opts = []
            if w >= 1:
                opts += ["bra", "bra"]
            if w < gen.max_wires:
                opts += ["ket", "ket"]
            if not reindex_only:
                opts += ["gate"]
            o = rng.choice(opts)
            if o == "bra":
                k = rng.randint(1, min(2, w))
                off = rng.randint(0, w - k) if rng.random() < 0.6 else 0
                layers.append((off, ("B", gen.bits(k)), w - off - k))
                w -= k
            elif o == "ket":
                k = rng.randint(1, min(2, gen.max_wires - w))
                off = rng.randint(0, w) if rng.random() < 0.6 else 0
                layers.append((off, ("K", gen.bits(k)), w - off))
                w += k
            else:
                g = zx_gateset(gen, w)
                while base(g)[0] in "KB":
                    g = zx_gateset(gen, w)
                d, c = arity(g)
                off = rng.randint(0, w - d)
                layers.append((off, g, w - off - d))
    if not layers:
        layers.append((0, ("K", gen.bits(1)), w))
    return n_in, layers


# --------------------------------------------------------------------------- local patterns of consecutive gates
# What a peephole optimiser looks at: short runs of gates on the same wires.  circuit2zx is a functor: it
# translates box by box, whatever the neighbours are (theorem circuit2zx_sound is an induction over the box
# list), so any rewriting of a local pattern that is not an identity of linear maps shows as a disagreement
# with the model AND as a non-proportional diagram.

PATTERN_G2 = (("N", "CX"), ("N", "CZ"), ("W",), ("C", ("N", "X")), "CRz", "CRx", "CU1")
PATTERN_G1 = (("N", "H"), ("N", "X"), ("N", "Y"), ("N", "Z"), "Rx", "Rz")
PATTERNS = ("swap_conjugated", "swap_conjugated_separated", "swap_conjugated_shifted", "gate_inverse",
            "repeated", "h_conjugated", "hh_conjugated_2q", "h_on_target", "cx_cx", "three_cx_swap",
            "gate_through_control", "swap_moves_gate", "double_swap", "ket_gate_bra", "inverse_across_swap")


def pattern_gate(gen, g, dagger_p=0.25):
    """A gate of the pattern tables: a descriptor, or the name of a rotation class (phase drawn here)."""
    if isinstance(g, str):
        g = typed_rot(gen, g)
    return ("D", g) if gen.rng.random() < dagger_p else g


def near_phase(gen, g):
    """The same rotation at another phase (for runs of rotations about one axis)."""
    b = base(g)
    return typed_rot(gen, b[1]) if b[0] == "R" else g


def pattern_layers(gen, name, k):
    """(width, [(offset, descriptor)]) of one local pattern; `k` rotates through the gate tables so that
    EVERY two-qubit (one-qubit) gate of the set takes the central place in turn."""
    rng = gen.rng
    g2 = pattern_gate(gen, PATTERN_G2[k % len(PATTERN_G2)])
    g1 = pattern_gate(gen, PATTERN_G1[k % len(PATTERN_G1)])
    W, H = ("W",), ("N", "H")
    if name == "swap_conjugated":                       # SWAP >> G >> SWAP at one offset (rewire(G, 1, 0))
        return 2, [(0, W), (0, g2), (0, W)]
    if name == "swap_conjugated_separated":             # the same with boxes that touch no wire of it between
        sep = [(2, pattern_gate(gen, rng.choice(PATTERN_G1)))] if rng.random() < 0.6 else \
            [(rng.randint(0, 3), gen.scalar())]
        sep2 = [(2, pattern_gate(gen, rng.choice(PATTERN_G1)))] if rng.random() < 0.5 else []
        return 3, [(0, W)] + sep + [(0, g2)] + sep2 + [(0, W)]
    if name == "swap_conjugated_shifted":               # swaps and gate NOT at the same offset: not a conjugation
        a, b, c = rng.choice([(0, 1, 0), (1, 0, 1), (0, 0, 1), (1, 0, 0), (0, 1, 1)])
        return 3, [(a, W), (b, g2), (c, W)]
    if name == "gate_inverse":                          # G >> G.dagger() and G.dagger() >> G
        g = g2 if k % 2 else g1
        pair = [g, ("D", g)]
        if rng.random() < 0.5:
            pair.reverse()
        return arity(g)[0], [(0, pair[0]), (0, pair[1])]
    if name == "repeated":                              # G >> G (>> G): involutions, phases that add up
        g = g2 if k % 2 else g1
        run = [g, near_phase(gen, g) if rng.random() < 0.5 else g]
        if rng.random() < 0.4:
            run.append(near_phase(gen, g) if rng.random() < 0.5 else g)
        return arity(g)[0], [(0, x) for x in run]
    if name == "h_conjugated":                          # H >> G >> H: colour change (H X H = Z, H Rz H = Rx)
        return 1, [(0, H), (0, g1), (0, H)]
    if name == "hh_conjugated_2q":                      # H @ H >> G >> H @ H (reverses a CX)
        return 2, [(0, H), (1, H), (0, g2), (0, H), (1, H)]
    if name == "h_on_target":                           # Id @ H >> G >> Id @ H (CX <-> CZ), or on the control
        w = rng.randint(0, 1)
        return 2, [(w, H), (0, g2), (w, H)]
    if name == "cx_cx":                                 # two controlled gates in a row, same or opposite direction
        other = pattern_gate(gen, rng.choice(PATTERN_G2))
        if rng.random() < 0.5:
            return 2, [(0, g2), (0, other)]
        return 2, [(0, g2), (0, W), (0, other), (0, W)]
    if name == "three_cx_swap":                         # CX, reversed CX, CX (= SWAP)
        cx = ("N", "CX") if k % 2 else g2
        return 2, [(0, cx), (0, W), (0, cx), (0, W), (0, cx)]
    if name == "gate_through_control":                  # G1 @ Id >> G >> G1.dagger() @ Id (commutation rules)
        w = rng.randint(0, 1)
        return 2, [(w, g1), (0, g2), (w, ("D", g1) if rng.random() < 0.7 else g1)]
    if name == "swap_moves_gate":                       # SWAP >> G1 @ Id >> SWAP = Id @ G1
        w = rng.randint(0, 1)
        return 2, [(0, W), (w, g1), (0, W)]
    if name == "double_swap":                           # SWAP >> SWAP, also around nothing but a scalar
        mid = [(rng.randint(0, 2), gen.scalar())] if rng.random() < 0.5 else []
        return 2, [(0, W)] + mid + [(0, W)] + ([(0, g2)] if rng.random() < 0.5 else [])
    if name == "ket_gate_bra":                          # state, gate(s), effect right behind each other
        g = g2 if k % 2 else g1
        n = arity(g)[0]
        return 0, [(0, ("K", gen.bits(n))), (0, g)] + ([(0, ("D", g))] if rng.random() < 0.3 else []) + \
            [(0, ("B", gen.bits(n)))]
    if name == "inverse_across_swap":                   # G1 @ Id >> SWAP >> Id @ G1.dagger()
        return 2, [(0, g1), (0, W), (1, ("D", g1)), (0, W)]
    raise KeyError(name)


def width_keeping_layers(gen, w, n):
    """n random layers of the gate set on w wires, none of which adds or removes a wire."""
    out = []
    for _ in range(n):
        g = gen.pick(w)
        while base(g)[0] in "KB":
            g = gen.pick(w)
        d, _ = arity(g)
        off = gen.rng.randint(0, w - d)
        out.append((off, g, w - off - d))
    return out


def pattern_circuit(gen, name, k):
    """(n_in, layers): the pattern at a random offset of a circuit of up to 4 wires, behind a few random
    gates and before a few more (half of the cases: the bare pattern on its own wires)."""
    rng = gen.rng
    pw, items = pattern_layers(gen, name, k)
    kets = name == "ket_gate_bra"
    inner = max([pw] + [off + arity(g)[0] for off, g in items]) if not kets else 0
    bare = k % 2 == 0
    left = 0 if bare else rng.randint(0, max(0, 4 - max(inner, 2)))
    right = 0 if bare else rng.randint(0, max(0, 4 - max(inner, 2) - left))
    w = n_in = left + inner + right
    layers = []

    def noise(n):
        layers.extend(width_keeping_layers(gen, w, n))
    if not bare:
        noise(rng.randint(0, 2))
    for off, g in items:
        d, c = arity(g)
        layers.append((left + off, g, w - left - off - d))
        w += c - d
    if not bare:
        noise(rng.randint(0, 2))
    return n_in, layers


# --------------------------------------------------------------------------- helper constructors
# hx = ("circ", n_in, layers) | ("id", n) | ("cups", n) | ("caps", n) | ("swap", a, b) | ("perm", [..])
#    | ("dagger", hx) | ("transpose", hx, left) | ("tensor", [hx..]) | ("then", [hx..])

MAX_WIDTH = 7


def hx_build(e):
    from discopy.quantum import qubit, Id
    from discopy.quantum.circuit import Circuit
    k = e[0]
    if k == "circ":
        return build_circuit(e[1], e[2])
    if k == "id":
        return Id(e[1])
    if k == "cups":
        return Circuit.cups(qubit ** e[1], qubit ** e[1])
    if k == "caps":
        return Circuit.caps(qubit ** e[1], qubit ** e[1])
    if k == "swap":
        return Circuit.swap(qubit ** e[1], qubit ** e[2])
    if k == "perm":
        return Circuit.permutation(list(e[1]))
    if k == "dagger":
        return hx_build(e[1]).dagger()
    if k == "transpose":
        return hx_build(e[1]).transpose(left=e[2])
    if k == "rewire":
        from discopy.quantum import gates
        if e[4] is None:
            return gates.rewire(qgen.build(e[1]), e[2], e[3])
        return gates.rewire(qgen.build(e[1]), e[2], e[3], dom=qubit ** e[4])
    if k == "tensor":
        out = Id(0)
        for x in e[1]:
            out = out @ hx_build(x)
        return out
    out = hx_build(e[1][0])
    for x in e[1][1:]:
        out = out >> hx_build(x)
    return out


def hx_show(e):
    k = e[0]
    if k == "circ":
        return "(" + show_circuit(e[1], e[2]) + ")"
    if k == "id":
        return "Id(%d)" % e[1]
    if k in ("cups", "caps"):
        return "Circuit.%s(qubit ** %d, qubit ** %d)" % (k, e[1], e[1])
    if k == "swap":
        return "Circuit.swap(qubit ** %d, qubit ** %d)" % (e[1], e[2])
    if k == "perm":
        return "Circuit.permutation(%s)" % (list(e[1]),)
    if k == "dagger":
        return hx_show(e[1]) + ".dagger()"
    if k == "transpose":
        return hx_show(e[1]) + ".transpose(left=%s)" % e[2]
    if k == "rewire":
        return "rewire(%s, %d, %d%s)" % (qgen.show(e[1]), e[2], e[3],
                                         "" if e[4] is None else ", dom=qubit ** %d" % e[4])
    return "(" + (" @ " if k == "tensor" else " >> ").join(hx_show(x) for x in e[1]) + ")"


def hx_arity(e):
    k = e[0]
    if k == "circ":
        return e[1], e[1] + sum(arity(g)[1] - arity(g)[0] for _, g, _ in e[2])
    if k == "id":
        return e[1], e[1]
    if k == "cups":
        return 2 * e[1], 0
    if k == "caps":
        return 0, 2 * e[1]
    if k == "swap":
        return e[1] + e[2], e[1] + e[2]
    if k == "perm":
        return len(e[1]), len(e[1])
    if k in ("dagger", "transpose"):
        d, c = hx_arity(e[1])
        return c, d
    if k == "rewire":
        n = max(e[2], e[3]) + 1 if e[4] is None else e[4]
        return n, n
    if k == "tensor":
        ar = [hx_arity(x) for x in e[1]]
        return sum(a for a, _ in ar), sum(b for _, b in ar)
    return hx_arity(e[1][0])[0], hx_arity(e[1][-1])[1]


def hx_ops(e):
    k = e[0]
    if k in ("dagger", "transpose"):
        return {k if k == "dagger" else "transpose(left=%s)" % e[2]} | hx_ops(e[1])
    if k in ("tensor", "then"):
        return set().union(*[hx_ops(x) for x in e[1]]) if e[1] else set()
    return {k} if k != "id" else set()        # ("rewire" included)


def max_width(c):
    w = m = len(c.dom)
    for b in c.boxes:
        w += len(b.cod) - len(b.dom)
        m = max(m, w)
    return m


def read_box(b):
    """Descriptor of a box of a real circuit (library classes only, matched exactly), or None."""
    from discopy.quantum import gates
    from discopy.quantum.circuit import Swap
    t = type(b)
    if t in qgen._SUBCLASSES.values():               # class My<cls>(<cls>): pass
        t = t.__mro__[1]
        inner = read_box_as(b, t)
        return None if inner is None else ("U", inner)
    return read_box_as(b, t)


def read_box_as(b, t):
    from discopy.quantum import gates
    from discopy.quantum.circuit import Swap
    if t is Swap:
        return ("W",)
    if t is gates.Ket:
        return ("K", tuple(int(x) for x in b.bitstring))
    if t is gates.Bra:
        return ("B", tuple(int(x) for x in b.bitstring))
    if t is gates.Sqrt:
        e = numtypes.exact(b.data)
        zt = cyc8.from_gaussian(*e) if e is not None else None
        if zt is None:
            zt = cyc8.recognise(complex(b.data))
        rt = cyc8.recognise(cmath.sqrt(complex(b.data)))
        return ("Z", zt, rt, b.data)
    if t is gates.Scalar:
        if b.is_mixed:
            return None
        e = numtypes.exact(b.data)
        zt = cyc8.from_gaussian(*e) if e is not None else None
        if zt is None:
            zt = cyc8.recognise(complex(b.data))
        return ("S", zt, b.data)
    if t in (gates.Rx, gates.Rz, gates.Ry, gates.CRz, gates.CRx, gates.CU1):
        e = numtypes.exact(b.phase)
        n = None
        if e is not None and e[1] == 0 and (e[0] * 8).denominator == 1:
            n = int(e[0] * 8)
        return ("R", t.__name__, n, b.phase)
    if t is gates.Controlled:
        inner = read_box(b.controlled)
        return None if inner is None or inner[0] == "U" else ("C", inner)
    if t is gates.QuantumGate and b.name in qgen.NAMED1 + ("CZ",):
        return ("D", ("N", b.name)) if b._dagger else ("N", b.name)
    return None


def read_circuit(c):
    """[(left, descriptor, right)] of a real circuit, or None if a box is of no known class."""
    w, out = len(c.dom), []
    for b, off in zip(c.boxes, c.offsets):
        g = read_box(b)
        if g is None:
            return None
        out.append((off, g, w - off - len(b.dom)))
        w += len(b.cod) - len(b.dom)
    return out


def random_hx(rng, exact):
    """A random expression over the helper constructors: 1-3 columns, each a tensor of cups / caps / swaps /
    permutations / small random circuits / identities and (nested once or twice) their daggers and
    left / right transposes, composed where the numbers of wires allow."""
    def small_circuit():
        gen = QGen(random.Random(rng.getrandbits(64)), exact=exact, gateset=zx_gateset, max_wires=3)
        return gen.circuit(n_in=rng.randint(0, 2), depth=rng.randint(1, 3))

    def free(depth):
        o = rng.choice(["circ", "circ", "cups", "caps", "swap", "perm"] + (["dagger", "transpose", "transpose"]
                                                                         if depth else []))
        if o == "circ":
            n_in, layers = small_circuit()
            return ("circ", n_in, layers)
        if o in ("cups", "caps"):
            return (o, 1 if rng.random() < 0.7 else 2)
        if o == "swap":
            return ("swap", rng.randint(1, 2), 1)
        if o == "perm":
            perm = list(range(rng.randint(2, 3)))
            rng.shuffle(perm)
            return ("perm", perm)
        if o == "dagger":
            return ("dagger", free(depth - 1))
        return ("transpose", free(depth - 1), rng.random() < 0.5)

    def column(w):
        parts, rem, out = [], w, 0
        for _ in range(8):
            if rem == 0 and parts and rng.random() < 0.75:
                break
            e = free(2)
            d, c = hx_arity(e)
            if d <= rem and out + c + (rem - d) <= 5 and d + c <= 5:
                parts.append(e)
                rem, out = rem - d, out + c
            elif rem > 0:
                parts.append(("id", 1))
                rem, out = rem - 1, out + 1
        if rem:
            parts.append(("id", rem))
        return ("tensor", parts) if len(parts) != 1 else parts[0]

    w = rng.randint(0, 3)
    cols = []
    for _ in range(rng.randint(1, 3)):
        col = column(w)
        cols.append(col)
        w = hx_arity(col)[1]
    return ("then", cols) if len(cols) > 1 else cols[0]


class LibError(Exception):
    """An exception raised by discopy (or by reading what it returned) at a named stage."""

    def __init__(self, stage, exc):
        Exception.__init__(self, "%s: %s: %s" % (stage, type(exc).__name__, exc))
        self.stage, self.exc = stage, exc


class Check:
    def __init__(self, rep, drv, rng):
        self.rep, self.drv, self.rng = rep, drv, rng
        self.switches = drv.ask("switches")
        self.f7 = "1" if "f7=1" in self.switches else "0"
        self.float_cmp = 0

    def lib(self, stage, fn, *args):
        try:
            return fn(*args)
        except Exception as exc:  # noqa: reported with the input by the caller
            raise LibError(stage, exc)

    def guarded(self, case, fn, *args):
        """Run one case; an unexpected exception of the library is a failure WITH the input."""
        try:
            fn(*args)
        except LibError as le:
            self.rep.fail("unexpected_exception:%s:%s" % (le.stage, err_class(le.exc)), case,
                          "discopy raised %s" % le)

    def note_types(self, types):
        for t in sorted(types):
            self.rep.count("stored:" + t)

    # ---- model semantics vs textbook semantics, generator by generator

    def generators(self, max_legs):
        rep = self.rep
        for colour in "zx":
            for n, m in itertools.product(range(max_legs + 1), repeat=2):
                for p in range(8):
                    b = (colour, n, m, p / 8.0)
                    model = self.drv.ask("zxmat " + tok_zxbox(b))
                    real = cyc8.recognise_matrix(zx_box(b), 2 ** n, 2 ** m)
                    rep.case("gen|%s" % (b,), True)
                    rep.count("zx_generator_semantics_checked")
                    if real != model:
                        rep.disagree("zxmat", dict(box=b), real, model)
        for b in (("h",), ("w",), ("s", 0.5j)):
            model = self.drv.ask("zxmat " + tok_zxbox(b))
            d, c = zx_arity(b)
            real = cyc8.recognise_matrix(zx_box(b), 2 ** d, 2 ** c)
            rep.case("gen|%s" % (b,), True)
            if real != model:
                rep.disagree("zxmat", dict(box=b), real, model)

    # ---- one circuit (a single gate is a circuit of one layer)

    def circuit(self, n_in, layers, stream):
        case = dict(circuit=show_circuit(n_in, layers), stream=stream)
        self.guarded(case, self._circuit, n_in, layers, stream, case)

    def helper(self, expr, stream):
        """A circuit built with the library's helper constructors (cups, caps, swaps, permutations,
        transposes, daggers of whole circuits): the circuit handed to circuit2zx is whatever the helper
        returns; for the model it is read back box by box (`read_circuit`)."""
        case = dict(circuit=hx_show(expr), stream=stream)
        self.guarded(case, self._helper, expr, stream, case)

    def _helper(self, expr, stream, case):
        rep = self.rep
        c = self.lib("build-circuit", hx_build, expr)
        for name in sorted(hx_ops(expr)):
            rep.count("helper:" + name)
        if max_width(c) > MAX_WIDTH:
            rep.count("helper:skipped_too_wide")
            return
        layers = self.lib("read-circuit", read_circuit, c)
        if layers is None:
            rep.count("helper:unreadable_oracle_only")
        else:
            same = self.lib("rebuild-circuit", lambda: build_circuit(len(c.dom), layers) == c)
            if not same:
                rep.count("helper:readback_differs_oracle_only")
                layers = None
        case["boxes"] = str(c)[:600]
        self._circuit(len(c.dom), layers, stream, case, c=c)

    def _circuit(self, n_in, layers, stream, case, c=None):
        """`layers` = descriptors of the circuit's boxes (None: unknown — oracle only, nothing is demanded
        if circuit2zx refuses); `c` = the circuit itself when it was not built from `layers`."""
        from discopy.quantum import zx
        rep = self.rep
        c_built = c is None
        if c is None:
            c = self.lib("build-circuit", build_circuit, n_in, layers)
        known = layers is not None
        layers = layers or []
        exact = known and all(exact_desc(g) for _, g, _ in layers)
        allk = [k for _, g, _ in layers for k in kinds(g)]
        for k in set(allk):
            rep.count("has:" + k)
        values = [rv for _, g, _ in layers for rv in desc_values(g)]
        for role, v in values:
            rep.count("given:%s:%s" % (role, numtypes.kind_of(v)))
        for tag in shape_tags(layers):
            rep.count("shape:" + tag)
        prec = worst_prec([v for _, v in values])
        nontrivial = any(not (g[0] == "R" and integer_phase(g[3])) and g[0] != "S" for _, g, _ in layers) \
            or any(type(v) not in (int, float, complex) for _, v in values) or not known
        rep.case(stream + "|" + case["circuit"], nontrivial)
        rep.sample(case)
        try:
            d = zx.circuit2zx(c)
            real_err = None
        except KeyError as exc:
            d, real_err, self.last_exc = None, "err index", "KeyError: %s" % (exc,)
        except Exception as exc:
            d, real_err, self.last_exc = None, "err " + err_class(exc), "%s: %s" % (type(exc).__name__, exc)
        types = {}
        zl = None
        if d is not None:
            dom, zl = self.lib("read-zx", read_zx, d, types)
            self.note_types(types)
        if exact:
            model = self.drv.ask("c2zx %s %s" % (self.f7, tok_circuit(layers)))
            real = real_err if d is None else (tok_zx(zl) or "unrepresentable")
            rep.count("exact_structure_comparisons")
            if real != model:
                rep.disagree("c2zx", case, real[:400], model[:400])
        if d is None:
            rep.count("unsupported")
            if known and all(self.supported(g) for _, g, _ in layers):
                rep.fail("circuit2zx_raises:" + real_err + (":user-subclass" if "user-subclass" in allk else ""),
                         case, "pure circuit over the supported gate set (%s) but circuit2zx raised %s" % (
                             ", ".join(sorted(set(allk))), self.last_exc))
            return
        try:
            e = eval_io(c)
        except Exception:  # noqa: the circuit's own evaluation is not this property's subject
            if not known:
                rep.count("eval_unavailable_unreadable_skipped")
                return
            rep.count("eval_unavailable_textbook_used")
            e = qgen.product_io(n_in, [(l, plain(g), r) for l, g, r in layers], qgen.std_io)
        # arity
        if dom != len(c.dom) or len(d.cod) != len(c.cod):
            rep.fail("circuit2zx_arity", case, "ZX diagram has %d -> %d wires, circuit %d -> %d" % (
                dom, len(d.cod), len(c.dom), len(c.cod)))
            return
        z, cod = self.lib("zx-semantics", zx_numpy, dom, zl)
        if exact:
            t = tok_zx(zl)
            if t is not None:
                self.compare_semantics(z, dom, cod, t, case)
        # oracle: proportional to the circuit's evaluation with ONE non-zero scalar
        ok, k = proportional(z, e, EVAL_TOL[prec])
        self.float_cmp += 1
        if prec != "hi":
            rep.count("proportionality_at_%s_tolerance" % prec)
        if not ok:
            boxwise = None
            if known:
                try:
                    # the translation of every box ON ITS OWN by the library, put side by side: a functor's image
                    boxwise = [(b, o + l) for l, g, _ in layers
                               for b, o in read_zx(zx.circuit2zx(build(g)))[1]]
                    okb, _ = proportional(zx_numpy(dom, boxwise)[0], e, EVAL_TOL[prec])
                except Exception:  # noqa: diagnosis only
                    okb = False
            if known and okb and boxwise != zl:
                if c_built:
                    case["shrunk"] = self.shrink(n_in, layers, EVAL_TOL[prec])
                rep.fail("circuit2zx_not_proportional:not_the_boxwise_translation", case,
                         "ZX diagram does not denote the evaluation up to a non-zero scalar, although the "
                         "translations of its boxes one by one, composed, do: the circuit was not translated "
                         "box by box (a pattern of neighbouring gates was rewritten)")
            elif any(f7_gate(g) for _, g, _ in layers):
                zl2 = self.lib("repaired", self.repaired_layers, layers)
                z2, _ = zx_numpy(dom, zl2)
                ok2, _ = proportional(z2, e, EVAL_TOL[prec])
                if ok2:
                    rep.fail("circuit2zx_not_proportional:CRz|CRx|CU1", case,
                             "not proportional to the evaluation; proportional once the decompositions "
                             "of CRz/CRx/CU1 are replaced by the corrected ones")
                else:
                    rep.fail("circuit2zx_not_proportional", case, "also with corrected CRz/CRx/CU1")
            else:
                if known and c_built:
                    case["shrunk"] = self.shrink(n_in, layers, EVAL_TOL[prec])
                rep.fail("circuit2zx_not_proportional", case,
                         "ZX diagram does not denote the evaluation up to a non-zero scalar")
        # oracle: dagger of the ZX diagram denotes the conjugate transpose
        self.zx_dagger(d, zl, z, case, exact)

    def shrink(self, n_in, layers, tol):
        """A smaller failing input (diagnosis only, runs after a failure): drop layers that keep the number
        of wires, one at a time, as long as the translation stays non-proportional to the evaluation."""
        from discopy.quantum import zx

        def fails(ls):
            try:
                c = build_circuit(n_in, ls)
                dom, zl = read_zx(zx.circuit2zx(c))
                return not proportional(zx_numpy(dom, zl)[0], eval_io(c), tol)[0]
            except Exception:  # noqa: only failures of the same kind are kept
                return False
        ls, i = list(layers), 0
        while i < len(ls) and len(ls) > 1:
            d, c = arity(ls[i][1])
            if d == c and fails(ls[:i] + ls[i + 1:]):
                del ls[i]
            else:
                i += 1
        return show_circuit(n_in, ls)

    def compare_semantics(self, z, dom, cod, t, case):
        """Model's interpretation of the diagram (tokens `t`) against the textbook one (`z`): exactly,
        through recognition of the numpy entries in Z[zeta_8]/2^e; where an entry lies outside the
        recogniser's range (products of several large scalars: numerators beyond cyc8.UMAX) the model's
        exact entries are compared with the numpy ones at relative 1e-9 instead (counted)."""
        rep = self.rep
        m = self.drv.ask("zxeval %d %s" % (dom, t[3:]))
        r = cyc8.recognise_matrix(z, 2 ** dom, 2 ** cod)
        rep.count("exact_semantics_comparisons")
        if r == m:
            return
        if m.startswith("ok "):
            mm = cyc8.parse_matrix(m)
            scale = max(1.0, float(np.max(np.abs(z))) if z.size else 1.0)
            if mm.size == z.size and bool(np.all(np.abs(mm.reshape(z.shape) - z) <= TOL * scale)):
                rep.count("semantics_compared_numerically_beyond_recogniser_range")
                return
        rep.disagree("zxeval", case, (r or "unrepresentable")[:300], m[:300])

    def supported(self, g):
        """The property's gate set: Ket, Bra, H, X, Y, Z, CX, CZ, Rx, Rz, CRz, CRx, CU1, SWAP, scalar and
        their daggers — every box that IS an instance of one of these classes: `sqrt(z)` (gates.Sqrt is a
        subclass of gates.Scalar), `Controlled(X)` (= CX), instances of user subclasses."""
        g = qgen.norm(g)
        k = g[0]
        if k == "U":
            return self.supported(g[1])
        if k == "N":
            return g[1] in ("H", "X", "Y", "Z", "CX", "CZ")
        if k == "D":
            return g[1] == ("N", "Y")
        if k == "C":
            return g[1] == ("N", "X")
        if k == "R":
            return g[1] in ("Rx", "Rz") + F7_KINDS
        return k in "KBWSZ"

    def repaired_layers(self, layers):
        """circuit2zx with the real gate2zx for every gate except CRz/CRx/CU1, which get the
        corrected decomposition."""
        from discopy.quantum import zx
        out = []
        for l, g, _ in layers:
            n = qgen.norm(g)
            if n[0] == "R" and n[1] in F7_KINDS:
                sub = fixed_layers(n[1], numtypes.to_complex(n[3]).real)
            elif n[0] == "U" and n[1][0] == "R" and n[1][1] in F7_KINDS:
                sub = fixed_layers(n[1][1], numtypes.to_complex(n[1][3]).real)
            else:
                sub = read_zx(zx.circuit2zx(build(g)))[1]
            out += [(b, o + l) for b, o in sub]
        return out

    def zx_dagger(self, d, zl, z, case, exact, twice=False):
        """[[d.dagger()]] = [[d]]^H (numpy, on the exactly read data) and, where every phase and scalar
        is representable, d.dagger() = the model's dagger, box by box."""
        rep = self.rep
        dd = self.lib("dagger", d.dagger)
        types = {}
        dom2, zl2 = self.lib("read-dagger", read_zx, dd, types)
        self.note_types(types)
        if (dom2, len(dd.cod)) != (len(d.cod), len(d.dom)):
            rep.fail("zx_dagger_arity", case, "dagger has %d -> %d wires, diagram %d -> %d" % (
                dom2, len(dd.cod), len(d.dom), len(d.cod)))
            return
        z2, _ = self.lib("zx-semantics-dagger", zx_numpy, dom2, zl2)
        self.float_cmp += 1
        rep.count("zx_dagger_checked")
        if z2.shape != z.conj().T.shape or not np.all(
                np.abs(z2 - z.conj().T) <= TOL * max(1.0, float(np.max(np.abs(z))))):
            bad = self.non_conjugated(zl, zl2)
            rep.fail("zx_dagger_not_adjoint" + (":scalar_not_conjugated" if bad else ""), case,
                     "[[d.dagger()]] != [[d]]^H" + (
                         "; the dagger keeps the non-real scalar(s) %s unconjugated" % bad if bad else ""))
        if exact:
            t1, t2 = tok_zx(zl), tok_zx(zl2)
            if t1 is not None and t2 is not None:
                model = self.drv.ask("zxdag " + t1[3:])
                rep.count("exact_structure_comparisons")
                if t2 != model:
                    rep.disagree("zxdag", case, t2[:300], model[:300])
        if twice:
            d3 = self.lib("dagger-twice", lambda: dd.dagger())
            dom3, zl3 = self.lib("read-dagger-twice", read_zx, d3)
            z3, _ = self.lib("zx-semantics-dagger-twice", zx_numpy, dom3, zl3)
            if z3.shape != z.shape or not np.all(np.abs(z3 - z) <= TOL * max(1.0, float(np.max(np.abs(z))))):
                rep.fail("zx_dagger_twice_not_identity", case, "[[d.dagger().dagger()]] != [[d]]")

    @staticmethod
    def non_conjugated(zl, zl2):
        """Diagnosis only (narrows the signature): the non-real scalar values of d that occur in
        d.dagger() more often than their conjugates allow."""
        def values(layers):
            out = {}
            for b, _ in layers:
                if b[0] == "s":
                    key = (round(b[1].real, 9), round(b[1].imag, 9))
                    out[key] = out.get(key, 0) + 1
            return out
        before, after = values(zl), values(zl2)
        bad = []
        for (re, im), n in sorted(before.items()):
            if im != 0 and after.get((re, -im), 0) < n and after.get((re, im), 0) > before.get((re, -im), 0):
                bad.append(complex(re, im))
        return bad

    # ---- ZX diagrams that are not (only) images of circuits, for the dagger clause

    def zxdiagram(self, zxd, stream, twice=False):
        case = dict(zx=show_zx(zxd), stream=stream)
        self.guarded(case, self._zxdiagram, zxd, stream, case, twice)

    def _zxdiagram(self, zxd, stream, case, twice):
        rep = self.rep
        start, layers = zxd
        for b, _ in layers:
            if b[0] in "zxy":
                rep.count("given:zx-phase:" + numtypes.kind_of(b[3]))
                rep.count("zx-spider:" + b[0].upper())
            elif b[0] == "s":
                rep.count("given:zx-scalar:" + numtypes.kind_of(b[1]))
        if start[0] == "c2zx":
            rep.count("zx_diagrams_extending_a_circuit2zx_image")
            for _, g, _ in start[2]:
                for role, v in desc_values(g):
                    rep.count("given:%s:%s" % (role, numtypes.kind_of(v)))
        d = self.lib("build-zx", build_zx, zxd)
        types = {}
        dom, zl = self.lib("read-zx", read_zx, d, types)
        self.note_types(types)
        z, cod = self.lib("zx-semantics", zx_numpy, dom, zl)
        typed = any(not t.split(":")[1] in ("int", "float", "complex") for t in types)
        rep.case(stream + "|" + case["zx"], len(zl) >= 2 or typed)
        rep.sample(case)
        rep.count("zx_diagrams:" + stream)
        t = tok_zx(zl)
        exact = t is not None
        if exact:
            self.compare_semantics(z, dom, cod, t, case)
        self.zx_dagger(d, zl, z, case, exact, twice)

    def random_zxd(self):
        """A random ZX diagram: Id(w) or the circuit2zx image of a small random circuit, followed by 1-6
        generators (Z/X/Y spiders, H, SWAP, scalars) whose phases / data are typed with probability 1/2."""
        rng = self.rng
        ng = NumGen(rng)
        if rng.random() < 0.25:
            gen = QGen(random.Random(rng.getrandbits(64)), exact=True, gateset=zx_gateset, max_wires=3)
            n_in, cl = gen.circuit(depth=rng.randint(1, 3))
            while not all(self.supported(g) for _, g, _ in cl):
                n_in, cl = gen.circuit(depth=rng.randint(1, 3))
            start = ("c2zx", n_in, cl)
            w = n_in + sum(arity(g)[1] - arity(g)[0] for _, g, _ in cl)
        else:
            w = rng.randint(0, 3)
            start = ("id", w)
        layers = []
        for _ in range(rng.randint(1, 6)):
            o = rng.choice(["z", "x", "z", "x", "y", "h", "w", "s", "s"])
            typed = rng.random() < 0.5
            if o in "zxy":
                n = rng.randint(0, min(2, w))
                m = rng.randint(0, 2 if w - n + 2 <= 4 else max(0, 4 - (w - n)))
                if rng.random() < 0.5:
                    n8 = rng.randint(-8, 8)
                    ph = ng.phase(n8)[1] if typed else n8 / 8.0
                else:
                    ph = round(rng.uniform(-1, 1), 4)
                    if typed:
                        ph = rng.choice(FLOATY_ZX).make(decimal_fraction(ph, 4), Fraction(0))
                b = (o, n, m, ph)
            elif o == "h":
                if w < 1:
                    continue
                b = ("h",)
            elif o == "w":
                if w < 2:
                    continue
                b = ("w",)
            else:
                b = ("s", ng.scalar()[1] if typed else
                     rng.choice([0.5, 1j, -1.0, 0.5 + 0.5j, 2.0, 0, -0.25 - 0.75j, 1.5 - 2j]))
            dm, cd = desc_arity(b)
            off = rng.randint(0, w - dm)
            layers.append((b, off))
            w = w - dm + cd
        return start, layers

    def random_zx(self):
        self.zxdiagram(self.random_zxd(), "random-zx")

    # ---- every numeric type, systematically

    SCALAR_VALUES = [(Fraction(0), Fraction(0)), (Fraction(1), Fraction(0)), (Fraction(-1), Fraction(0)),
                     (Fraction(1, 2), Fraction(0)), (Fraction(-3, 4), Fraction(0)), (Fraction(3), Fraction(0)),
                     (Fraction(0), Fraction(1)), (Fraction(0), Fraction(-1, 2)),
                     (Fraction(1, 2), Fraction(1, 4)), (Fraction(-3, 8), Fraction(-5, 4)),
                     (Fraction(2), Fraction(-1)), (Fraction(1, 2), Fraction(1, 3)),
                     (Fraction(-2, 3), Fraction(0))]
    PHASES = [0, 1, -3, 2, 4, -6, 8, -16, 5]        # eighths of a full turn

    def zx_context(self, which, b):
        """A ZX diagram holding the box `b` (arity 0 -> 0): alone / next to a wire / in the middle."""
        if which == 0:
            return ("id", 0), [(b, 0)]
        if which == 1:
            return ("id", 1), [(("z", 1, 1, 0.25), 0), (b, 1)]
        return ("id", 1), [(("z", 1, 2, 0.375), 0), (("h",), 1), (("w",), 0), (b, 1),
                           (("x", 2, 1, -0.25), 0), (("z", 1, 0, 0.125), 0)]

    def typed_sweep(self, thorough):
        """Every numeric type x (zero, +-real, +-imaginary, general, non-dyadic) as ZX scalar datum, as
        Z/X/Y spider phase, as circuit scalar and as rotation phase."""
        turn = 0
        for kind in numtypes.KINDS:
            for re, im in self.SCALAR_VALUES:
                if not numtypes.fits(kind, re, im):
                    continue
                v = kind.make(re, im)
                turn += 1
                for which in ((0, 1, 2) if thorough else (0, 1 + turn % 2)):
                    self.zxdiagram(self.zx_context(which, ("s", v)), "typed-zx-scalar", twice=True)
                if kind.circuits:
                    self.circuit(0, [(0, ("S", cyc8.from_gaussian(re, im), v), 0)], "typed-scalar")
                    if thorough or turn % 2:
                        t = cyc8.from_gaussian(re, im)
                        sg = ("S", t, v)
                        self.circuit(0, [(0, ("K", (turn % 2,)), 0), (0, ("N", "H"), 0), (0 if turn % 4 < 2 else 1, sg, 1 if turn % 4 < 2 else 0),
                                         (0, ("R", "Rz", 2, 0.25), 0), (0, ("D", sg), 1), (0, ("B", (1,)), 0)],
                                     "typed-scalar")
            if kind.cplx:
                continue
            for i, n8 in enumerate(self.PHASES):
                if not numtypes.fits(kind, Fraction(n8, 8), Fraction(0)) or kind.name == "np.uint8":
                    continue
                v = kind.make(Fraction(n8, 8), Fraction(0))
                for j, colour in enumerate("zxy"):
                    shapes = [(1, 2), (0, 1), (2, 0), (1, 1), (2, 2), (0, 0)]
                    for n, m in (shapes if thorough else [shapes[(i + j + turn) % 6]]):
                        self.zxdiagram((("id", n), [((colour, n, m, v), 0)]), "typed-zx-phase", twice=True)
                    self.zxdiagram((("id", 1), [(("z", 1, 2, 0.375), 0), ((colour, 1, 1, v), 1),
                                                (("x", 2, 1, v), 0)]), "typed-zx-phase")
                if kind.circuits and n8 % 2 == 0:
                    rots = ("Rx", "Rz") + F7_KINDS
                    for r, rk in enumerate(rots):
                        if not thorough and (r + i) % 2:
                            continue
                        g = ("R", rk, n8, v)
                        self.circuit(arity(g)[0], [(0, g, 0)], "typed-rot")
                        self.circuit(arity(g)[0], [(0, ("D", g), 0)], "typed-rot")


def run(tier, seed, replay=None):
    rep = Report(PROP, tier, seed)
    thorough = tier == "thorough"
    rep.rule = ("(1) every gate class of the property's set {Ket, Bra, H, X, Y, Z, CX, CZ, Rx, Rz, CRz, CRx, "
                "CU1, SWAP, scalar} and its dagger, rotations at all phases k/8 (|k| <= 16) and at random "
                "float phases, all bitstrings of length <= 3; unsupported gates (S, T, Ry, Controlled(Z)) for "
                "the refusal; (2) random pure circuits over that set on 0-4 wires, depth 1-8, random offsets "
                "and bitstrings, half at exactly representable phases; (3) random ZX diagrams: Id(w) or the "
                "circuit2zx image of a random circuit followed by 1-6 generators (Z/X/Y spiders of arities 0-2, "
                "H, SWAP, scalars; phases k/8 or random) for the dagger clause; (4) all spiders with "
                "<= 2 (3 thorough) legs per side at all phases k/8: model semantics = textbook semantics; "
                "(5) NUMERIC TYPES: 40 % of the scalar data and rotation phases of (2) and half of the data of "
                "(3) are given in a random type out of 33 (Python int/bool/float/complex/Fraction/Decimal, "
                "numpy float16/32/64/longdouble, int8/32/64, uint8, complex64/128/clongdouble, 0-d arrays, "
                "array elements, sympy Integer/Rational/Float/Rational+I*Rational/Float+I*Float), and a "
                "systematic sweep puts every type x {0, +-real, +-imaginary, general, non-dyadic} as a ZX "
                "scalar (alone / beside a wire / inside a diagram), as Z/X/Y spider phase, as circuit scalar "
                "(alone and inside a circuit, also daggered) and as phase of Rx/Rz/CRz/CRx/CU1; counts under "
                "`given:*` (type handed in) and `stored:*` (type found in the ZX diagram / its dagger). "
                "(6) SUBCLASSES AND HELPER CONSTRUCTORS: every box that IS an instance of a class of the gate set "
                "although its type is another one — square-root scalars sqrt(z) (gates.Sqrt subclasses "
                "gates.Scalar; 23 exact roots x int/float/complex/numpy data, random complex data, alone, "
                "daggered, beside wires, and 35 % of the scalar boxes of every random circuit), Controlled(X), "
                "trivial user subclasses `class MyRz(Rz): pass` of Ket/Bra/Rz/Rx/CRz/CRx/CU1/Scalar/Sqrt (pinned "
                "and 6 % of the boxes of random circuits) — and circuits built by Circuit.cups / caps (which "
                "contain sqrt(2)), Circuit.swap / permutation, .transpose(left=False|True) and .dagger() of "
                "whole circuits, nested and composed at random (`helper:*`); the circuit the helper returns is "
                "read back box by box for the model; (7) STATES AND EFFECTS AT EVERY DEPTH (`interleaved`): "
                "rounds of 1->1 phase gates (Rz/Rx/Z/X, typed, daggered) on most wires separated by Kets and "
                "Bras of 1-2 bits at any offset (left of / between / right of rotated wires, several per "
                "circuit), so that a wire carrying a rotation changes its index before the next rotation of "
                "the same colour; `shape:*` counts circuits of shape Ket >> gates >> Bra, circuits with a "
                "state or effect in the middle, and circuits with (same-colour) phase gates on a wire across "
                "a re-indexing; (8) LOCAL PATTERNS OF CONSECUTIVE GATES (`pattern:*`): SWAP >> G >> SWAP at one "
                "offset for every two-qubit gate G (CX, CZ, SWAP, Controlled(X), CRz, CRx, CU1, daggers), also "
                "with boxes on other wires / scalars between and with the swaps at another offset; gate-inverse "
                "pairs, repeated gates, runs of rotations; H-conjugated one- and two-qubit gates, H on target or "
                "control; two controlled gates in the same / opposite direction, CX-reversed CX-CX; one-qubit "
                "gates commuted through two-qubit gates, moved by swaps; double swaps; Ket-gate-Bra — every gate "
                "in the central place of each of the 15 patterns, bare and embedded between random gates; and "
                "gates.rewire(G, a, b[, dom]) for every two-qubit gate x every ordered pair of wires. "
                "Non-trivial = contains a gate other than a scalar or a rotation at an integer "
                "phase, or a number of a type other than int/float/complex; distinct by printed form")
    rep.partial = [
        "the lifting of the per-gate theorem to whole circuits (one overall non-zero scalar = product of the "
        "per-gate scalars) is proved in Lean for every well-typed circuit over the translated gate set at the "
        "even integer phase indices (kets/bras <= 4 bits) and generically over any commutative ring; circuits with "
        "longer kets/bras are covered by the oracle and exact correspondence only",
        "the dagger of a whole ZX diagram is proved (every well-typed diagram, any arities and phases) for the "
        "model's interpretation; discopy's own .dagger() is tied to the model's by exact correspondence",
        "square-root scalars: gate2zx_sound_sqrt / circuit2zx_sound cover sqrt(z) whose value r (r*r = z) is a "
        "unit of Z[zeta_8][1/2] (sqrt(2) of cups and caps, 1/sqrt2, i, 1+-i, zeta, 1+sqrt2, ...) or zero; roots "
        "that are non-zero non-units (sqrt(9), sqrt(-3+4i)) and random complex data are decided by the oracle and "
        "the exact correspondence only. The model has no classes: subclass instances and helper-built circuits "
        "are sent to it as the gates they are (read back from the circuit the helper returned), so that "
        "circuit2zx refusing or mistranslating them shows against the model and the oracle; the helpers "
        "themselves (that Circuit.cups denotes a cup) are not part of this property",
        "gate2zx_sound for kets/bras is decided for bitstrings of <= 3 bits; the as-is CRx image is refuted at "
        "phase 1/4 only (CRz, CU1: exact extent proved for every real phase)",
        "the numeric TYPE of a Python datum is not modelled: the model's scalars are exact elements of "
        "Z[zeta_8][1/2] (Gaussian dyadic rationals included) and its phases integers n/8; the correspondence "
        "reads the datum discopy stores, whatever its type (Python, numpy, 0-d array, sympy), to its exact "
        "value before comparing, so type-dependent behaviour of the code (a dagger that conjugates only some "
        "types) shows as a wrong VALUE; values outside Z[zeta_8][1/2] (1/2 + i/3) and Y spiders (not in the "
        "Lean syntax) are decided by the numpy oracle only",
        "Decimal data are exercised in ZX diagrams only (discopy cannot evaluate a circuit holding a Decimal); "
        "for float16 / float32 / complex64 data the circuit's own evaluation is computed by numpy at that "
        "precision, so proportionality to it is checked at 2e-2 / 2e-5 (counted), while the ZX side and the "
        "dagger clause are always evaluated from the exact values at 1e-9"]
    rep.assumptions = [
        "discopy 0.3.5 cannot evaluate ZX diagrams itself; the standard interpretation is the textbook one "
        "written independently in harness/props/c16.py (numpy) and in lean/Model/Gates.lean, compared "
        "exactly on every generator and diagram of the run",
        "float_oracle: proportionality and dagger comparisons use relative tolerance 1e-9"]
    rep.lean = lean_obligations(PROP, thorough=thorough)
    rng = random.Random(seed)
    drv = Driver()
    try:
        chk = Check(rep, drv, rng)
        rep.extra["model_switches"] = chk.switches
        chk.generators(2 if not thorough else 3)
        # single gates
        singles = [("N", n) for n in ("H", "X", "Y", "Z", "CX", "CZ")] + [("W",)]
        singles += [("D", g) for g in list(singles)]
        singles += [("N", "S"), ("N", "T"), ("D", ("N", "S")), ("C", ("N", "Z")), ("R", "Ry", 2, 0.25),
                    ("C", ("N", "X")), ("C", ("D", ("N", "X")))]
        for g in singles:
            d, _ = arity(g)
            chk.circuit(d, [(0, g, 0)], "gate")
        for kind in ("Rx", "Rz") + F7_KINDS:
            for n in range(-16, 17):
                g = ("R", kind, n if n % 2 == 0 else None, n / 8.0)
                chk.circuit(arity(g)[0], [(0, g, 0)], "rot-k/8")
            for _ in range(10 if not thorough else 120):
                g = ("R", kind, None, round(rng.uniform(-3, 3), 6))
                chk.circuit(arity(g)[0], [(0, g, 0)], "rot-float")
                chk.circuit(arity(g)[0], [(0, ("D", g), 0)], "rot-float")
        for k in range(0, 4):
            for bits in itertools.product((0, 1), repeat=k):
                chk.circuit(0, [(0, ("K", bits), 0)], "ketbra")
                chk.circuit(k, [(0, ("B", bits), 0)], "ketbra")
        for t in qgen.EXACT_SCALARS:
            chk.circuit(0, [(0, ("S", t, cyc8.to_complex(t)), 0)], "scalar")
        # every class that gate2zx accepts through SUBCLASSING: square-root scalars (gates.Sqrt < gates.Scalar;
        # 23 exact roots x the Python types of the data; alone, daggered, beside wires) and trivial user
        # subclasses of Ket, Bra, Rz, Rx, CRz, CRx, CU1, Scalar, Sqrt
        for i, w in enumerate(qgen.EXACT_ROOTS):
            zt = cyc8.mul(w, w)
            types = ["auto", "complex", "np.complex128"]
            if cyc8.is_real(zt) and cyc8.to_complex(zt).real >= 0:
                types += ["float", "np.float64"]
            for j, ty in enumerate(types if thorough else [types[i % len(types)], types[(i + 1) % len(types)]]):
                g = qgen.sqrt_exact(w, ty)
                chk.circuit(0, [(0, g, 0)], "sqrt")
                chk.circuit(0, [(0, ("D", g), 0)], "sqrt")
                if thorough or (i + j) % 2 == 0:
                    chk.circuit(0, [(0, g, 0), (0, ("K", (j % 2,)), 0), (0, ("N", "H"), 0),
                                    (1, ("D", g), 0), (0, ("R", "Rz", 2, 0.25), 0)], "sqrt")
        for _ in range(10 if not thorough else 200):
            g = QGen(random.Random(rng.getrandbits(64)), exact=False).sqrt_box()
            chk.circuit(0, [(0, g, 0)], "sqrt")
            chk.circuit(1, [(0, ("N", "X"), 0), (1, ("D", g), 0)], "sqrt")
        subs = [("K", (0, 1)), ("K", ()), ("B", (1,)), ("B", (1, 0, 1)), ("S", (0, 0, 1, 0, 1), 0.5j),
                ("S", (-3, 0, 0, 0, 0), -3), qgen.sqrt_exact((0, 1, 0, -1, 0)), qgen.sqrt_exact((1, 0, 1, 0, 0))]
        subs += [("R", kind, n, n / 8.0) for kind in ("Rx", "Rz") + F7_KINDS for n in (2, -6)]
        for g in subs:
            d, _ = arity(g)
            chk.circuit(d, [(0, ("U", g), 0)], "user-subclass")
            chk.circuit(d + 1, [(1, ("U", g), 0), (0, ("N", "H"), arity(g)[1])], "user-subclass")
        # helper constructors of the library: cups and caps (CX >> H @ sqrt(2) @ Id(1) >> Bra(0, 0) and its
        # dagger), swaps, permutations, transposes and daggers of whole circuits
        pinned = [("cups", 1), ("caps", 1), ("cups", 2), ("caps", 2), ("swap", 1, 2), ("swap", 2, 1),
                  ("perm", [2, 0, 1]), ("dagger", ("cups", 2)),
                  ("then", [("tensor", [("caps", 1), ("id", 1)]),
                            ("tensor", [("id", 1), ("circ", 1, [(0, ("R", "Rx", 2, 0.25), 0)]), ("id", 1)]),
                            ("tensor", [("id", 1), ("cups", 1)])]),
                  ("then", [("tensor", [("id", 1), ("caps", 1)]),
                            ("tensor", [("cups", 1), ("circ", 1, [(0, ("R", "Rz", None, 0.3), 0)])])])]
        tgates = [("N", n) for n in ("H", "X", "Y", "Z", "CX", "CZ")] + [("W",), ("K", (1,)), ("B", (0, 1)),
                  ("S", (0, 0, 1, 0, 1), 0.5j), qgen.sqrt_exact((0, 1, 0, -1, 0))]
        tgates += [("R", kind, 2, 0.25) for kind in ("Rx", "Rz") + F7_KINDS]
        for g in tgates:
            for left in (False, True):
                pinned.append(("transpose", ("circ", arity(g)[0], [(0, g, 0)]), left))
        for e in pinned:
            chk.helper(e, "helper-pinned")
        for k in range(60 if not thorough else 700):
            chk.helper(random_hx(random.Random(rng.getrandbits(64)), exact=(k % 2 == 0)), "helper")
        # every numeric type, systematically
        chk.typed_sweep(thorough)
        # states and effects at every depth, between rounds of phase gates on wires whose index changes
        for k in range(160 if not thorough else 2000):
            gen = QGen(random.Random(rng.getrandbits(64)), exact=(k % 2 == 0), gateset=zx_gateset)
            n_in, layers = interleaved(gen, reindex_only=(k % 4 < 2))
            chk.circuit(n_in, layers, "interleaved")
        # local patterns of consecutive gates (what a peephole optimiser would look at), every gate of the set
        # in the central place of every pattern in turn, bare and embedded; rewire(gate, a, b) of every
        # two-qubit gate for every pair of wires
        n_rounds = 1 if not thorough else 14
        for rnd in range(n_rounds):
            for k in range(len(PATTERN_G2)):
                for name in PATTERNS:
                    kk = k + rnd * len(PATTERN_G2)
                    gen = QGen(random.Random(rng.getrandbits(64)), exact=((kk + len(name)) % 3 != 0),
                               gateset=zx_gateset)
                    n_in, layers = pattern_circuit(gen, name, kk + (rnd % 2))
                    rep.count("pattern:" + name)
                    chk.circuit(n_in, layers, "pattern:" + name)
        pairs3 = [(a, b) for a in range(3) for b in range(3) if a != b]
        pairs4 = [(a, b) for a in range(4) for b in range(4) if a != b and 3 in (a, b)]
        for rnd in range(1 if not thorough else 6):
            for k, g0 in enumerate(PATTERN_G2):
                todo = pairs3 + (pairs4 if thorough else [pairs4[(k + seed) % len(pairs4)]])
                for j, (a, b) in enumerate(todo):
                    gen = QGen(random.Random(rng.getrandbits(64)), exact=((k + j + rnd) % 3 != 0),
                               gateset=zx_gateset)
                    g = pattern_gate(gen, g0, dagger_p=0.2)
                    dom = None if (j + k) % 3 else max(a, b) + 1 + gen.rng.randint(0, 1)
                    rep.count("pattern:rewire(%s)" % ("adjacent" if abs(a - b) == 1 else "apart"))
                    e = ("rewire", g, a, b, dom)
                    if (j + k + rnd) % 4 == 0:                   # also behind / before other gates
                        n = hx_arity(e)[0]
                        pre = width_keeping_layers(gen, n, gen.rng.randint(1, 2))
                        post = width_keeping_layers(gen, n, gen.rng.randint(1, 2))
                        e = ("then", [("circ", n, pre), e, ("circ", n, post)])
                    chk.helper(e, "pattern:rewire")
        # circuits
        for k in range(300 if not thorough else 5000):
            gen = QGen(random.Random(rng.getrandbits(64)), exact=(k % 2 == 0), gateset=zx_gateset)
            n_in, layers = gen.circuit()
            chk.circuit(n_in, layers, "circuit")
        for _ in range(300 if not thorough else 5000):
            chk.random_zx()
        rep.extra["float_oracle_comparisons"] = chk.float_cmp
        rep.extra["numeric_types"] = [k.name for k in numtypes.KINDS]
    finally:
        drv.close()
    return rep.finish()
