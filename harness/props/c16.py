"""C16 — circuits translate to ZX diagrams denoting the same linear map.

discopy 0.3.5 has no evaluator for ZX diagrams (zx spiders carry no array; the only semantic route
is pyzx, whose API changed), so the "standard interpretation" is stated twice, independently:
  * `zx_numpy` below — textbook definition of spiders (sums over computational / Hadamard basis
    states), Hadamard, swap, scalar, composed layer by layer; used by the ORACLE;
  * lean/Model/Gates.lean (`zMat`, `xMat`, `evalZX`) — used by the theorems; the two are compared
    exactly (through recognition in ℤ[ζ₈]/2^e) on every generator and on every generated diagram.
Correspondence: `circuit2zx(c)` (boxes, offsets, phases) against the model's `gate2zx`/`circuit2zx`,
and `.dagger()` of ZX diagrams against the model's.

Numeric TYPES (harness/numtypes.py): scalar data and phases are drawn from every kind of number a user
can pass (Python int/bool/float/complex/Fraction/Decimal, numpy floats / ints / complex of every
width, 0-d arrays, elements of arrays, sympy Integer/Rational/Float/`Rational + I*Rational`), at
exactly representable values (Gaussian dyadic rationals, phases n/8).  Whatever object discopy stores
is read back EXACTLY (`numtypes.exact`), so the numpy oracle and the tokens sent to the Lean model
carry the exact value whatever its type; the model itself has no notion of the Python type.
"""
import itertools
import math
import cmath
import random

import numpy as np

import cyc8
import numtypes
import qgen
from fractions import Fraction
from numtypes import NumGen
from common import Driver, Report, lean_obligations, err_class
from qgen import QGen, build, tok, show, kinds, build_circuit, tok_circuit, show_circuit, eval_io, arity

PROP = "C16"
TOL = 1e-9
F7_KINDS = ("CRz", "CRx", "CU1")


# --------------------------------------------------------------------------- independent ZX semantics

def _basis_state(bit, n):
    v = np.zeros(2 ** n, dtype=complex)
    v[(2 ** n - 1) if bit else 0] = 1
    return v


def _pm_state(minus, n):
    one = np.array([1, -1 if minus else 1], dtype=complex) / math.sqrt(2)
    v = np.ones(1, dtype=complex)
    for _ in range(n):
        v = np.kron(v, one)
    return v


def _y_state(minus, n):
    one = np.array([1, -1j if minus else 1j], dtype=complex) / math.sqrt(2)
    v = np.ones(1, dtype=complex)
    for _ in range(n):
        v = np.kron(v, one)
    return v


def zx_spider(colour, n, m, phase):
    """[input, output] matrix (2^n x 2^m) of a spider with n inputs, m outputs, phase in FULL turns:
    Z = |0..0><0..0| + e^{2 pi i phase} |1..1><1..1|,  X the same over |+>, |->,  Y over |+i>, |-i>
    (the [input, output] matrix of |s..s><s..s| is outer(conj(s^n), s^m))."""
    st = {"z": _basis_state, "x": _pm_state, "y": _y_state}[colour]
    mu = cmath.exp(2j * math.pi * complex(phase))
    return np.outer(st(0, n).conj(), st(0, m)) + mu * np.outer(st(1, n).conj(), st(1, m))


H_IO = np.array([[1, 1], [1, -1]], dtype=complex) / math.sqrt(2)
SWAP_IO = np.array([[1, 0, 0, 0], [0, 0, 1, 0], [0, 1, 0, 0], [0, 0, 0, 1]], dtype=complex)


def zx_box(b):
    """b = ("z"|"x"|"y", n, m, phase) | ("h",) | ("w",) | ("s", value[, exact cyc8 tuple | None])."""
    if b[0] in "zxy":
        return zx_spider(b[0], b[1], b[2], b[3])
    if b[0] == "h":
        return H_IO
    if b[0] == "w":
        return SWAP_IO
    return np.array([[b[1]]], dtype=complex)


def zx_arity(b):
    if b[0] in "zxy":
        return b[1], b[2]
    return {"h": (1, 1), "w": (2, 2), "s": (0, 0)}[b[0]]


def zx_numpy(dom, layers):
    """Standard interpretation of [(box, offset)] on `dom` input wires; returns (matrix, cod)."""
    m, w = np.eye(2 ** dom, dtype=complex), dom
    for b, off in layers:
        d, c = zx_arity(b)
        assert 0 <= off and off + d <= w, (b, off, w)
        m = m @ np.kron(np.kron(np.eye(2 ** off), zx_box(b)), np.eye(2 ** (w - off - d)))
        w = w - d + c
    return m, w


def read_phase(p):
    """The phase a spider stores, whatever its numeric type: an exact Fraction when it is a real
    number (always, for finite floats), a complex when it has an imaginary part, else a float."""
    e = numtypes.exact(p)
    if e is None:
        return float(p)
    return e[0] if e[1] == 0 else complex(float(e[0]), float(e[1]))


def read_scalar(x):
    """("s", complex value, exact cyc8 tuple | None) of the datum a zx.Scalar stores, whatever its
    numeric type."""
    e = numtypes.exact(x)
    if e is None:
        return ("s", complex(x), None)
    return ("s", complex(float(e[0]), float(e[1])), cyc8.from_gaussian(*e))


def read_zx(diagram, types=None):
    """(dom, [(box, offset)]) of a real zx.Diagram; `types` (a dict) collects the stored data types."""
    from discopy.quantum import zx
    out = []
    for b, off in zip(diagram.boxes, diagram.offsets):
        spider = {zx.Z: "z", zx.X: "x", zx.Y: "y"}.get(type(b))
        if spider is not None:
            out.append(((spider, len(b.dom), len(b.cod), read_phase(b.phase)), off))
            if types is not None:
                types["phase:" + numtypes.kind_of(b.phase)] = True
        elif isinstance(b, zx.Had):
            out.append((("h",), off))
        elif isinstance(b, zx.Swap):
            out.append((("w",), off))
        elif isinstance(b, zx.Scalar):
            out.append((read_scalar(b.data), off))
            if types is not None:
                types["scalar:" + numtypes.kind_of(b.data)] = True
        else:
            raise TypeError("unexpected ZX box %r" % (b,))
    return len(diagram.dom), out


def tok_zxbox(b):
    """Driver token of a ZX box, or None if its phase / scalar is not exactly representable."""
    if b[0] == "y":
        return None                      # Y spiders are not in the Lean syntax: oracle only
    if b[0] in "zx":
        if isinstance(b[3], complex):
            return None
        p = b[3] * 8
        if isinstance(p, Fraction):
            if p.denominator != 1:
                return None
        elif abs(p - round(p)) > 1e-12:
            return None
        return "%s %d %d %d" % (b[0], b[1], b[2], int(round(p)) % 8)
    if b[0] in "hw":
        return b[0]
    t = b[2] if len(b) > 2 and b[2] is not None else cyc8.recognise(b[1])
    return None if t is None else "s " + cyc8.scalar_tok(t)


def tok_zx(layers):
    toks = []
    for b, off in layers:
        t = tok_zxbox(b)
        if t is None:
            return None
        toks.append("%s %d" % (t, off))
    return "ok " + " ".join([str(len(layers))] + toks)


def proportional(z, e, tol=TOL):
    """(ok, k): z == k * e for ONE non-zero scalar k (both zero counts as ok)."""
    scale = max(1.0, float(np.max(np.abs(z))), float(np.max(np.abs(e))))
    if float(np.max(np.abs(e))) <= tol * scale:
        return float(np.max(np.abs(z))) <= tol * scale, 1.0
    k = np.vdot(e, z) / np.vdot(e, e)
    return abs(k) > tol and bool(np.all(np.abs(z - k * e) <= tol * scale)), k


# --------------------------------------------------------------------------- corrected decompositions

def fixed_layers(kind, phase):
    """The proposed repair of zx.py:376-384 (see notes/finding_F7.md)."""
    h = phase / 2
    if kind == "CRz":
        return [(("z", 1, 2, 0), 0), (("z", 1, 2, h), 2), (("x", 2, 1, 0), 1), (("z", 1, 0, -h), 1)]
    if kind == "CU1":
        return [(("z", 1, 2, h), 0), (("z", 1, 2, h), 2), (("x", 2, 1, 0), 1), (("z", 1, 0, -h), 1)]
    return [(("z", 1, 2, 0), 0), (("x", 1, 2, h), 2), (("h",), 1), (("z", 2, 1, 0), 1),
            (("x", 1, 0, -h), 1)]


TYPED_P = 0.4                                   # share of scalars / phases given in a non-plain type
FLOATY = [k for k in numtypes.REAL_KINDS if not k.ints and k.circuits and k.prec != "f16"]
FLOATY_ZX = [k for k in numtypes.REAL_KINDS if not k.ints]
NONINT = [k for k in numtypes.KINDS if not k.ints]
EVAL_TOL = {"hi": TOL, "f32": 2e-5, "f16": 2e-2}


def decimal_fraction(x, digits):
    return Fraction(int(round(x * 10 ** digits)), 10 ** digits)


def typed_rot(gen, kind):
    """A rotation whose phase is, with probability TYPED_P, given in a random real numeric type."""
    g = gen.rot(kind)
    rng = gen.rng
    if rng.random() >= TYPED_P:
        return g
    if g[2] is not None:
        _, v = NumGen(rng).phase(g[2], circuits=True)
    else:
        v = rng.choice(FLOATY).make(decimal_fraction(g[3], 6), Fraction(0))
    return ("R", kind, g[2], v)


def typed_scalar(gen):
    """A scalar gate whose datum is, with probability TYPED_P, given in a random numeric type (zero,
    negative, real, imaginary and general values)."""
    rng = gen.rng
    if rng.random() >= TYPED_P:
        return gen.scalar()
    if gen.exact:
        _, v, (re, im) = NumGen(rng).scalar(circuits=True)
        return ("S", cyc8.from_gaussian(re, im), v)
    kind = rng.choice([k for k in NONINT if k.circuits])
    re = decimal_fraction(rng.uniform(-2, 2), 3)
    im = decimal_fraction(rng.uniform(-2, 2), 3) if kind.cplx else Fraction(0)
    return ("S", None, kind.make(re, im))


def zx_gateset(gen, w):
    """Gate classes of the property's quantifier: Ket, Bra, H, X, Y, Z, CX, CZ, Rx, Rz, CRz, CRx, CU1,
    SWAP, scalar — and their daggers; phases and scalar data in every numeric type."""
    rng = gen.rng
    opts = ["scalar"]
    if w >= 1:
        opts += ["n1", "n1", "r1", "r1", "bra"]
    if w >= 2:
        opts += ["n2", "r2", "r2", "swap"]
    if w < gen.max_wires:
        opts += ["ket"] * (3 if w == 0 else 1)
    o = rng.choice(opts)
    if o == "n1":
        g = ("N", rng.choice(("H", "X", "Y", "Z")))
    elif o == "r1":
        g = typed_rot(gen, rng.choice(("Rx", "Rz")))
    elif o == "n2":
        g = ("N", rng.choice(("CX", "CZ")))
    elif o == "r2":
        g = typed_rot(gen, rng.choice(F7_KINDS))
    elif o == "swap":
        g = ("W",)
    elif o == "ket":
        return ("K", gen.bits(rng.randint(1, min(2, gen.max_wires - w))))
    elif o == "bra":
        return ("B", gen.bits(rng.randint(1, min(2, w))))
    else:
        g = typed_scalar(gen)
        return ("D", g) if rng.random() < 0.25 else g
    if rng.random() < 0.25:
        g = ("D", g)
    return g


def exact_desc(g):
    k = g[0]
    if k == "R":
        return g[2] is not None and g[2] % 2 == 0
    if k in "DC":
        return exact_desc(g[1])
    if k == "S":
        return g[1] is not None
    return True


def f7_gate(g):
    g = qgen.norm(g)
    return g[0] == "R" and g[1] in F7_KINDS


def desc_values(g):
    """[(role, value)] of the numbers a gate descriptor carries."""
    k = g[0]
    if k in "DC":
        return desc_values(g[1])
    if k == "R":
        return [("phase", g[3])]
    if k == "S":
        return [("scalar", g[2])]
    return []


def value_prec(v):
    dt = getattr(v, "dtype", None)
    if dt is None:
        return "hi"
    if dt == np.float16:
        return "f16"
    return "f32" if dt in (np.float32, np.complex64) else "hi"


def worst_prec(values):
    precs = {value_prec(v) for v in values}
    return "f16" if "f16" in precs else "f32" if "f32" in precs else "hi"


def plain(g):
    """The descriptor with every number turned into a Python float / complex (for the textbook
    matrices of qgen.std_io, which know nothing of numeric types)."""
    k = g[0]
    if k in "DC":
        return (k, plain(g[1]))
    if k == "R":
        return ("R", g[1], g[2], numtypes.to_complex(g[3]).real)
    if k == "S":
        return ("S", g[1], numtypes.to_complex(g[2]))
    return g


def integer_phase(v):
    e = numtypes.exact(v)
    return e is not None and e[1] == 0 and e[0].denominator == 1


# --------------------------------------------------------------------------- ZX diagram descriptors
# zxd = (start, layers): start = ("id", w) | ("c2zx", n_in, circuit layers);
# layers = [(box, offset)], box = ("z"|"x"|"y", n, m, phase object) | ("h",) | ("w",) | ("s", datum object)

def build_zxbox(b):
    from discopy.quantum import zx
    if b[0] in "zxy":
        return {"z": zx.Z, "x": zx.X, "y": zx.Y}[b[0]](b[1], b[2], b[3])
    if b[0] == "h":
        return zx.Had()
    if b[0] == "w":
        return zx.SWAP
    return zx.scalar(b[1])


def show_zxbox(b):
    if b[0] in "zxy":
        return "%s(%d, %d, %s)" % (b[0].upper(), b[1], b[2], numtypes.show(b[3]))
    if b[0] == "h":
        return "H"
    if b[0] == "w":
        return "SWAP"
    return "scalar(%s)" % numtypes.show(b[1])


def desc_arity(b):
    if b[0] in "zxy":
        return b[1], b[2]
    return {"h": (1, 1), "w": (2, 2), "s": (0, 0)}[b[0]]


def build_zx(zxd):
    from discopy.quantum import zx
    start, layers = zxd
    if start[0] == "id":
        d = zx.Id(start[1])
    else:
        d = zx.circuit2zx(build_circuit(start[1], start[2]))
    w = len(d.cod)
    for b, off in layers:
        box = build_zxbox(b)
        d = d >> zx.Id(off) @ box @ zx.Id(w - off - len(box.dom))
        w = len(d.cod)
    return d


def show_zx(zxd):
    start, layers = zxd
    head = "Id(%d)" % start[1] if start[0] == "id" else "circuit2zx(%s)" % show_circuit(start[1], start[2])
    w = start[1] if start[0] == "id" else start[1] + sum(
        arity(g)[1] - arity(g)[0] for _, g, _ in start[2])
    out = [head]
    for b, off in layers:
        dm, cd = desc_arity(b)
        out.append("Id(%d) @ %s @ Id(%d)" % (off, show_zxbox(b), w - off - dm))
        w = w - dm + cd
    return " >> ".join(out)


class LibError(Exception):
    """An exception raised by discopy (or by reading what it returned) at a named stage."""

    def __init__(self, stage, exc):
        Exception.__init__(self, "%s: %s: %s" % (stage, type(exc).__name__, exc))
        self.stage, self.exc = stage, exc


class Check:
    def __init__(self, rep, drv, rng):
        self.rep, self.drv, self.rng = rep, drv, rng
        self.switches = drv.ask("switches")
        self.f7 = "1" if "f7=1" in self.switches else "0"
        self.float_cmp = 0

    def lib(self, stage, fn, *args):
        try:
            return fn(*args)
        except Exception as exc:  # noqa: reported with the input by the caller
            raise LibError(stage, exc)

    def guarded(self, case, fn, *args):
        """Run one case; an unexpected exception of the library is a failure WITH the input."""
        try:
            fn(*args)
        except LibError as le:
            self.rep.fail("unexpected_exception:%s:%s" % (le.stage, err_class(le.exc)), case,
                          "discopy raised %s" % le)

    def note_types(self, types):
        for t in sorted(types):
            self.rep.count("stored:" + t)

    # ---- model semantics vs textbook semantics, generator by generator

    def generators(self, max_legs):
        rep = self.rep
        for colour in "zx":
            for n, m in itertools.product(range(max_legs + 1), repeat=2):
                for p in range(8):
                    b = (colour, n, m, p / 8.0)
                    model = self.drv.ask("zxmat " + tok_zxbox(b))
                    real = cyc8.recognise_matrix(zx_box(b), 2 ** n, 2 ** m)
                    rep.case("gen|%s" % (b,), True)
                    rep.count("zx_generator_semantics_checked")
                    if real != model:
                        rep.disagree("zxmat", dict(box=b), real, model)
        for b in (("h",), ("w",), ("s", 0.5j)):
            model = self.drv.ask("zxmat " + tok_zxbox(b))
            d, c = zx_arity(b)
            real = cyc8.recognise_matrix(zx_box(b), 2 ** d, 2 ** c)
            rep.case("gen|%s" % (b,), True)
            if real != model:
                rep.disagree("zxmat", dict(box=b), real, model)

    # ---- one circuit (a single gate is a circuit of one layer)

    def circuit(self, n_in, layers, stream):
        case = dict(circuit=show_circuit(n_in, layers), stream=stream)
        self.guarded(case, self._circuit, n_in, layers, stream, case)

    def _circuit(self, n_in, layers, stream, case):
        from discopy.quantum import zx
        rep = self.rep
        c = self.lib("build-circuit", build_circuit, n_in, layers)
        exact = all(exact_desc(g) for _, g, _ in layers)
        allk = [k for _, g, _ in layers for k in kinds(g)]
        for k in set(allk):
            rep.count("has:" + k)
        values = [rv for _, g, _ in layers for rv in desc_values(g)]
        for role, v in values:
            rep.count("given:%s:%s" % (role, numtypes.kind_of(v)))
        prec = worst_prec([v for _, v in values])
        nontrivial = any(not (g[0] == "R" and integer_phase(g[3])) and g[0] != "S" for _, g, _ in layers) \
            or any(type(v) not in (int, float, complex) for _, v in values)
        rep.case(stream + "|" + case["circuit"], nontrivial)
        rep.sample(case)
        try:
            d = zx.circuit2zx(c)
            real_err = None
        except KeyError:
            d, real_err = None, "err index"
        except Exception as exc:
            d, real_err = None, "err " + err_class(exc)
        types = {}
        zl = None
        if d is not None:
            dom, zl = self.lib("read-zx", read_zx, d, types)
            self.note_types(types)
        if exact:
            model = self.drv.ask("c2zx %s %s" % (self.f7, tok_circuit(layers)))
            real = real_err if d is None else (tok_zx(zl) or "unrepresentable")
            rep.count("exact_structure_comparisons")
            if real != model:
                rep.disagree("c2zx", case, real[:400], model[:400])
        if d is None:
            rep.count("unsupported")
            if all(self.supported(g) for _, g, _ in layers):
                rep.fail("circuit2zx_raises:" + real_err, case, "supported gate set but circuit2zx raised")
            return
        try:
            e = eval_io(c)
        except Exception:  # noqa: the circuit's own evaluation is not this property's subject
            rep.count("eval_unavailable_textbook_used")
            e = qgen.product_io(n_in, [(l, plain(g), r) for l, g, r in layers], qgen.std_io)
        # arity
        if dom != len(c.dom) or len(d.cod) != len(c.cod):
            rep.fail("circuit2zx_arity", case, "ZX diagram has %d -> %d wires, circuit %d -> %d" % (
                dom, len(d.cod), len(c.dom), len(c.cod)))
            return
        z, cod = self.lib("zx-semantics", zx_numpy, dom, zl)
        if exact:
            t = tok_zx(zl)
            if t is not None:
                self.compare_semantics(z, dom, cod, t, case)
        # oracle: proportional to the circuit's evaluation with ONE non-zero scalar
        ok, k = proportional(z, e, EVAL_TOL[prec])
        self.float_cmp += 1
        if prec != "hi":
            rep.count("proportionality_at_%s_tolerance" % prec)
        if not ok:
            if any(f7_gate(g) for _, g, _ in layers):
                zl2 = self.lib("repaired", self.repaired_layers, layers)
                z2, _ = zx_numpy(dom, zl2)
                ok2, _ = proportional(z2, e, EVAL_TOL[prec])
                if ok2:
                    rep.fail("circuit2zx_not_proportional:CRz|CRx|CU1", case,
                             "not proportional to the evaluation; proportional once the decompositions "
                             "of CRz/CRx/CU1 are replaced by the corrected ones")
                else:
                    rep.fail("circuit2zx_not_proportional", case, "also with corrected CRz/CRx/CU1")
            else:
                rep.fail("circuit2zx_not_proportional", case,
                         "ZX diagram does not denote the evaluation up to a non-zero scalar")
        # oracle: dagger of the ZX diagram denotes the conjugate transpose
        self.zx_dagger(d, zl, z, case, exact)

    def compare_semantics(self, z, dom, cod, t, case):
        """Model's interpretation of the diagram (tokens `t`) against the textbook one (`z`): exactly,
        through recognition of the numpy entries in Z[zeta_8]/2^e; where an entry lies outside the
        recogniser's range (products of several large scalars: numerators beyond cyc8.UMAX) the model's
        exact entries are compared with the numpy ones at relative 1e-9 instead (counted)."""
        rep = self.rep
        m = self.drv.ask("zxeval %d %s" % (dom, t[3:]))
        r = cyc8.recognise_matrix(z, 2 ** dom, 2 ** cod)
        rep.count("exact_semantics_comparisons")
        if r == m:
            return
        if m.startswith("ok "):
            mm = cyc8.parse_matrix(m)
            scale = max(1.0, float(np.max(np.abs(z))) if z.size else 1.0)
            if mm.size == z.size and bool(np.all(np.abs(mm.reshape(z.shape) - z) <= TOL * scale)):
                rep.count("semantics_compared_numerically_beyond_recogniser_range")
                return
        rep.disagree("zxeval", case, (r or "unrepresentable")[:300], m[:300])

    def supported(self, g):
        g = qgen.norm(g)
        k = g[0]
        if k == "N":
            return g[1] in ("H", "X", "Y", "Z", "CX", "CZ")
        if k == "D":
            return g[1] == ("N", "Y")
        if k == "R":
            return g[1] in ("Rx", "Rz") + F7_KINDS
        return k in "KBWS"

    def repaired_layers(self, layers):
        """circuit2zx with the real gate2zx for every gate except CRz/CRx/CU1, which get the
        corrected decomposition."""
        from discopy.quantum import zx
        out = []
        for l, g, _ in layers:
            n = qgen.norm(g)
            if n[0] == "R" and n[1] in F7_KINDS:
                sub = fixed_layers(n[1], numtypes.to_complex(n[3]).real)
            else:
                sub = read_zx(zx.circuit2zx(build(g)))[1]
            out += [(b, o + l) for b, o in sub]
        return out

    def zx_dagger(self, d, zl, z, case, exact, twice=False):
        """[[d.dagger()]] = [[d]]^H (numpy, on the exactly read data) and, where every phase and scalar
        is representable, d.dagger() = the model's dagger, box by box."""
        rep = self.rep
        dd = self.lib("dagger", d.dagger)
        types = {}
        dom2, zl2 = self.lib("read-dagger", read_zx, dd, types)
        self.note_types(types)
        if (dom2, len(dd.cod)) != (len(d.cod), len(d.dom)):
            rep.fail("zx_dagger_arity", case, "dagger has %d -> %d wires, diagram %d -> %d" % (
                dom2, len(dd.cod), len(d.dom), len(d.cod)))
            return
        z2, _ = self.lib("zx-semantics-dagger", zx_numpy, dom2, zl2)
        self.float_cmp += 1
        rep.count("zx_dagger_checked")
        if z2.shape != z.conj().T.shape or not np.all(
                np.abs(z2 - z.conj().T) <= TOL * max(1.0, float(np.max(np.abs(z))))):
            bad = self.non_conjugated(zl, zl2)
            rep.fail("zx_dagger_not_adjoint" + (":scalar_not_conjugated" if bad else ""), case,
                     "[[d.dagger()]] != [[d]]^H" + (
                         "; the dagger keeps the non-real scalar(s) %s unconjugated" % bad if bad else ""))
        if exact:
            t1, t2 = tok_zx(zl), tok_zx(zl2)
            if t1 is not None and t2 is not None:
                model = self.drv.ask("zxdag " + t1[3:])
                rep.count("exact_structure_comparisons")
                if t2 != model:
                    rep.disagree("zxdag", case, t2[:300], model[:300])
        if twice:
            d3 = self.lib("dagger-twice", lambda: dd.dagger())
            dom3, zl3 = self.lib("read-dagger-twice", read_zx, d3)
            z3, _ = self.lib("zx-semantics-dagger-twice", zx_numpy, dom3, zl3)
            if z3.shape != z.shape or not np.all(np.abs(z3 - z) <= TOL * max(1.0, float(np.max(np.abs(z))))):
                rep.fail("zx_dagger_twice_not_identity", case, "[[d.dagger().dagger()]] != [[d]]")

    @staticmethod
    def non_conjugated(zl, zl2):
        """Diagnosis only (narrows the signature): the non-real scalar values of d that occur in
        d.dagger() more often than their conjugates allow."""
        def values(layers):
            out = {}
            for b, _ in layers:
                if b[0] == "s":
                    key = (round(b[1].real, 9), round(b[1].imag, 9))
                    out[key] = out.get(key, 0) + 1
            return out
        before, after = values(zl), values(zl2)
        bad = []
        for (re, im), n in sorted(before.items()):
            if im != 0 and after.get((re, -im), 0) < n and after.get((re, im), 0) > before.get((re, -im), 0):
                bad.append(complex(re, im))
        return bad

    # ---- ZX diagrams that are not (only) images of circuits, for the dagger clause

    def zxdiagram(self, zxd, stream, twice=False):
        case = dict(zx=show_zx(zxd), stream=stream)
        self.guarded(case, self._zxdiagram, zxd, stream, case, twice)

    def _zxdiagram(self, zxd, stream, case, twice):
        rep = self.rep
        start, layers = zxd
        for b, _ in layers:
            if b[0] in "zxy":
                rep.count("given:zx-phase:" + numtypes.kind_of(b[3]))
                rep.count("zx-spider:" + b[0].upper())
            elif b[0] == "s":
                rep.count("given:zx-scalar:" + numtypes.kind_of(b[1]))
        if start[0] == "c2zx":
            rep.count("zx_diagrams_extending_a_circuit2zx_image")
            for _, g, _ in start[2]:
                for role, v in desc_values(g):
                    rep.count("given:%s:%s" % (role, numtypes.kind_of(v)))
        d = self.lib("build-zx", build_zx, zxd)
        types = {}
        dom, zl = self.lib("read-zx", read_zx, d, types)
        self.note_types(types)
        z, cod = self.lib("zx-semantics", zx_numpy, dom, zl)
        typed = any(not t.split(":")[1] in ("int", "float", "complex") for t in types)
        rep.case(stream + "|" + case["zx"], len(zl) >= 2 or typed)
        rep.sample(case)
        rep.count("zx_diagrams:" + stream)
        t = tok_zx(zl)
        exact = t is not None
        if exact:
            self.compare_semantics(z, dom, cod, t, case)
        self.zx_dagger(d, zl, z, case, exact, twice)

    def random_zxd(self):
        """A random ZX diagram: Id(w) or the circuit2zx image of a small random circuit, followed by 1-6
        generators (Z/X/Y spiders, H, SWAP, scalars) whose phases / data are typed with probability 1/2."""
        rng = self.rng
        ng = NumGen(rng)
        if rng.random() < 0.25:
            gen = QGen(random.Random(rng.getrandbits(64)), exact=True, gateset=zx_gateset, max_wires=3)
            n_in, cl = gen.circuit(depth=rng.randint(1, 3))
            while not all(self.supported(g) for _, g, _ in cl):
                n_in, cl = gen.circuit(depth=rng.randint(1, 3))
            start = ("c2zx", n_in, cl)
            w = n_in + sum(arity(g)[1] - arity(g)[0] for _, g, _ in cl)
        else:
            w = rng.randint(0, 3)
            start = ("id", w)
        layers = []
        for _ in range(rng.randint(1, 6)):
            o = rng.choice(["z", "x", "z", "x", "y", "h", "w", "s", "s"])
            typed = rng.random() < 0.5
            if o in "zxy":
                n = rng.randint(0, min(2, w))
                m = rng.randint(0, 2 if w - n + 2 <= 4 else max(0, 4 - (w - n)))
                if rng.random() < 0.5:
                    n8 = rng.randint(-8, 8)
                    ph = ng.phase(n8)[1] if typed else n8 / 8.0
                else:
                    ph = round(rng.uniform(-1, 1), 4)
                    if typed:
                        ph = rng.choice(FLOATY_ZX).make(decimal_fraction(ph, 4), Fraction(0))
                b = (o, n, m, ph)
            elif o == "h":
                if w < 1:
                    continue
                b = ("h",)
            elif o == "w":
                if w < 2:
                    continue
                b = ("w",)
            else:
                b = ("s", ng.scalar()[1] if typed else
                     rng.choice([0.5, 1j, -1.0, 0.5 + 0.5j, 2.0, 0, -0.25 - 0.75j, 1.5 - 2j]))
            dm, cd = desc_arity(b)
            off = rng.randint(0, w - dm)
            layers.append((b, off))
            w = w - dm + cd
        return start, layers

    def random_zx(self):
        self.zxdiagram(self.random_zxd(), "random-zx")

    # ---- every numeric type, systematically

    SCALAR_VALUES = [(Fraction(0), Fraction(0)), (Fraction(1), Fraction(0)), (Fraction(-1), Fraction(0)),
                     (Fraction(1, 2), Fraction(0)), (Fraction(-3, 4), Fraction(0)), (Fraction(3), Fraction(0)),
                     (Fraction(0), Fraction(1)), (Fraction(0), Fraction(-1, 2)),
                     (Fraction(1, 2), Fraction(1, 4)), (Fraction(-3, 8), Fraction(-5, 4)),
                     (Fraction(2), Fraction(-1)), (Fraction(1, 2), Fraction(1, 3)),
                     (Fraction(-2, 3), Fraction(0))]
    PHASES = [0, 1, -3, 2, 4, -6, 8, -16, 5]        # eighths of a full turn

    def zx_context(self, which, b):
        """A ZX diagram holding the box `b` (arity 0 -> 0): alone / next to a wire / in the middle."""
        if which == 0:
            return ("id", 0), [(b, 0)]
        if which == 1:
            return ("id", 1), [(("z", 1, 1, 0.25), 0), (b, 1)]
        return ("id", 1), [(("z", 1, 2, 0.375), 0), (("h",), 1), (("w",), 0), (b, 1),
                           (("x", 2, 1, -0.25), 0), (("z", 1, 0, 0.125), 0)]

    def typed_sweep(self, thorough):
        """Every numeric type x (zero, +-real, +-imaginary, general, non-dyadic) as ZX scalar datum, as
        Z/X/Y spider phase, as circuit scalar and as rotation phase."""
        turn = 0
        for kind in numtypes.KINDS:
            for re, im in self.SCALAR_VALUES:
                if not numtypes.fits(kind, re, im):
                    continue
                v = kind.make(re, im)
                turn += 1
                for which in ((0, 1, 2) if thorough else (0, 1 + turn % 2)):
                    self.zxdiagram(self.zx_context(which, ("s", v)), "typed-zx-scalar", twice=True)
                if kind.circuits:
                    self.circuit(0, [(0, ("S", cyc8.from_gaussian(re, im), v), 0)], "typed-scalar")
                    if thorough or turn % 2:
                        t = cyc8.from_gaussian(re, im)
                        sg = ("S", t, v)
                        self.circuit(0, [(0, ("K", (turn % 2,)), 0), (0, ("N", "H"), 0), (0 if turn % 4 < 2 else 1, sg, 1 if turn % 4 < 2 else 0),
                                         (0, ("R", "Rz", 2, 0.25), 0), (0, ("D", sg), 1), (0, ("B", (1,)), 0)],
                                     "typed-scalar")
            if kind.cplx:
                continue
            for i, n8 in enumerate(self.PHASES):
                if not numtypes.fits(kind, Fraction(n8, 8), Fraction(0)) or kind.name == "np.uint8":
                    continue
                v = kind.make(Fraction(n8, 8), Fraction(0))
                for j, colour in enumerate("zxy"):
                    shapes = [(1, 2), (0, 1), (2, 0), (1, 1), (2, 2), (0, 0)]
                    for n, m in (shapes if thorough else [shapes[(i + j + turn) % 6]]):
                        self.zxdiagram((("id", n), [((colour, n, m, v), 0)]), "typed-zx-phase", twice=True)
                    self.zxdiagram((("id", 1), [(("z", 1, 2, 0.375), 0), ((colour, 1, 1, v), 1),
                                                (("x", 2, 1, v), 0)]), "typed-zx-phase")
                if kind.circuits and n8 % 2 == 0:
                    rots = ("Rx", "Rz") + F7_KINDS
                    for r, rk in enumerate(rots):
                        if not thorough and (r + i) % 2:
                            continue
                        g = ("R", rk, n8, v)
                        self.circuit(arity(g)[0], [(0, g, 0)], "typed-rot")
                        self.circuit(arity(g)[0], [(0, ("D", g), 0)], "typed-rot")


def run(tier, seed, replay=None):
    rep = Report(PROP, tier, seed)
    thorough = tier == "thorough"
    rep.rule = ("(1) every gate class of the property's set {Ket, Bra, H, X, Y, Z, CX, CZ, Rx, Rz, CRz, CRx, "
                "CU1, SWAP, scalar} and its dagger, rotations at all phases k/8 (|k| <= 16) and at random "
                "float phases, all bitstrings of length <= 3; unsupported gates (S, T, Ry, Controlled(Z)) for "
                "the refusal; (2) random pure circuits over that set on 0-4 wires, depth 1-8, random offsets "
                "and bitstrings, half at exactly representable phases; (3) random ZX diagrams: Id(w) or the "
                "circuit2zx image of a random circuit followed by 1-6 generators (Z/X/Y spiders of arities 0-2, "
                "H, SWAP, scalars; phases k/8 or random) for the dagger clause; (4) all spiders with "
                "<= 2 (3 thorough) legs per side at all phases k/8: model semantics = textbook semantics; "
                "(5) NUMERIC TYPES: 40 % of the scalar data and rotation phases of (2) and half of the data of "
                "(3) are given in a random type out of 33 (Python int/bool/float/complex/Fraction/Decimal, "
                "numpy float16/32/64/longdouble, int8/32/64, uint8, complex64/128/clongdouble, 0-d arrays, "
                "array elements, sympy Integer/Rational/Float/Rational+I*Rational/Float+I*Float), and a "
                "systematic sweep puts every type x {0, +-real, +-imaginary, general, non-dyadic} as a ZX "
                "scalar (alone / beside a wire / inside a diagram), as Z/X/Y spider phase, as circuit scalar "
                "(alone and inside a circuit, also daggered) and as phase of Rx/Rz/CRz/CRx/CU1; counts under "
                "`given:*` (type handed in) and `stored:*` (type found in the ZX diagram / its dagger). "
                "Non-trivial = contains a gate other than a scalar or a rotation at an integer phase, or a "
                "number of a type other than int/float/complex; distinct by printed form")
    rep.partial = [
        "the lifting of the per-gate theorem to whole circuits (one overall non-zero scalar = product of the "
        "per-gate scalars) is proved in Lean for every well-typed circuit over the translated gate set at the "
        "even integer phase indices (kets/bras <= 4 bits) and generically over any commutative ring; circuits with "
        "longer kets/bras are covered by the oracle and exact correspondence only",
        "the dagger of a whole ZX diagram is proved (every well-typed diagram, any arities and phases) for the "
        "model's interpretation; discopy's own .dagger() is tied to the model's by exact correspondence",
        "gate2zx_sound for kets/bras is decided for bitstrings of <= 3 bits; the as-is CRx image is refuted at "
        "phase 1/4 only (CRz, CU1: exact extent proved for every real phase)",
        "the numeric TYPE of a Python datum is not modelled: the model's scalars are exact elements of "
        "Z[zeta_8][1/2] (Gaussian dyadic rationals included) and its phases integers n/8; the correspondence "
        "reads the datum discopy stores, whatever its type (Python, numpy, 0-d array, sympy), to its exact "
        "value before comparing, so type-dependent behaviour of the code (a dagger that conjugates only some "
        "types) shows as a wrong VALUE; values outside Z[zeta_8][1/2] (1/2 + i/3) and Y spiders (not in the "
        "Lean syntax) are decided by the numpy oracle only",
        "Decimal data are exercised in ZX diagrams only (discopy cannot evaluate a circuit holding a Decimal); "
        "for float16 / float32 / complex64 data the circuit's own evaluation is computed by numpy at that "
        "precision, so proportionality to it is checked at 2e-2 / 2e-5 (counted), while the ZX side and the "
        "dagger clause are always evaluated from the exact values at 1e-9"]
    rep.assumptions = [
        "discopy 0.3.5 cannot evaluate ZX diagrams itself; the standard interpretation is the textbook one "
        "written independently in harness/props/c16.py (numpy) and in lean/Model/Gates.lean, compared "
        "exactly on every generator and diagram of the run",
        "float_oracle: proportionality and dagger comparisons use relative tolerance 1e-9"]
    rep.lean = lean_obligations(PROP, thorough=thorough)
    rng = random.Random(seed)
    drv = Driver()
    try:
        chk = Check(rep, drv, rng)
        rep.extra["model_switches"] = chk.switches
        chk.generators(2 if not thorough else 3)
        # single gates
        singles = [("N", n) for n in ("H", "X", "Y", "Z", "CX", "CZ")] + [("W",)]
        singles += [("D", g) for g in list(singles)]
        singles += [("N", "S"), ("N", "T"), ("D", ("N", "S")), ("C", ("N", "Z")), ("R", "Ry", 2, 0.25),
                    ("C", ("N", "X")), ("C", ("D", ("N", "X")))]
        for g in singles:
            d, _ = arity(g)
            chk.circuit(d, [(0, g, 0)], "gate")
        for kind in ("Rx", "Rz") + F7_KINDS:
            for n in range(-16, 17):
                g = ("R", kind, n if n % 2 == 0 else None, n / 8.0)
                chk.circuit(arity(g)[0], [(0, g, 0)], "rot-k/8")
            for _ in range(10 if not thorough else 120):
                g = ("R", kind, None, round(rng.uniform(-3, 3), 6))
                chk.circuit(arity(g)[0], [(0, g, 0)], "rot-float")
                chk.circuit(arity(g)[0], [(0, ("D", g), 0)], "rot-float")
        for k in range(0, 4):
            for bits in itertools.product((0, 1), repeat=k):
                chk.circuit(0, [(0, ("K", bits), 0)], "ketbra")
                chk.circuit(k, [(0, ("B", bits), 0)], "ketbra")
        for t in qgen.EXACT_SCALARS:
            chk.circuit(0, [(0, ("S", t, cyc8.to_complex(t)), 0)], "scalar")
        # every numeric type, systematically
        chk.typed_sweep(thorough)
        # circuits
        for k in range(400 if not thorough else 5000):
            gen = QGen(random.Random(rng.getrandbits(64)), exact=(k % 2 == 0), gateset=zx_gateset)
            n_in, layers = gen.circuit()
            chk.circuit(n_in, layers, "circuit")
        for _ in range(400 if not thorough else 5000):
            chk.random_zx()
        rep.extra["float_oracle_comparisons"] = chk.float_cmp
        rep.extra["numeric_types"] = [k.name for k in numtypes.KINDS]
    finally:
        drv.close()
    return rep.finish()
