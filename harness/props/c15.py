"""C15 — diagrammatic gradients evaluate to the gradient of the evaluation.

Oracle: `d.grad(x).eval()` against `sympy.diff` of `d.eval()`, entry by entry, evaluated at
random rational parameter values (tolerance 1e-9) and exactly (sympy.simplify) on polynomial
tensor diagrams.  Gradients are evaluated symbolically and substituted afterwards (formal sums
cannot be lambdified: finding F5g).
  tensor   : tensor diagrams with symbolic boxes, daggered boxes, swaps, spiders and single-wire
             polynomial bubbles; every symbol of the pool (absent ones must give the empty sum);
             jacobian stacking order
  pure     : pure circuits, `grad(x, mixed=False)` evaluated as amplitudes
  default  : pure and mixed circuits, `grad(x)` (parameter shift) evaluated as CQ maps
An explicit NotImplementedError (default gradient through a 2-qubit rotation, gates.py:371) is
a refusal: counted, checked to be the documented case, never a wrong answer.
Correspondence: grad / jacobian of small integer-polynomial tensor diagrams on the Lean model
(streams pgrad, pjac) and eval / grad of diagrams with a polynomial bubble (streams xeval, xgrad:
tensor.Bubble.grad against the model's chain-rule terms).
"""
import os
import random
import sys
import time
import zlib

import numpy as np
import sympy

if __name__ == "__main__":           # `python props/c15.py --history-child seed tier` (fresh-process values)
    sys.path.insert(0, os.path.dirname(os.path.dirname(os.path.abspath(__file__))))

from common import Driver, Report, lean_obligations, err_class, load_findings
import paramlib as pl
from props.c14 import tok_pdiagram, tok_poly, NV, tok_layer, tok_xdiagram, bubble_model_case

PROP = "C15"


def diff_entries(es, var):
    return [sympy.diff(sympy.sympify(e), var) for e in es]


def grad_len(g):
    return len(g.terms) if hasattr(g, "terms") else None


# --------------------------------------------------------------------------- tensor diagrams

def poly_func(rng):
    """A single-variable polynomial as a Python function (bubble function)."""
    cs = [rng.choice([-1, 1, 2]) for _ in range(rng.randint(2, 3))]
    k0 = rng.choice([0, 1])

    def func(v, cs=tuple(cs), k0=k0):
        return sum(c * v ** (k + k0) for k, c in enumerate(cs))
    return func, "poly%s@%d" % (cs, k0)


def tensor_case(rng, syms, with_bubble, func_rng=None, data_rng=None, tail=None):
    """(diagram, description, has_bubble, composite_inside).
    func_rng / data_rng / tail (default off: the stream of the plain families is unchanged): the
    bubble function, the box entries, the numeric tails come from their own generators, so that
    calls with equal `rng` seeds give diagrams that look alike (histories)."""
    from discopy.tensor import Dim, Id
    polyonly = rng.random() < 0.6
    g = pl.TensorGen(rng, syms, polyonly=polyonly and tail is None, data_rng=data_rng, tail=tail)
    if not with_bubble:
        g.repeat = 0.35         # the same box object again at another offset / depth
        d, _ = g.diagram(rng.randint(1, 4))
        return d, "plain", False, False
    # single-wire bubble: inside : Dim(a) -> Dim(b)
    a, b = rng.choice([1, 2, 2, 3]), rng.choice([1, 2, 2])
    func, fname = poly_func(func_rng or rng)
    composite = rng.random() < 0.3
    if composite:
        m = rng.choice([2, 3])
        inside = g.box([a] if a > 1 else [], [m])[0] >> g.box([m], [b] if b > 1 else [])[0]
    else:
        inside = g.box([a] if a > 1 else [], [b] if b > 1 else [])[0]
    bub = inside.bubble(func=func, drawing_name=fname if func_rng is None else "p")
    shape = rng.choice(["alone", "alone", "before", "after", "both"] if func_rng is None
                       else ["alone", "before", "after", "both", "both"])
    d = bub
    if shape in ("before", "both"):
        pre = g.box([rng.choice([2, 3])], [a] if a > 1 else [])[0]
        d = pre >> d
    if shape in ("after", "both"):
        post = g.box([b] if b > 1 else [], [rng.choice([2, 3])])[0]
        d = d >> post
    kind = "bubble:%s:%s" % (shape, "composite" if composite else "box")
    if func_rng is not None:
        kind += ":func=" + fname
    return d, kind, True, composite


def compare(rep, sig, case, got, want, point, exact=False):
    if len(got) != len(want):
        rep.fail(sig + ":shape", case, "%d entries vs %d" % (len(got), len(want)))
        return False
    a, b = pl.numvec(got, point), pl.numvec(want, point)
    if not pl.close(a, b):
        k = int(np.argmax(np.abs(a - b)))
        rep.fail(sig, case, "entry %d at %s: grad gives %r, derivative is %r" % (
            k, {str(s): str(v) for s, v in point.items()}, a[k], b[k]))
        return False
    if exact:
        for x, y in zip(got, want):
            z = pl.exact_zero(x, y)
            if z is False:
                rep.fail(sig + ":exact", case, "simplify(%s - (%s)) != 0" % (x, y))
                return False
            rep.count("exact_entry_%s" % ("checked" if z else "skipped"))
    return True


def check_tensor(rep, rng, syms, d, kind, has_bubble, composite, extra=None, collect=None, jacobian=True,
                 variables=None):
    """extra: merged into the reported case (history); collect: dict filled with the evaluated
    gradient entries per symbol (for comparison with a fresh process)."""
    from discopy.tensor import Bubble, Swap, Box
    desc = dict(family="tensor", kind=kind, diagram=str(d)[:300] + " | " + repr(d)[:300])
    desc.update(extra or {})
    try:
        ev = d.eval()
    except Exception as exc:
        rep.fail("eval_raises:" + type(exc).__name__, desc, repr(exc)[:200])
        return
    es = pl.entries(ev)
    true_syms = set().union(*[sympy.sympify(e).free_symbols for e in es]) if es else set()
    n_other = len([b for b in d.boxes if not isinstance(b, Bubble)])
    for var in (variables or syms):
        case = dict(desc, var=str(var))
        depends = var in pl.diagram_symbols(d) or (has_bubble and any(
            var in pl.diagram_symbols(b.inside) for b in d.boxes if isinstance(b, Bubble)))
        rep.count("family:tensor")
        rep.case("tensor|%s|%s" % (desc["diagram"], var), depends and len(d.boxes) >= 1)
        try:
            g = d.grad(var)
        except Exception as exc:
            if composite and isinstance(exc, TypeError) and "Expected builtins.int" in str(exc):
                rep.fail("bubble_grad_raises:composite_inside", case, repr(exc)[:200])      # F9c
            else:
                rep.fail("grad_raises:" + type(exc).__name__, case, repr(exc)[:200])
            continue
        if not depends:
            if grad_len(g) != 0 and isinstance(d, (Bubble, Box)):
                # tensor.Box.grad / Bubble.grad have no free-symbol test (tensor.py:582, 693)
                rep.fail("independent_symbol_not_empty_sum:single_box_or_bubble", case, repr(g)[:200])  # F9f
            elif grad_len(g) != 0:
                rep.fail("independent_symbol_not_empty_sum", case, repr(g)[:200])
            elif (g.dom, g.cod) != (d.dom, d.cod):
                rep.fail("empty_sum_wrong_type", case, "%s -> %s" % (g.dom, g.cod))
            else:
                rep.count("empty_sum_ok")
            continue
        try:
            ge = g.eval()
        except Exception as exc:
            if isinstance(exc, AttributeError) and type(g).__module__ == "discopy.monoidal" \
                    and any(isinstance(b, Swap) for b in d.boxes):
                rep.fail("tensor_grad_sum_not_evaluable:swap", case, repr(exc)[:200])        # F9e
            else:
                rep.fail("grad_eval_raises:" + type(exc).__name__, case, repr(exc)[:200])
            continue
        got = pl.entries(ge) if not isinstance(ge, int) else [0] * len(es)
        if collect is not None:
            collect[str(var)] = got
        point = pl.rational_point(rng, syms)
        sig = "tensor_grad_wrong"
        if has_bubble and n_other >= 1:
            sig = "grad_skips_bubble"                                                         # F9b
        if extra and extra.get("position_in_history"):
            sig = "tensor_grad_wrong:after_alike_diagram"
        if compare(rep, sig, case, got, diff_entries(es, var), point, exact=True):
            rep.count("tensor_grad_ok" + (":bubble" if has_bubble else ""))
    # jacobian: stacking in the order of the variables
    if has_bubble or not jacobian:
        return
    vs = list(syms)
    rng.shuffle(vs)
    vs = vs[:rng.randint(0, len(vs))]
    case = dict(desc, jacobian=[str(v) for v in vs])
    rep.count("family:tensor_jacobian")
    rep.case("tensorjac|%s|%s" % (desc["diagram"], vs), len(vs) >= 2)
    try:
        je = d.jacobian(vs).eval()
    except Exception as exc:
        rep.fail("jacobian_raises:" + type(exc).__name__, case, repr(exc)[:200])
        return
    arr = np.asarray(ev.array, dtype=object)
    ndom = len(ev.dom)
    want = expected_jacobian(arr, vs, ndom, true_syms)
    if want is None:
        if not (isinstance(je, int) and je == 0):
            if any(pl.numeval(e, pl.rational_point(rng, syms)) != 0 for e in pl.entries(je)):
                rep.fail("jacobian_of_nothing_not_zero", case, repr(je)[:200])
        return
    got = pl.entries(je) if not isinstance(je, int) else [0] * want.size
    if compare(rep, "jacobian_order_wrong", case, got, want.flatten().tolist(),
               pl.rational_point(rng, syms)):
        rep.count("jacobian_ok:%d" % len(vs))


def expected_jacobian(arr, vs, axis, true_syms):
    """Stack the derivatives along a new axis placed right after the domain axes."""
    if not vs:
        return None
    if arr.shape == (1, ) and axis == 0:
        arr = arr.reshape(())
    parts = []
    for v in vs:
        f = np.vectorize(lambda e, v=v: sympy.diff(sympy.sympify(e), v), otypes=[object])
        parts.append(f(arr) if arr.shape != () else np.array(sympy.diff(sympy.sympify(arr.item()), v), dtype=object))
    if len(vs) == 1:
        return np.asarray(parts[0], dtype=object)
    return np.stack(parts, axis=axis)


# --------------------------------------------------------------------------- circuits

def documented_refusal(c, var):
    from discopy.quantum.gates import Rotation
    return any(isinstance(b, Rotation) and len(b.dom) != 1 and var in b.free_symbols for b in c.boxes)


def scalar_kinds(c, var):
    from discopy.quantum.gates import Scalar
    pure = any(isinstance(b, Scalar) and not b.is_mixed and var in b.free_symbols for b in c.boxes)
    mixed = any(isinstance(b, Scalar) and b.is_mixed and var in b.free_symbols for b in c.boxes)
    return pure, mixed


def repeated_param_boxes(c):
    """Number of boxes with free symbols that are equal to an earlier box of the circuit."""
    seen, n = [], 0
    for b in c.boxes:
        if getattr(b, "free_symbols", None):
            if any(b == x for x in seen):
                n += 1
            seen.append(b)
    return n


JAC_KW_EVERY = 1          # run() sets 2: the keyword stream runs on every second circuit

JAC_KEYWORDS = [("default", {}), ("mixed=True", {"mixed": True}), ("mixed=False", {"mixed": False})]


def terms_of(x):
    return list(x.terms) if hasattr(x, "terms") else [x]


def grad_or_refusal(f):
    """("ok", value) | ("refusal", None) for the documented NotImplementedError | ("raises", exc)."""
    try:
        return "ok", f()
    except NotImplementedError:
        return "refusal", None
    except Exception as exc:
        return "raises", exc


def eval_entries(x, mixed, size):
    e = x.eval(mixed=mixed)
    return [0] * size if isinstance(e, int) else pl.entries(e)


def check_jacobian_keywords(rep, rng, syms, c, desc, amp=None, cq=None, cq_budget=0, variables=None):
    """Circuit.jacobian with 0, exactly 1 and 2 variables under every keyword combination
    (mixed absent / True / False): the jacobian stacks the gradients TAKEN WITH THE SAME ARGUMENTS;
    with one variable it is that gradient, so it evaluates -- in the mode asked -- to the partial
    derivative of the amplitudes (mixed=False; `amp` = entries of the pure evaluation) or of the
    classical-quantum map (default, mixed=True; `cq` = entries of the CQ evaluation).
    Cheap path: the terms are those of grad under the same keywords (printed forms equal); only when
    they differ are both evaluated and compared as values.  Oracle path: the evaluation against the
    derivative, for mixed=False wherever `amp` is given (pure circuits) and for `cq_budget`
    (variable, keyword) pairs in CQ mode (a CQ evaluation of a formal sum costs 4^qubits per term)."""
    from discopy.quantum.gates import Digits
    import sympy as _sp
    pure_circuit = not c.is_mixed
    present = sorted(pl.diagram_symbols(c), key=str)
    pool = list(variables or syms) + [_sp.Symbol("absent9", real=True)]
    oracle_var = rng.choice(present) if present and rng.random() < 0.85 else rng.choice(pool)
    # (the default keywords with one variable are also evaluated by the jacobian stream of check_circuit)
    cq_kw = "mixed=True" if cq is not None else rng.choice(["default", "mixed=True"])
    if cq_budget and rng.random() < 0.5:
        cq_budget = 0
    # the pure oracle on every second circuit (the others: same terms as grad under the same keywords)
    pure_oracle = rng.random() < 0.5
    # one-variable lists: the oracle's variable and one more of the pool (present or absent)
    # (building a gradient costs 20-40 ms: one list per circuit, a second one on a third of them)
    one = [oracle_var] + (rng.sample([v for v in pool if v != oracle_var], 1) if rng.random() < 0.34 else [])
    two_kw = rng.choice(["mixed=True", "mixed=False", "mixed=False"]) if rng.random() < 0.2 else None
    # keyword combinations with one variable: the one(s) the oracle can judge on this circuit, and
    # one of the others (compared with grad under the same keywords)
    if cq is None:
        one_kws = {"mixed=False"} | ({cq_kw} if rng.random() < 0.34 else set())
    else:
        one_kws = {"mixed=False", cq_kw} | ({"default"} if rng.random() < 0.3 else set())
    for kwname, kw in JAC_KEYWORDS:
        asked_mixed = kw.get("mixed", True)
        if not asked_mixed and not pure_circuit:
            rep.count("jacobian_kw_skipped:pure_gradient_of_mixed_circuit")
            continue
        # ---- zero variables
        for empty in ([], ()) if kwname == cq_kw else ([], ):
            case = dict(desc, jacobian=[], keywords=kwname)
            rep.count("jacobian_kw:0:" + kwname)
            rep.case("jac0|%s|%s|%r" % (desc["diagram"], kwname, empty), False)
            st, j = grad_or_refusal(lambda: c.jacobian(empty, **kw))
            if st != "ok":
                rep.fail("jacobian_raises:%s" % (type(j).__name__ if st == "raises" else "NotImplementedError"),
                         case, repr(j)[:200])
            elif grad_len(j) != 0 or (j.dom, j.cod) != (c.dom, c.cod):
                rep.fail("jacobian_of_nothing_not_zero", case, repr(j)[:200])
        # ---- exactly one variable
        for var in (one if kwname in one_kws else []):
            case = dict(desc, jacobian=[str(var)], keywords=kwname)
            depends = var in present
            rep.count("jacobian_kw:1:" + kwname)
            rep.case("jac1|%s|%s|%s" % (desc["diagram"], kwname, var), depends and len(c.boxes) >= 2)
            # will the oracle judge this (variable, keywords)?  Then the evaluation decides, and the
            # comparison with grad under the same keywords is left to the other pairs
            judged = depends and var == oracle_var and (
                pure_oracle if not asked_mixed else (cq is not None and cq_budget > 0 and kwname == cq_kw))
            sj, j = grad_or_refusal(lambda: c.jacobian([var], **kw))
            if judged and sj == "ok":
                sg, g = "ok", None
            else:
                sg, g = grad_or_refusal(lambda: c.grad(var, **kw))
            if sg == "raises":
                continue                        # grad's own failure: reported by the gradient checks
            if sj != sg:
                rep.fail("jacobian_one_variable_unlike_grad:%s" % sj, case,
                         "grad: %s, jacobian: %s %s" % (sg, sj, repr(j)[:160]))
                continue
            if sj == "refusal":
                rep.count("refusal:notimpl_two_qubit_rotation")
                continue
            if (j.dom, j.cod) != (c.dom, c.cod):
                rep.fail("jacobian_one_variable_type", case, "%s -> %s" % (j.dom, j.cod))
                continue
            if not depends and grad_len(j) != 0:
                rep.fail("independent_symbol_not_empty_sum:jacobian", case, repr(j)[:200])
                continue
            same = g is None or [repr(t) for t in terms_of(j)] == [repr(t) for t in terms_of(g)]
            point = pl.rational_point(rng, syms)
            if g is None:
                pass
            elif same:
                rep.count("jacobian_kw_same_terms_as_grad")
            else:
                # not the same formal sum: it must at least be the same value, in the mode asked
                try:
                    size = len(amp if not asked_mixed and amp is not None else cq or amp or [])
                    a, b = eval_entries(j, asked_mixed, size), eval_entries(g, asked_mixed, size)
                    compare(rep, "jacobian_one_variable_not_the_gradient:" + kwname, case, a, b, point)
                except Exception as exc:
                    rep.fail("jacobian_one_variable_not_the_gradient:%s:%s" % (kwname, type(exc).__name__),
                             case, repr(exc)[:200])
            # oracle: the evaluation in the mode asked is the derivative of the evaluation
            if not judged:
                if depends and var == oracle_var:
                    rep.count("jacobian_kw_oracle_skipped:" + ("cq_cost" if asked_mixed else "every_second"))
                continue
            if not asked_mixed:
                ref = amp
                if ref is None:
                    try:
                        ref = pl.entries(c.eval(mixed=False))
                    except Exception as exc:
                        rep.fail("eval_raises:" + type(exc).__name__, case, repr(exc)[:200])
                        continue
            else:
                ref = cq
                cq_budget -= 1
            try:
                got = eval_entries(j, asked_mixed, len(ref))
            except Exception as exc:
                rep.fail("jacobian_eval_raises:" + type(exc).__name__, case, repr(exc)[:200])
                continue
            sig = "jacobian_one_variable_wrong:" + kwname
            if asked_mixed:
                sp, sm = scalar_kinds(c, var)
                if sp:
                    sig = "mixed_grad_wrong:pure_scalar"                                   # F9
                elif sm:
                    sig = "mixed_grad_wrong:mixed_scalar"                                  # F9
            if compare(rep, sig, case, got, diff_entries(ref, var), point):
                rep.count("jacobian_kw_oracle_ok:1:" + kwname)
        # ---- two variables: the stack of the gradients taken with the same keywords
        if len(pool) >= 2 and kwname == two_kw:
            vs = rng.sample(pool, 2)
            case = dict(desc, jacobian=[str(v) for v in vs], keywords=kwname)
            rep.count("jacobian_kw:2:" + kwname)
            rep.case("jac2|%s|%s|%s" % (desc["diagram"], kwname, vs), True)
            sj, j = grad_or_refusal(lambda: c.jacobian(vs, **kw))
            gs = [grad_or_refusal(lambda v=v: c.grad(v, **kw)) for v in vs]
            if any(st == "raises" for st, _ in gs):
                continue
            want_status = "refusal" if any(st == "refusal" for st, _ in gs) else "ok"
            if sj != want_status:
                rep.fail("jacobian_stack_unlike_grads:%s" % sj, case, "grads: %s, jacobian: %s %s" % (
                    [st for st, _ in gs], sj, repr(j)[:160]))
                continue
            if sj != "ok":
                continue
            if (j.dom, j.cod) != (c.dom, Digits(0, dim=2).cod @ c.cod):
                rep.fail("jacobian_stack_type", case, "%s -> %s" % (j.dom, j.cod))
                continue
            stack = [Digits(i, dim=2) @ t for i, (_, g) in enumerate(gs) for t in terms_of(g)]
            if [repr(t) for t in terms_of(j)] == [repr(t) for t in stack]:
                rep.count("jacobian_kw_same_terms_as_stack")
            else:
                try:
                    a = eval_entries(j, True, 0)
                    b = eval_entries(sum(stack[1:], stack[0]) if stack else j, True, 0)
                    compare(rep, "jacobian_stack_not_the_gradients:" + kwname, case, a, b,
                            pl.rational_point(rng, syms))
                except Exception as exc:
                    rep.fail("jacobian_stack_not_the_gradients:%s:%s" % (kwname, type(exc).__name__),
                             case, repr(exc)[:200])


def check_circuit(rep, rng, syms, c, mode, jacobian=True, extra=None, collect=None, variables=None):
    """mode 'pure': grad(mixed=False) on a pure circuit, amplitudes; 'default': grad(x), CQ maps."""
    desc = dict(family=mode, diagram=repr(c)[:500])
    desc.update(extra or {})
    mixed = mode == "default"
    if repeated_param_boxes(c):
        rep.count("circuit_with_repeated_equal_gate:" + mode)
    try:
        ev = c.eval(mixed=mixed)
    except Exception as exc:
        rep.fail("eval_raises:" + type(exc).__name__, desc, repr(exc)[:200])
        return
    es = pl.entries(ev)
    for var in (variables or syms):
        case = dict(desc, var=str(var))
        depends = var in pl.diagram_symbols(c)
        rep.count("family:" + mode)
        rep.case("%s|%s|%s" % (mode, desc["diagram"], var), depends and len(c.boxes) >= 2)
        try:
            g = c.grad(var, mixed=False) if mode == "pure" else c.grad(var)
        except NotImplementedError:
            if mixed and documented_refusal(c, var):
                rep.count("refusal:notimpl_two_qubit_rotation")
            else:
                rep.fail("unexpected_notimpl", case, "NotImplementedError without a 2-qubit rotation in " + var.name)
            continue
        except Exception as exc:
            rep.fail("grad_raises:" + type(exc).__name__, case, repr(exc)[:200])
            continue
        if not depends:
            if grad_len(g) != 0 or (g.dom, g.cod) != (c.dom, c.cod):
                rep.fail("independent_symbol_not_empty_sum", case, repr(g)[:200])
            else:
                rep.count("empty_sum_ok")
            continue
        try:
            ge = g.eval(mixed=mixed)
        except Exception as exc:
            rep.fail("grad_eval_raises:" + type(exc).__name__, case, repr(exc)[:200])
            continue
        got = pl.entries(ge) if not isinstance(ge, int) else [0] * len(es)
        if collect is not None:
            collect[str(var)] = got
        sig = "%s_grad_wrong" % mode
        if extra and extra.get("position_in_history"):
            sig += ":after_alike_diagram"
        if mixed:
            sp, sm = scalar_kinds(c, var)
            if sp:
                sig = "mixed_grad_wrong:pure_scalar"                                       # F9 (|s|^2)
            elif sm:
                sig = "mixed_grad_wrong:mixed_scalar"                                      # F9 (flag dropped)
        if compare(rep, sig, case, got, diff_entries(es, var), pl.rational_point(rng, syms)):
            rep.count("%s_grad_ok" % mode)
            rep.count("terms:%s" % min(grad_len(g) or 0, 8))
    # jacobians of zero and of exactly one variable (no Digits: the jacobian IS the gradient), and
    # stacks of several, under every keyword combination
    # (own generator, derived from the circuit: the cases of the streams below stay those of earlier runs)
    width = max([len(c.dom)] + [len(left) + max(len(box.dom), len(box.cod)) + len(right)
                                for left, box, right in c.layers])
    if collect is None and zlib.crc32(repr(c).encode()) % JAC_KW_EVERY == 0:
        # (not inside the histories: those are about values kept between calls; on every second
        # circuit -- building a gradient costs 20-40 ms)
        t_kw = time.process_time()
        check_jacobian_keywords(rep, random.Random(zlib.crc32(repr(c).encode())), syms, c, desc,
                                amp=None if mixed else es, cq=es if mixed else None,
                                cq_budget=1 if (mixed and jacobian and width <= 1) else 0, variables=variables)
        rep.extra["jacobian_keywords_cpu_s"] = round(
            rep.extra.get("jacobian_keywords_cpu_s", 0) + time.process_time() - t_kw, 2)
    # jacobian: only for default gradients.  Circuit.jacobian stacks with classical Digits, so the
    # sum always has bit and qubit wires and is evaluated as a CQ map; with mixed=False the terms
    # are amplitude gradients, whose CQ evaluation is not a derivative of anything (not claimed).
    if not mixed:
        return
    if not jacobian:
        rep.count("jacobian_left_to_thorough:2_qubits")
        return
    vs = [v for v in syms]
    rng.shuffle(vs)
    vs = vs[:rng.choice([0, 1, 2, 2, 3])]
    if rng.random() < 0.5:
        # a variable the circuit does not depend on, listed BEFORE present ones: its row is zero
        # and the other rows keep their place
        import sympy as _sp
        vs.insert(rng.randint(0, max(0, len(vs) - 1)), _sp.Symbol("absent%d" % rng.randint(0, 2), real=True))
    if any(documented_refusal(c, v) for v in vs):
        return
    case = dict(desc, jacobian=[str(v) for v in vs])
    rep.count("family:%s_jacobian" % mode)
    rep.case("%sjac|%s|%s" % (mode, desc["diagram"], vs), len(vs) >= 2)
    try:
        j = c.jacobian(vs, mixed=False) if mode == "pure" else c.jacobian(vs)
        je = j.eval(mixed=mixed)
    except Exception as exc:
        rep.fail("jacobian_raises:" + type(exc).__name__, case, repr(exc)[:200])
        return
    if not vs:
        if not (isinstance(je, int) and je == 0):
            rep.fail("jacobian_of_nothing_not_zero", case, repr(je)[:200])
        return
    arr = np.asarray(ev.array, dtype=object)
    if mixed:
        axis = len(ev._udom)
    else:
        axis = len(ev.dom)
    want = expected_jacobian(arr, vs, axis, None)
    got = pl.entries(je) if not isinstance(je, int) else [0] * want.size
    sig = "jacobian_order_wrong"
    if mixed and any(any(scalar_kinds(c, v)) for v in vs):
        sp = any(scalar_kinds(c, v)[0] for v in vs)
        sig = "mixed_grad_wrong:pure_scalar" if sp else "mixed_grad_wrong:mixed_scalar"
    if compare(rep, sig, case, got, want.flatten().tolist(), pl.rational_point(rng, syms)):
        rep.count("jacobian_ok:%d" % len(vs))



# --------------------------------------------------------------------------- histories: alike diagrams in one process

HISTORY_MODES = ["tails:3"] * 5 + ["tails:2", "tails:5", "data", "same"]


def data_size(d):
    """Number of data entries of the boxes, bubbles opened."""
    return sum(data_size(b.inside) if hasattr(b, "inside") else len(pl.flat_data(getattr(b, "data", None)))
               for b in d.boxes)


def history_groups(seed, quick):
    """Groups of 2-3 diagrams that look alike, a pure function of (seed, tier) so that a fresh
    process can rebuild them: same shape / names / gate classes with
      func      -- bubbles applying DIFFERENT polynomials to the same inside (the function is not
                   part of the bubble's repr, name or data),
      tails:n   -- numeric constants (constant rotations, scalars, box entries) agreeing on n
                   significant digits (3: equal under the '{:.3g}' of gate names),
      data      -- independent data under the same names, same -- the same diagram built twice.
    Each group carries the order in which its members are differentiated."""
    rng = random.Random(seed * 1000003 + 151)
    syms = pl.symbols(True, 3)
    plan = [("bubble", 4), ("tensor", 2), ("pure", 3), ("default", 1)] if quick else \
           [("bubble", 60), ("tensor", 30), ("pure", 50), ("default", 12)]
    groups = []
    for fam, n in plan:
        for _ in range(n):
            r = random.Random(rng.getrandbits(64))
            k = r.choice([2, 2, 2, 3])
            if fam == "bubble":
                mode = r.choice(["func"] * 6 + HISTORY_MODES)
            else:
                mode = r.choice(HISTORY_MODES)
            for _attempt in range(8):      # quick: small members only (cost grows fast with the entries)
                if fam in ("bubble", "tensor"):
                    if mode == "func":
                        sd, dd = r.getrandbits(64), r.getrandbits(64)
                        variants = [tensor_case(random.Random(sd), syms, True, func_rng=random.Random(r.getrandbits(64)),
                                                data_rng=random.Random(dd)) for _ in range(k)]
                    else:
                        variants, _ = pl.alike_variants(
                            r, k, lambda sr, dr, tail: tensor_case(sr, syms, fam == "bubble", func_rng=random.Random(7),
                                                                   data_rng=dr, tail=tail), mode=mode)
                else:
                    nq = 1 if fam == "default" else 2

                    def make(sr, dr, tail, fam=fam, nq=nq):
                        gen = pl.CircuitGen(sr, syms, mixed=False, max_qubits=nq, rot2=(fam == "pure"), scalars=True,
                                            ket=0.9, numeric=0.45, tail=tail, data_rng=dr)
                        return gen.circuit(sr.randint(3, 4) if fam == "pure" else sr.randint(2, 3))[0]
                    variants, _ = pl.alike_variants(r, k, make, mode=mode)
                first = variants[0][0] if isinstance(variants[0], tuple) else variants[0]
                if not quick or data_size(first) <= 16:
                    break
            order = list(range(k))
            r.shuffle(order)
            point = pl.rational_point(r, syms)
            # differentiated: two symbols the members depend on (one more from the pool if they
            # depend on fewer: the empty sum must not be a remembered one either)
            first = variants[0][0] if isinstance(variants[0], tuple) else variants[0]
            dep = sorted(all_symbols(first), key=str)
            r.shuffle(dep)
            variables = (dep + [x for x in syms if x not in dep])[:2]
            groups.append(dict(family=fam, mode=mode, variants=variants, order=order, point=point,
                               variables=variables, check_seed=r.getrandbits(64)))
    return groups, syms


def grad_values(fam, d, var, point):
    """Evaluated gradient at the point, as complex numbers (the value a caller observes)."""
    if fam in ("bubble", "tensor"):
        ge = d.grad(var).eval()
    elif fam == "pure":
        ge = d.grad(var, mixed=False).eval(mixed=False)
    else:
        ge = d.grad(var).eval(mixed=True)
    if isinstance(ge, int):
        return []
    return [[z.real, z.imag] for z in pl.numvec(pl.entries(ge), point)]


def history_child(seed, tier):
    """Run in a FRESH interpreter: for every group differentiate ONLY the member that the main
    process differentiates last, so that no alike diagram was seen before it."""
    import json
    groups, syms = history_groups(seed, tier == "quick")
    out = []
    for g in groups:
        idx = g["order"][-1]
        d = g["variants"][idx]
        d = d[0] if isinstance(d, tuple) else d
        vals = {}
        for var in g["variables"]:
            try:
                vals[str(var)] = grad_values(g["family"], d, var, g["point"])
            except Exception as exc:
                vals[str(var)] = "raises:" + type(exc).__name__
        out.append(dict(idx=idx, values=vals))
    print("HISTORY-CHILD " + json.dumps(out))


def start_history_child(seed, tier):
    import os
    import subprocess
    import sys
    here = os.path.abspath(__file__)
    return subprocess.Popen([sys.executable, here, "--history-child", str(seed), tier],
                            stdout=subprocess.PIPE, stderr=subprocess.PIPE, text=True, env=dict(os.environ))


def read_history_child(proc):
    import json
    try:
        out, err = proc.communicate(timeout=300)
    except Exception as exc:
        proc.kill()
        return None, repr(exc)
    for line in out.splitlines():
        if line.startswith("HISTORY-CHILD "):
            return json.loads(line[len("HISTORY-CHILD "):]), None
    return None, (err or out)[-400:]


def check_histories(rep, seed, quick, child):
    """Alike diagrams differentiated one after another in THIS process: each gradient must be the
    gradient of its own diagram (oracle: sympy.diff of its own evaluation) and must not depend on
    what was differentiated before (the value a fresh process computes for the same diagram)."""
    groups, syms = history_groups(seed, quick)
    last = []
    for gi, g in enumerate(groups):
        fam, done = g["family"], []
        r = random.Random(g["check_seed"])
        reprs = set()
        for pos, idx in enumerate(g["order"]):
            v = g["variants"][idx]
            d = v[0] if isinstance(v, tuple) else v
            reprs.add(repr(d))
            extra = dict(history_mode=g["mode"], position_in_history=pos,
                         differentiated_earlier_in_this_process=list(done))
            if fam not in ("bubble", "tensor"):
                extra["data"] = [str(getattr(b, "data", None))[:40] for b in d.boxes]
            collect = {}
            rep.count("history_family:" + fam)
            if fam in ("bubble", "tensor"):
                d, kind, hb, comp = v
                done.append(kind + " | " + repr(d)[:200])
                check_tensor(rep, r, syms, d, kind, hb, comp, extra=extra, collect=collect, jacobian=False,
                             variables=g["variables"])
            else:
                done.append(repr(d)[:300])
                check_circuit(rep, r, syms, d, "pure" if fam == "pure" else "default", jacobian=False,
                              extra=extra, collect=collect, variables=g["variables"])
            # the same call again gives the same sum (one symbol the diagram depends on)
            for var in g["variables"][:1]:
                try:
                    a = d.grad(var, mixed=False) if fam == "pure" else d.grad(var)
                    b = d.grad(var, mixed=False) if fam == "pure" else d.grad(var)
                    if str(a) != str(b) or grad_len(a) != grad_len(b):
                        rep.fail("grad_not_repeatable", dict(extra, diagram=repr(d)[:300], var=str(var)),
                                 "%s then %s" % (str(a)[:150], str(b)[:150]))
                    else:
                        rep.count("history_repeatable")
                except Exception:
                    pass                        # raised and reported by the check above
            if pos == len(g["order"]) - 1:
                last.append((gi, g, idx, d, collect, extra))
        rep.count("history_mode:" + g["mode"])
        if len(reprs) == 1 and g["mode"] not in ("same", ):
            rep.count("history_equal_repr_distinct_diagrams")
    # against the fresh process
    fresh, err = read_history_child(child) if child is not None else (None, "not started")
    if fresh is None or len(fresh) != len(groups):
        rep.count("history_fresh_process_unavailable")
        rep.extra["history_child_error"] = str(err)[:300]
        return
    for (gi, g, idx, d, collect, extra), f in zip(last, fresh):
        if f["idx"] != idx:
            rep.count("history_fresh_process_unavailable")
            continue
        for var, got in sorted(collect.items()):
            want = f["values"].get(var)
            case = dict(extra, family=g["family"], diagram=repr(d)[:400], var=var)
            rep.case("fresh|%d|%s" % (gi, var), len(g["order"]) >= 2)
            if isinstance(want, str) or want is None:
                rep.fail("grad_depends_on_earlier_calls", case, "fresh process: %s" % want)
                continue
            try:
                a = pl.numvec(got, g["point"])
            except Exception as exc:
                rep.fail("grad_depends_on_earlier_calls", case, "not numeric here: %r" % (exc, ))
                continue
            b = np.array([complex(x, y) for x, y in want]) if want else np.zeros(len(a), dtype=complex)
            if not pl.close(a, b):
                k = int(np.argmax(np.abs(a - b))) if a.shape == b.shape else -1
                rep.fail("grad_depends_on_earlier_calls", case,
                         "entry %d of grad.eval(): %r after the earlier calls, %r as first call of a fresh process" % (
                             k, a[k] if k >= 0 else a.shape, b[k] if k >= 0 else b.shape))
            else:
                rep.count("history_fresh_process_agrees")


# --------------------------------------------------------------------------- sequences: subs / lambdify / slices, then grad

def all_symbols(d):
    """Symbols in the data of the boxes, bubbles opened."""
    out = set(pl.diagram_symbols(d))
    for b in d.boxes:
        if hasattr(b, "inside"):
            out |= all_symbols(b.inside)
    return out


def check_grad_sequences(rep, rng, syms, d, fam, kind=""):
    """grad composed with the other parameter operations on one diagram:
      subs then grad   d.subs(y, e).grad(x).eval()  ==  d/dx [ d.eval() with y := e ]   (e may mention x)
      grad then subs   d.grad(x).subs(y, b).eval()  ==  [ d/dx d.eval() ] with y := b
      recomposed       (d[:k] >> d[k:]).grad(x).eval() == d/dx d.eval()
      lambdify, grad   a closed diagram has the empty sum as gradient"""
    desc = dict(family="seq_" + fam, kind=kind, diagram=repr(d)[:500])
    mixed = fam == "default"

    def ev(x):
        if fam == "tensor":
            return x.eval()
        return x.eval(mixed=mixed)

    def gr(x, var):
        return x.grad(var, mixed=False) if fam == "pure" else x.grad(var)

    def entries_of(ge, n):
        return pl.entries(ge) if not isinstance(ge, int) else [0] * n
    free = sorted(all_symbols(d), key=str)
    if not free:
        rep.count("seq_skipped:no_symbols")
        return
    try:
        es = pl.entries(ev(d))
    except Exception as exc:
        rep.fail("eval_raises:" + type(exc).__name__, desc, repr(exc)[:200])
        return
    eg = pl.ExprGen(rng, syms)
    x = rng.choice(free)
    if mixed and documented_refusal(d, x):
        rep.count("refusal:notimpl_two_qubit_rotation")
        return
    others = [s for s in free if s != x]
    steps = []
    if others:
        y = rng.choice(others)
        e = rng.choice([eg.number(), eg.number(allow_float=False) * x + rng.choice([0, 1]),
                        x ** 2 * rng.choice([1, sympy.Rational(1, 2)]), rng.choice(syms) + sympy.Rational(1, 3)])
        steps.append(("subs_then_grad", (y, e)))
        steps.append(("grad_then_subs", (y, eg.number())))
    else:
        steps.append(("subs_then_grad", (x, x * rng.choice([2, -1]) + rng.choice([0, 1]))))
    steps.append(("grad_then_subs_all", None))
    steps.append(("recomposed", None))
    steps.append(("lambdify_then_grad", None))
    for what, args in steps:
        target = d
        case = dict(desc, sequence=what, var=str(x), subs=repr(args))
        rep.count("seq:" + what)
        rep.case("seq|%s|%s|%s|%r" % (fam, desc["diagram"], what, args), len(d.boxes) >= 2)
        point = pl.rational_point(rng, syms)
        try:
            if what == "subs_then_grad":
                target = d.subs(*args)
                got = entries_of(ev(gr(target, x)), len(es))
                want = diff_entries(pl.ref_subs(es, args), x)
            elif what == "grad_then_subs":
                got = entries_of(ev(gr(d, x).subs(*args)), len(es))
                want = pl.ref_subs(diff_entries(es, x), args)
            elif what == "grad_then_subs_all":
                # every symbol replaced by a number, one `subs` call after the other, on the formal
                # sum the gradient returns (its scalars still carry symbols when a phase is not affine)
                # (tensor boxes differentiate lazily — `Box.grad` is a bubble applying d/dx when it is
                # evaluated — so there the variable itself stays: replacing it first is another question)
                vals = {s_: sympy.Rational(rng.randint(-5, 5), rng.choice([2, 3, 4])) for s_ in free
                        if not (fam == "tensor" and s_ == x)}
                case["values"] = {str(k_): str(v_) for k_, v_ in vals.items()}
                g = gr(d, x)
                for s_ in sorted(vals, key=str, reverse=rng.random() < 0.5):
                    g = g.subs(s_, vals[s_])
                got = entries_of(ev(g), len(es))
                want = [sympy.sympify(e_).subs(vals) for e_ in diff_entries(es, x)]
            elif what == "recomposed":
                if len(d.boxes) < 2:
                    continue
                k = rng.randint(1, len(d.boxes) - 1)
                case["split_at"] = k
                got = entries_of(ev(gr(d[:k] >> d[k:], x)), len(es))
                want = diff_entries(es, x)
            else:
                vals = [rng.choice([0.5, 0.25, 2, -1]) for _ in free]
                case["values"] = vals
                g = gr(d.lambdify(*free)(*vals), x)
                if grad_len(g) != 0 or (g.dom, g.cod) != (d.dom, d.cod):
                    from discopy.tensor import Box, Bubble
                    if not (isinstance(d, (Box, Bubble)) and grad_len(g) is None):
                        rep.fail("closed_diagram_gradient_not_empty_sum", case, repr(g)[:200])
                else:
                    rep.count("seq_ok:" + what)
                continue
        except NotImplementedError:
            rep.count("refusal:notimpl_two_qubit_rotation")
            continue
        except Exception as exc:
            rep.fail("%s_raises:%s" % (what, type(exc).__name__), case, repr(exc)[:200])
            continue
        sig = what + "_wrong"
        if mixed and scalar_kinds(target, x)[0]:
            sig = "mixed_grad_wrong:pure_scalar"                                              # F9
        try:
            if compare(rep, sig, case, got, want, point):
                rep.count("seq_ok:" + what)
        except Exception as exc:
            rep.fail(sig + ":not_numeric", case, repr(exc)[:200])

# --------------------------------------------------------------------------- formal sums, higher-order gradients

def fam_ops(fam):
    """(evaluate, differentiate) of a family: tensor / pure (amplitudes) / default (CQ maps)."""
    mixed = fam == "default"

    def ev(x):
        return x.eval() if fam == "tensor" else x.eval(mixed=mixed)

    def gr(x, var):
        return x.grad(var, mixed=False) if fam == "pure" else x.grad(var)
    return ev, gr


def is_formal_sum(x):
    return hasattr(x, "terms")


def sum_symbols(x):
    if is_formal_sum(x):
        return set().union(*[all_symbols(t) for t in x.terms]) if x.terms else set()
    return all_symbols(x)


def sum_refusal(x, var):
    terms = x.terms if is_formal_sum(x) else [x]
    return any(documented_refusal(t, var) for t in terms)


def make_term(fam, syms, nq=2, depth=(2, 4), polyonly=False):
    """`make(structure_rng, data_rng)` for `pl.same_type_terms`."""
    def make(sr, dr):
        if fam == "tensor":
            g = pl.TensorGen(sr, syms, polyonly=polyonly, data_rng=dr)
            return g.diagram(sr.randint(1, 3))[0]
        gen = pl.CircuitGen(sr, syms, mixed=False, max_qubits=nq, rot2=(fam == "pure"), scalars=False,
                            ket=0.9, data_rng=dr)
        return gen.circuit(sr.randint(*depth))[0]
    return make


def check_sum_grad(rep, rng, syms, fam, pool, pattern, how, variables=None):
    """The gradient of a formal SUM (terms possibly repeated: the same object twice, equal but
    distinct objects) evaluates to the derivative of the evaluation of the sum -- every occurrence
    of a term counts.  Reference evaluation: the entrywise sum of the terms' own evaluations."""
    ev, gr = fam_ops(fam)
    terms = [pool[i] for i in pattern]
    repeats = len(pattern) - len({0 if i == 2 else i for i in pattern})
    desc = dict(family="sum_" + fam, pattern=pattern, built=how,
                terms={str(i): repr(pool[i])[:260] for i in sorted(set(pattern))})
    rep.count("family:sum_" + fam)
    rep.count("sum_pattern:%s" % "".join(map(str, pattern)))
    rep.count("sum_built:" + how)
    try:
        s = pl.build_sum(terms, how)
        if not is_formal_sum(s) or len(s.terms) != len(terms):
            rep.fail("sum_construction_wrong", desc, "%d terms given, result %r" % (len(terms), s))
            return
    except Exception as exc:
        rep.fail("sum_construction_raises:" + type(exc).__name__, desc, repr(exc)[:200])
        return
    try:
        per_term = {i: pl.entries(ev(pool[i])) for i in sorted(set(pattern))}
    except Exception as exc:
        rep.fail("eval_raises:" + type(exc).__name__, desc, repr(exc)[:200])
        return
    n = len(per_term[pattern[0]])
    es = [sum((sympy.sympify(per_term[i][k]) for i in pattern), sympy.Integer(0)) for k in range(n)]
    present = sorted(set().union(*[all_symbols(t) for t in terms]), key=str)
    for var in (variables or syms):
        case = dict(desc, var=str(var))
        depends = var in present
        rep.case("sum|%s|%s|%s|%s|%s" % (fam, pattern, how, desc["terms"], var), depends and repeats >= 1)
        try:
            g = gr(s, var)
        except NotImplementedError:
            if fam == "default" and sum_refusal(s, var):
                rep.count("refusal:notimpl_two_qubit_rotation")
            else:
                rep.fail("unexpected_notimpl", case, "NotImplementedError without a 2-qubit rotation in " + var.name)
            continue
        except Exception as exc:
            rep.fail("sum_grad_raises:" + type(exc).__name__, case, repr(exc)[:200])
            continue
        try:
            ge = ev(g)
        except Exception as exc:
            rep.fail("sum_grad_eval_raises:" + type(exc).__name__, case, repr(exc)[:200])
            continue
        got = pl.entries(ge) if not isinstance(ge, int) else [0] * n
        sig = "sum_grad_wrong:" + fam
        if fam == "tensor" and depends and grad_len(g) == 0:
            sig = "tensor_sum_grad_is_empty_sum"                                              # F4s
        try:
            if compare(rep, sig, dict(case, gradient_terms=grad_len(g)), got, diff_entries(es, var),
                       pl.rational_point(rng, syms)):
                rep.count("sum_grad_ok:" + fam)
                if not depends and (grad_len(g) != 0 or (g.dom, g.cod) != (s.dom, s.cod)):
                    rep.fail("independent_symbol_not_empty_sum:sum", case, repr(g)[:200])
        except Exception as exc:
            rep.fail(sig + ":not_numeric", case, repr(exc)[:200])


def check_higher_order(rep, rng, syms, fam, d, seq, kind=""):
    """d.grad(v1).grad(v2)...: the gradient of the formal sum that grad returned; after k steps it
    must evaluate to the k-th (mixed) partial derivative of d's evaluation (sympy.diff k times)."""
    from discopy.tensor import Bubble
    ev, gr = fam_ops(fam)
    desc = dict(family="higher_" + fam, kind=kind, diagram=repr(d)[:500], derivatives=[str(v) for v in seq])
    rep.count("family:higher_" + fam)
    try:
        want = pl.entries(ev(d))
    except Exception as exc:
        rep.fail("eval_raises:" + type(exc).__name__, desc, repr(exc)[:200])
        return
    n = len(want)
    g = d
    for k, var in enumerate(seq, 1):
        case = dict(desc, order=k)
        prev = g
        rep.count("higher_order:%s:%d" % (fam, k))
        rep.case("higher|%s|%s|%s|%d" % (fam, desc["diagram"], desc["derivatives"], k),
                 k >= 2 and var in sum_symbols(prev))
        try:
            g = gr(prev, var)
        except NotImplementedError:
            if fam == "default" and sum_refusal(prev, var):
                rep.count("refusal:notimpl_two_qubit_rotation")
            else:
                rep.fail("unexpected_notimpl", case, "NotImplementedError without a 2-qubit rotation in " + var.name)
            return
        except Exception as exc:
            rep.fail("higher_order_grad_raises:" + type(exc).__name__, case, repr(exc)[:200])
            return
        want = diff_entries(want, var)
        if isinstance(g, int) and is_formal_sum(prev) and not prev.terms:
            # "a diagram not depending on the symbol has the empty sum as gradient": the empty sum
            # itself gets the int 0 (python's sum() of no terms), which has no type, eval or grad
            rep.fail("grad_of_empty_sum_is_int", case, "%r.grad(%s) = %r" % (prev, var, g))    # F4e
            return
        try:
            ge = ev(g)
        except Exception as exc:
            rep.fail("higher_order_grad_eval_raises:" + type(exc).__name__, case, repr(exc)[:200])
            return
        got = pl.entries(ge) if not isinstance(ge, int) else [0] * n
        sig = "higher_order_grad_wrong:%s:order%d" % (fam, min(k, 3))
        if fam == "tensor" and k >= 2:
            if is_formal_sum(prev) and grad_len(g) == 0:
                sig = "tensor_sum_grad_is_empty_sum"                                          # F4s
            elif isinstance(prev, Bubble):
                sig = "tensor_grad_of_derivative_bubble_wrong"                                # F4s
        try:
            if not compare(rep, sig, dict(case, gradient_terms=grad_len(g)), got, want, pl.rational_point(rng, syms)):
                return                  # the later orders are consequences
        except Exception as exc:
            rep.fail(sig + ":not_numeric", case, repr(exc)[:200])
            return
        rep.count("higher_order_ok:%s:%d" % (fam, k))
        rep.count("higher_terms:%s" % min(grad_len(g) or 0, 64))


def sum_witnesses(quick):
    """Pinned instances of the region (run through `check_sum_grad` / `check_higher_order`)."""
    from discopy.quantum import Ket, Bra, Rx, Ry, Rz, CX, CRz, H
    from discopy import tensor
    from discopy.tensor import Dim
    x, y, _ = pl.symbols(True, 3)
    c = Ket(0) >> Rx(x * y) >> Rz(x ** 2 + y) >> Bra(0)
    d = Ket(0) >> Ry(2 * x - y) >> H >> Bra(1)
    c2 = Ket(0) >> Rx(x * y) >> Rz(x ** 2 + y) >> Bra(0)
    e = Ket(0, 0) >> Rx(x) @ Ry(x * y) >> CX >> CRz(2 * x + y) >> Bra(0, 1)
    q = Ket(0) >> Rx(x * y + 1)
    q2 = Ket(0) >> Rx(x) >> Rz(x * y + 1)
    f = tensor.Box("f", Dim(2), Dim(2), [x ** 2, 1, y, x * y])
    g = tensor.Box("g", Dim(2), Dim(2), [2 * x, 0, y, x ** 2 + 1])
    out = dict(
        sums=[("pure", [c, d, c2], [0, 0], "plus"), ("pure", [c, d, c2], [0, 1, 2], "sum_class"),
              ("default", [q, q >> H, Ket(0) >> Rx(x * y + 1)], [0, 2], "plus"),
              ("tensor", [f >> g, g >> f, f >> g], [0, 1, 0], "plus")],
        higher=[("pure", c, [x, x, x]), ("pure", Ket(1) >> Rx(y + 1) >> Rx(y + 1), [y, x, y]),
                ("tensor", f >> g, [x, y]), ("tensor", f, [x, x])])
    if not quick:
        out["sums"] += [("default", [q2, q2 >> H, Ket(0) >> Rx(x) >> Rz(x * y + 1)], [0, 1, 2], "builtin_sum"),
                        ("pure", [e, e, e], [0, 0, 0], "nested")]
        out["higher"] += [("pure", e, [x, x, x]), ("default", q2, [x, x, x]), ("default", q2, [x, y]),
                          ("default", Ket(0) >> Rx(2 * x + y) >> H, [x, y, x])]
    return out


def sums_plan(quick):
    """(what, family, count)."""
    if quick:
        return [("sum", "tensor", 6), ("sum", "pure", 4), ("sum", "default", 1),
                ("higher", "tensor", 4), ("higher", "pure", 3), ("higher", "default", 0)]
    return [("sum", "tensor", 40), ("sum", "pure", 30), ("sum", "default", 8),
            ("higher", "tensor", 24), ("higher", "pure", 24), ("higher", "default", 5)]


def run_sums(rep, seed, quick, syms):
    """Formal sums with repeated terms and higher-order gradients: own generator."""
    rng = random.Random(seed * 1000003 + 153)
    w = sum_witnesses(quick)
    for fam, pool, pattern, how in w["sums"]:
        rep.count("witness:sum_" + fam)
        check_sum_grad(rep, random.Random(rng.getrandbits(64)), syms, fam, pool, pattern, how, variables=syms[:2])
    for fam, d, seq in w["higher"]:
        rep.count("witness:higher_" + fam)
        check_higher_order(rep, random.Random(rng.getrandbits(64)), syms, fam, d, seq, kind="witness")
    patterns = list(pl.SUM_PATTERNS)
    for what, fam, n in sums_plan(quick):
        for j in range(n):
            r = random.Random(rng.getrandbits(64))
            if what == "sum":
                # default mode: CQ evaluation of every term of the sum and of its gradient -- 1 qubit,
                # 1-2 gates; quick: patterns of 2-3 terms
                if fam == "default":
                    make = make_term(fam, syms, nq=1, depth=(1, 2))
                    pats = [p for p in patterns if len(p) <= (3 if quick else 4)]
                else:
                    make = make_term(fam, syms, nq=2, depth=(2, 3) if quick else (2, 4))
                    pats = [p for p in patterns if len(p) <= 3] if (quick and fam == "pure") else patterns
                pool = None
                for _ in range(6):              # terms with parameters (a sum of constants is trivial)
                    pool = pl.same_type_terms(r, make)
                    if all_symbols(pool[0]):
                        break
                # quick: a pattern chosen by the seed (all of them over the seeds); thorough: all in turn
                pattern = r.choice(pats) if quick else (pats[j % len(pats)] if j < 2 * len(pats) else r.choice(pats))
                how = r.choice(pl.SUM_BUILDERS)
                dep = sorted(set().union(*[all_symbols(t) for t in pool]), key=str)
                r.shuffle(dep)
                variables = (dep + [v for v in syms if v not in dep])[:1 if (fam == "default" or quick) else 2]
                check_sum_grad(rep, r, syms, fam, pool, pattern, how, variables=variables)
            else:
                if fam == "tensor":
                    d = None
                    for _ in range(6):
                        d = make_term(fam, syms)(r, r)
                        if all_symbols(d):
                            break
                    order = r.choice([2, 2, 3])
                elif fam == "pure":
                    # 1-2 qubits, the same parametrised gate possibly repeated: third order needs
                    # >= 2 gates in the symbol for the second-order sum to contain equal terms
                    if r.random() < 0.4:
                        d, _ = pl.repeated_gate_circuit(r, syms, max_qubits=2)
                    else:
                        d = pl.CircuitGen(r, syms, mixed=False, max_qubits=2, scalars=False, ket=0.9,
                                          repeat=0.3).circuit(r.randint(2, 3 if quick else 4))[0]
                    order = r.choice([2, 3, 3])
                else:
                    # default mode on 1 qubit: 2^k (shifts) x gates^k terms, each a CQ evaluation
                    # (quick: one gate with an affine phase, 4-8 terms)
                    ngates = 1 if quick else r.choice([1, 2, 2])
                    gen = pl.CircuitGen(r, syms, mixed=False, max_qubits=1, rot2=False, scalars=False, ket=1.0)
                    d = gen.circuit(ngates, phase=gen.eg.affine if quick else None)[0]
                    order = (3 if ngates == 1 else r.choice([2, 2, 3])) if not quick else r.choice([2, 3])
                dep = sorted(all_symbols(d), key=str)
                if not dep:
                    rep.count("higher_skipped:no_symbols")
                    continue
                # mostly the same symbol again (equal mixed terms need two gates in ONE symbol)
                seq = [r.choice(dep)]
                while len(seq) < order:
                    seq.append(seq[0] if r.random() < 0.6 else r.choice(dep + [r.choice(syms)]))
                check_higher_order(rep, r, syms, fam, d, seq)


# --------------------------------------------------------------------------- witnesses of the findings

def witnesses():
    """Minimal reproducers of the known findings, run through the same checks on every run."""
    from discopy import tensor
    from discopy.tensor import Dim
    from discopy.quantum import Rz, Ket
    from discopy.quantum.gates import scalar, MixedScalar
    x, y, z = pl.symbols(True, 3)
    f = tensor.Box("f", Dim(2), Dim(2), [x, 1, y, x * y])
    g = tensor.Box("g", Dim(2), Dim(2), [2 * x, 0, 0, x + 1])

    def sq(v):
        return v ** 2
    return [
        ("F9", "default", lambda: scalar(x ** 2) @ Rz(x)),
        ("F9", "default", lambda: Ket(0) >> MixedScalar(x ** 2 + y) @ Rz(y)),
        ("F9", "default", lambda: scalar(x * y, is_mixed=True)),
        ("F9b", "tensor", lambda: (f >> g.bubble(func=sq, drawing_name="sq"), "bubble:before:box", True, False)),
        ("F9c", "tensor", lambda: ((f >> g).bubble(func=sq, drawing_name="sq"), "bubble:alone:composite", True, True)),
        ("F9e", "tensor", lambda: (tensor.Swap(Dim(2), Dim(2)) >> f @ tensor.Id(Dim(2)), "plain", False, False)),
        ("F9f", "tensor", lambda: (tensor.Box("h", Dim(1), Dim(2), [x, 1]), "plain", False, False)),
    ]


# --------------------------------------------------------------------------- model stream

def model_stream(rep, drv, rng, n_cases):
    syms = pl.symbols(True, NV)
    lines, reals, cases = [], [], []
    t0 = time.time()
    # the model transcribes tensor.Box.grad as found (no free-symbol test: the bubble term is kept);
    # once finding F9f is recorded as fixed the repaired transcription is selected
    flag = int(any(f.get("id") == "F9f" and f.get("status") == "fixed" for f in load_findings(PROP)))
    rep.extra["model_fix_flag(F9f)"] = flag
    for _ in range(n_cases):
        g = pl.TensorGen(random.Random(rng.getrandbits(64)), syms, polyonly=True, maxdim=6)
        g.repeat = 0.3
        d, spec = g.diagram(g.rng.randint(1, 3), plain_only=True)
        if any(l.get("repeated") for l in spec["layers"]):
            rep.count("model_case:repeated_box")
        tok = tok_pdiagram(spec, syms)
        vi = g.rng.randrange(NV)
        order = list(range(NV))
        g.rng.shuffle(order)
        order = order[:g.rng.randint(1, NV)]

        def real_grad(d=d, vi=vi):
            gr = d.grad(syms[vi])
            ev = gr.eval()
            n = len(pl.entries(d.eval()))
            es = pl.entries(ev) if not isinstance(ev, int) else [0] * n
            return "ok %d %s" % (len(gr.terms), " ".join([str(len(es))] + [tok_poly(e, syms) for e in es]))

        def real_jac(d=d, order=order):
            ev = d.jacobian([syms[i] for i in order]).eval()
            n = len(pl.entries(d.eval())) * len(order)
            es = pl.entries(ev) if not isinstance(ev, int) else [0] * n
            return "ok " + " ".join([str(len(es))] + [tok_poly(e, syms) for e in es])
        for line, fn in [("pgrad %d %d %s" % (flag, vi, tok), real_grad),
                         ("pjac %d %s %s" % (flag, " ".join([str(len(order))] + [str(i) for i in order]), tok),
                          real_jac)]:
            lines.append(line)
            cases.append(dict(diagram=repr(d)[:300], request=line[:400]))
            try:
                reals.append(fn())
            except Exception as exc:
                reals.append("err " + err_class(exc))
    answers = drv.ask_many(lines)
    for line, case, real, model in zip(lines, cases, reals, answers):
        stream = "model:" + line.split(" ")[0]
        rep.count(stream)
        rep.case(line, True)
        if real != model:
            rep.disagree(stream, case, real[:400], model[:400])
    rep.extra["model_stream_s"] = round(time.time() - t0, 2)
    return flag


def sum_model_stream(rep, drv, rng, n_cases, flag):
    """Formal sums (with repeated terms) of small integer-polynomial tensor diagrams and second-order
    gradients, on discopy and on the Lean model (Model/ParamSum.lean), compared exactly:
      psumgrad   (d_1 + ... + d_k).grad(x_i): number of terms, evaluation
      pgrad2     d.grad(x_i).grad(x_j):       number of terms, evaluation
    The model transcribes tensor.Sum as found (no grad of its own: the empty sum) until finding F4s
    is recorded as fixed, then the rule of circuit.Sum.grad."""
    syms = pl.symbols(True, NV)
    sflag = int(any(f.get("id") == "F4s" and f.get("status") == "fixed" for f in load_findings(PROP)))
    rep.extra["model_fix_flag(F4s)"] = sflag
    lines, reals, cases = [], [], []

    def ev_tokens(gr, n):
        ev = gr.eval()
        es = pl.entries(ev) if not isinstance(ev, int) else [0] * n
        nt = len(gr.terms) if hasattr(gr, "terms") else 1
        return "ok %d %s" % (nt, " ".join([str(len(es))] + [tok_poly(e, syms) for e in es]))
    for _ in range(n_cases):
        r = random.Random(rng.getrandbits(64))
        s0, d0, d1 = r.getrandbits(64), r.getrandbits(64), r.getrandbits(64)
        depth = r.randint(1, 2)

        def make(ds):
            g = pl.TensorGen(random.Random(s0), syms, polyonly=True, maxdim=6, data_rng=random.Random(ds))
            return g.diagram(depth, plain_only=True)
        pool = [make(d0), make(d1), make(d0)]
        pattern = r.choice(pl.SUM_PATTERNS)
        how = r.choice(pl.SUM_BUILDERS)
        vi, vj = r.randrange(NV), r.randrange(NV)
        toks = [tok_pdiagram(pool[i][1], syms) for i in pattern]
        terms = [pool[i][0] for i in pattern]
        rep.count("model_sum_pattern:%s" % "".join(map(str, pattern)))

        def real_sum(terms=terms, how=how, vi=vi):
            n = len(pl.entries(terms[0].eval()))
            return ev_tokens(pl.build_sum(terms, how).grad(syms[vi]), n)

        def real_twice(d=pool[0][0], vi=vi, vj=vj):
            n = len(pl.entries(d.eval()))
            g1 = d.grad(syms[vi])
            if not hasattr(g1, "terms"):
                # a single box: Box.grad returns the derivative bubble itself, not a sum; its gradient
                # goes through Bubble.grad and is not what the model's `polyGradTwice` transcribes
                return None
            return ev_tokens(g1.grad(syms[vj]), n)
        reqs = [("psumgrad %d %d %d %d %s" % (sflag, flag, vi, len(toks), " ".join(toks)), real_sum),
                ("pgrad2 %d %d %d %d %s" % (sflag, flag, vi, vj, toks[0]), real_twice)]
        for line, fn in reqs:
            try:
                real = fn()
            except Exception as exc:
                real = "err " + err_class(exc)
            if real is None:
                rep.count("model_pgrad2_skipped:single_box")
                continue
            lines.append(line)
            cases.append(dict(terms=[repr(t)[:200] for t in terms], pattern=pattern, built=how, request=line[:400]))
            reals.append(real)
    answers = drv.ask_many(lines)
    for line, case, real, model in zip(lines, cases, reals, answers):
        stream = "model:" + line.split(" ")[0]
        rep.count(stream)
        rep.case(line, True)
        if real != model:
            rep.disagree(stream, case, real[:400], model[:400])


def bubble_stream(rep, drv, rng, n_cases, flag, alike_groups=0):
    """Evaluation and gradient (number of terms, evaluation of the sum) of diagrams with a
    polynomial bubble: tensor.Bubble.grad (chain rule through two spiders) on discopy against the
    model's `xboxGrad` / `spiderSandwich`, compared exactly in polynomial normal form.
    alike_groups: afterwards, that many groups of 2-3 diagrams differing ONLY in the bubble's
    function, differentiated one after the other (the model is a function of the diagram; the
    library's answer must not depend on the diagrams differentiated before)."""
    syms = pl.symbols(True, NV)
    lines, reals, cases = [], [], []
    t0 = time.time()
    prepared = []
    for _ in range(n_cases):
        prepared.append((bubble_model_case(random.Random(rng.getrandbits(64)), syms), "bubble_model_case:"))
    arng = random.Random(rng.getrandbits(64) ^ 0x15a11ce)
    for _ in range(alike_groups):
        s0 = arng.getrandbits(64)
        for _ in range(arng.choice([2, 2, 3])):
            prepared.append((bubble_model_case(random.Random(s0), syms, func_rng=random.Random(arng.getrandbits(64))),
                             "bubble_model_alike:"))
    for (d, dom, xl, kind), label in prepared:
        tok = tok_xdiagram(dom, xl, syms)
        rep.count(label + kind.split(":deg")[0])

        def real_eval(d=d):
            es = pl.entries(d.eval())
            return "ok " + " ".join([str(len(es))] + [tok_poly(e, syms) for e in es])
        reqs = [("xeval %s" % tok, real_eval)]
        for vi in range(NV):
            def real_grad(d=d, vi=vi):
                gr = d.grad(syms[vi])
                ev = gr.eval()
                n = len(pl.entries(d.eval()))
                es = pl.entries(ev) if not isinstance(ev, int) else [0] * n
                # Box.grad / Bubble.grad of a one-box inside return the single term itself, not a Sum
                nt = len(gr.terms) if hasattr(gr, "terms") else 1
                return "ok %d %s" % (nt, " ".join([str(len(es))] + [tok_poly(e, syms) for e in es]))
            reqs.append(("xgrad %d %d %s" % (flag, vi, tok), real_grad))
        for line, fn in reqs:
            lines.append(line)
            cases.append(dict(diagram=str(d)[:200] + " | " + repr(d)[:300], kind=kind, request=line[:400]))
            try:
                reals.append(fn())
            except Exception as exc:
                reals.append("err " + err_class(exc))
    answers = drv.ask_many(lines)
    for line, case, real, model in zip(lines, cases, reals, answers):
        stream = "model:" + line.split(" ")[0]
        rep.count(stream)
        rep.case(line, True)
        if real != model:
            rep.disagree(stream, case, real[:400], model[:400])
    rep.extra["bubble_stream_s"] = round(time.time() - t0, 2)


# --------------------------------------------------------------------------- run

def run(tier, seed, replay=None):
    rep = Report(PROP, tier, seed)
    quick = tier == "quick"
    global JAC_KW_EVERY
    JAC_KW_EVERY = 2          # (thorough has 5-8 times as many circuits: every second one there too)
    rep.rule = ("tensor diagrams (1-4 layers, symbolic / daggered boxes, swaps, spiders, single-wire "
                "polynomial bubbles alone and inside diagrams), pure circuits (grad(mixed=False), "
                "amplitudes) and pure+mixed circuits (default parameter-shift grad, CQ maps) over "
                "Rx/Ry/Rz/CRz/CRx/CU1/scalars with affine, polynomial and non-linear phases in 3 real "
                "symbols occurring repeatedly, the SAME parametrised gate / box object occurring several "
                "times at different offsets and depths (generators re-use earlier boxes with p = 0.35; "
                "families repeat_pure / repeat_default build g .. sep .. g, g @ g, g >> CX >> g, shifted "
                "controlled rotations); every symbol of the pool differentiated (absent ones "
                "must give the empty sum); jacobians over 0-3 shuffled variables; non-trivial = the "
                "diagram depends on the symbol and has >= 2 boxes (tensor: >= 1); distinct by "
                "(diagram, symbol).  SEQUENCES (families seq_*): subs (a number, or an expression mentioning "
                "the differentiated symbol) then grad, grad then subs of the formal sum, grad of a diagram "
                "recomposed from two slices, lambdify then grad (empty sum).  HISTORIES: groups of 2-3 "
                "diagrams that look alike -- bubbles applying different polynomials to the same inside "
                "(equal repr), constant gates / scalars / box entries agreeing on 2/3/5 significant digits "
                "(3: equal gate names), independent data under the same names, the same diagram built "
                "twice -- differentiated one after another in a random order in ONE process: each gradient "
                "against sympy.diff of its own evaluation AND against the value computed for the same "
                "diagram as first call of a fresh interpreter; grad called twice gives the same sum.  "
                "FORMAL SUMS (families sum_*): 2-4 terms over two different diagrams of one type and an "
                "equal-but-distinct copy of the first (c+c, c+c', c+d+c, c+c+c, c+d+d+c, ...; built by +, "
                "Sum([...]), sum(), nested sums) in tensor / pure / default mode against sympy.diff of the "
                "entrywise sum of the terms' evaluations.  HIGHER ORDER (families higher_*): "
                "d.grad(v1).grad(v2)[.grad(v3)] (mostly the same symbol) against sympy.diff applied 2-3 times; "
                "non-trivial = order >= 2 and the previous sum depends on the symbol")
    rep.partial = [
        "sympy.diff is the reference derivative (outside the model)",
        "per-gate rules are proved symbolically in nu = exp(i pi p(x)) over a commutative ring with a "
        "derivation; the identification of sympy's exp/sin/cos with such a ring is oracle-only",
        "bubble gradients: the chain rule and the two-spider construction of Bubble.grad are proved for "
        "single-wire, un-nested bubbles with integer-polynomial functions (bubble' @ term read as a "
        "Kronecker product) and compared exactly with the model (streams xeval/xgrad); bubbles with other "
        "functions are oracle-only",
        "zx.Spider.grad is proved for the symmetric phase convention (as Rz); ZX diagrams have no "
        "evaluation in discopy 0.3.5 and are outside C15's quantifier: not exercised by the oracle",
        "state carried between calls is outside the model (a pure function of the diagram): histories are "
        "decided by the oracle, by comparison with a fresh process, and by the exact stream xgrad run on "
        "bubbles differing only in their function; subs-then-grad / grad-then-subs are proved for tensor "
        "diagrams of plain boxes over any ring homomorphism and derivation, oracle-only for circuits",
        "formal sums / higher order: grad_sum is proved for terms of any kind given the per-term rule; the "
        "executable instance and the streams psumgrad / pgrad2 are tensor diagrams of plain boxes; circuit "
        "sums (where the per-term rule is the gate rules above) are decided by the oracle",
    ]
    rep.assumptions = [
        "symbols are real (the CQ map of a rotation is not holomorphic in a complex phase)",
        "default gradients are evaluated with eval(mixed=True); pure gradients with eval(mixed=False) "
        "on pure circuits only",
        "tolerance 1e-9 relative to max(1, |entry|) at random rational points; exact comparison by "
        "sympy.simplify on tensor diagrams where cheap",
        "ClassicalGate boxes are used in default mode only (outside the quantifier; "
        "ClassicalGate.grad(x, mixed=False) raises TypeError: notes/finding_F9.md, remark)",
    ]
    child = start_history_child(seed, tier)      # works while the streams below run
    rep.lean = lean_obligations(PROP, thorough=not quick)
    rng = random.Random(seed)
    drv = Driver()
    try:
        flag = model_stream(rep, drv, random.Random(rng.getrandbits(64)), 40 if quick else 300)
        # own generator: the cases of the other families stay those of earlier runs of the same seed
        bubble_stream(rep, drv, random.Random(seed * 1000003 + 15), 14 if quick else 100, flag,
                      alike_groups=4 if quick else 30)
        sum_model_stream(rep, drv, random.Random(seed * 1000003 + 154), 20 if quick else 200, flag)
    finally:
        drv.close()
    syms = pl.symbols(True, 3)
    t0 = time.time()
    for fid, fam, mk in witnesses():
        r = random.Random(rng.getrandbits(64))
        rep.count("witness:" + fid)
        if fam == "tensor":
            d, kind, hb, comp = mk()
            check_tensor(rep, r, syms, d, kind, hb, comp)
        else:
            check_circuit(rep, r, syms, mk(), fam)
    plan = [("tensor", 30), ("bubble", 16), ("repeat_pure", 8), ("repeat_default", 2), ("pure", 10),
            ("default_pure", 3), ("default_mixed", 3)] if quick \
        else [("tensor", 160), ("bubble", 80), ("repeat_pure", 50), ("repeat_default", 16), ("pure", 60),
              ("default_pure", 28), ("default_mixed", 22)]
    walls = {"witnesses": round(time.time() - t0, 2)}
    for fam, n in plan:
        t0 = time.time()
        for _ in range(n):
            r = random.Random(rng.getrandbits(64))
            if fam in ("tensor", "bubble"):
                d, kind, hb, comp = tensor_case(r, syms, fam == "bubble")
                rep.sample(dict(family=fam, diagram=str(d)[:300]))
                check_tensor(rep, r, syms, d, kind, hb, comp)
            elif fam == "repeat_pure":
                # the SAME parametrised gate several times: every occurrence needs its own term
                c, kind = pl.repeated_gate_circuit(r, syms, max_qubits=3)
                rep.count(kind.rsplit(":", 1)[0])
                rep.sample(dict(family=fam, diagram=repr(c)[:300]))
                check_circuit(rep, r, syms, c, "pure")
            elif fam == "repeat_default":
                # CQ evaluation of the sums costs seconds per 2-qubit case inside discopy: quick = 1 qubit
                nq = 2 if (not quick and r.random() < 0.5) else 1
                c, kind = pl.repeated_gate_circuit(r, syms, two_qubit_rotations=False,
                                                   max_qubits=nq, small=True)
                rep.count(kind.rsplit(":", 1)[0])
                check_circuit(rep, r, syms, c, "default")
            elif fam == "pure":
                c, _ = pl.CircuitGen(r, syms, mixed=False, max_qubits=2, repeat=0.35).circuit(r.randint(2, 5))
                rep.sample(dict(family=fam, diagram=repr(c)[:300]))
                check_circuit(rep, r, syms, c, "pure")
            else:
                # CQ evaluation of a formal sum costs ~4^qubits per term inside discopy: keep it small
                mixed = fam == "default_mixed"
                nq = 1 if r.random() < (0.75 if quick else 0.5) else 2
                gen = pl.CircuitGen(r, syms, mixed=mixed, max_qubits=nq, rot2=r.random() < 0.3,
                                    scalars=r.random() < 0.5, bits=0.0,
                                    ket=(0.9 if quick else 0.6), repeat=0.35)
                c, _ = gen.circuit((2 if quick else r.randint(2, 3)) if nq == 2 else r.randint(2, 4))
                # quick: the jacobian (a second CQ evaluation of a sum, several seconds on 2 qubits)
                # is taken on the 1-qubit cases only
                check_circuit(rep, r, syms, c, "default", jacobian=not (quick and nq == 2))
        walls[fam] = round(time.time() - t0, 2)
    # sequences and histories: own generators (the cases above stay those of earlier runs)
    t0 = time.time()
    srng = random.Random(seed * 1000003 + 152)
    for fam, n in ([("tensor", 8), ("bubble", 3), ("pure", 3), ("default", 8)] if quick
                   else [("tensor", 80), ("bubble", 30), ("pure", 50), ("default", 10)]):
        for _ in range(n):
            r = random.Random(srng.getrandbits(64))
            if fam in ("tensor", "bubble"):
                d, kind, hb, comp = tensor_case(r, syms, fam == "bubble")
                check_grad_sequences(rep, r, syms, d, "tensor", kind)
            else:
                nq = 2 if fam == "pure" else 1
                c, _ = pl.CircuitGen(r, syms, mixed=False, max_qubits=nq, rot2=(fam == "pure"),
                                     ket=0.9).circuit(r.randint(2, 4))
                check_grad_sequences(rep, r, syms, c, fam)
    walls["sequences"] = round(time.time() - t0, 2)
    t0 = time.time()
    run_sums(rep, seed, quick, syms)
    walls["sums_and_higher_order"] = round(time.time() - t0, 2)
    t0 = time.time()
    check_histories(rep, seed, quick, child)
    walls["histories"] = round(time.time() - t0, 2)
    rep.extra["family_wall_s"] = walls
    return rep.finish()


if __name__ == "__main__":
    import sys
    if len(sys.argv) == 4 and sys.argv[1] == "--history-child":
        history_child(int(sys.argv[2]), sys.argv[3])
