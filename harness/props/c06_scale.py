"""C06 — SCALING families: structured connected diagrams whose number of normalisation passes grows
with the size, each with its normal form stated in CLOSED FORM, plus the low-stack worker.

Everything in the first part works on plain `mk` specs (lists of box dicts and integer offsets) and
never touches discopy: the closed forms, the wiring invariant, the redex predicate and the pass
counter are independent of the code under test.

Why the closed forms are the normal forms (property level, arXiv:1804.07832): a connected diagram has
exactly one member of its interchanger class without a right (resp. left) redex.  `self_check`
verifies on every generated member that the stated closed form (a) is well typed, (b) has the same
wiring as the input (every box consumes the same output ports of the same producers — boxes carry
unique names, so this is the interchanger-invariant description of the class) and (c) has no redex:
so it IS the normal form the property speaks about.  A failure of `self_check` is a harness bug and
raises AssertionError; it never produces a verdict about the library.

Run as a script (`python c06_scale.py --worker`) this file is the LOW-STACK worker: it reads cases
{family, spec, left, limit} from stdin, and calls normal_form on each with the interpreter's
recursion limit lowered to `limit`, printing one JSON answer line per case.
"""
import json
import os
import sys

X = ("a", 0)
Y = ("b", 0)


def bx(name, dom, cod):
    return dict(kind="g", name=name, dom=list(dom), cod=list(cod), dagger=False, data=None)


# ------------------------------------------------------------------ independent spec-level tools

def spec_wf(spec):
    """The scan reaches the codomain and every box finds its domain at its offset."""
    _, dom, cod, boxes, offsets = spec
    scan = list(dom)
    if len(boxes) != len(offsets):
        return False
    for b, o in zip(boxes, offsets):
        if not 0 <= o <= len(scan) - len(b["dom"]) or scan[o:o + len(b["dom"])] != b["dom"]:
            return False
        scan = scan[:o] + b["cod"] + scan[o + len(b["dom"]):]
    return scan == list(cod)


def wiring(names, doms, cods, offsets, n_in):
    """Interchanger-invariant description for uniquely named boxes: box name -> the (producer,
    port) labels of the wires it consumes, and the labels reaching the codomain."""
    scan = [("in", p) for p in range(n_in)]
    sig = {}
    for nm, kd, kc, o in zip(names, doms, cods, offsets):
        sig[nm] = tuple(scan[o:o + kd])
        scan = scan[:o] + [(nm, q) for q in range(kc)] + scan[o + kd:]
    return sig, tuple(scan)


def spec_wiring(spec):
    _, dom, cod, boxes, offsets = spec
    return wiring([b["name"] for b in boxes], [len(b["dom"]) for b in boxes],
                  [len(b["cod"]) for b in boxes], offsets, len(dom))


def real_wiring(d):
    return wiring([b.name for b in d.boxes], [len(b.dom) for b in d.boxes],
                  [len(b.cod) for b in d.boxes], list(d.offsets), len(d.dom))


def is_redex(left, dom1, cod0, off0, off1):
    """Pair (box0 above box1): with the right preference a redex when box1 lies entirely to the
    left of box0; with the left preference when box1 lies entirely to the right of box0."""
    return off1 >= off0 + cod0 if left else off0 >= off1 + dom1


def spec_terminal(spec, left):
    _, _, _, boxes, offsets = spec
    return not any(is_redex(left, len(boxes[i + 1]["dom"]), len(boxes[i]["cod"]),
                            offsets[i], offsets[i + 1]) for i in range(len(boxes) - 1))


def real_terminal(d, left):
    return not any(is_redex(left, len(d.boxes[i + 1].dom), len(d.boxes[i].cod),
                            d.offsets[i], d.offsets[i + 1]) for i in range(len(d.boxes) - 1))


def spec_passes(spec, left, cap=10 ** 6):
    """(passes, steps) of the sweep 'exchange every redex met going down, repeat until a sweep
    exchanges nothing' on integer lists.  Used ONLY for statistics and for choosing sizes and
    recursion limits — never as an oracle."""
    _, _, _, boxes, offsets = spec
    B = [(len(b["dom"]), len(b["cod"])) for b in boxes]
    O = list(offsets)
    passes = steps = 0
    while passes < cap:
        moved = False
        for i in range(len(B) - 1):
            (d0, c0), (d1, c1) = B[i], B[i + 1]
            o0, o1 = O[i], O[i + 1]
            if left and o1 >= o0 + c0:
                B[i], B[i + 1], O[i], O[i + 1] = B[i + 1], B[i], o1 - c0 + d0, o0
                moved = True
                steps += 1
            elif not left and o0 >= o1 + d1:
                B[i], B[i + 1], O[i], O[i + 1] = B[i + 1], B[i], o1, o0 - d1 + c1
                moved = True
                steps += 1
        passes += 1
        if not moved:
            break
    return passes, steps


def spec_walk(rng, spec, steps):
    """Random legal adjacent exchanges on the spec: another member of the interchanger class."""
    _, dom, cod, boxes, offsets = spec
    boxes, offsets = list(boxes), list(offsets)
    n = len(boxes)
    for _ in range(steps):
        if n < 2:
            break
        i = rng.randrange(n - 1)
        b0, b1, o0, o1 = boxes[i], boxes[i + 1], offsets[i], offsets[i + 1]
        if o1 >= o0 + len(b0["cod"]):            # box0 left of box1
            boxes[i], boxes[i + 1] = b1, b0
            offsets[i], offsets[i + 1] = o1 - len(b0["cod"]) + len(b0["dom"]), o0
        elif o0 >= o1 + len(b1["dom"]):          # box0 right of box1
            boxes[i], boxes[i + 1] = b1, b0
            offsets[i], offsets[i + 1] = o1, o0 - len(b1["dom"]) + len(b1["cod"])
    return ("mk", list(dom), list(cod), boxes, offsets)


def mirror(spec):
    """Left-right mirror image: exchanges the roles of the two preferences."""
    _, dom, cod, boxes, offsets = spec
    width = len(dom)
    nb, no = [], []
    for b, o in zip(boxes, offsets):
        nb.append(bx(b["name"], reversed(b["dom"]), reversed(b["cod"])))
        no.append(width - o - len(b["dom"]))
        width += len(b["cod"]) - len(b["dom"])
    return ("mk", list(reversed(dom)), list(reversed(cod)), nb, no)


# ------------------------------------------------------------------ families with closed forms

def spiral(n, unique=True):
    """test/test_monoidal.py `build_spiral`: the worst case of arXiv:1804.07832; 2n+2 boxes, the
    right normal form needs 2n^2+1 passes and ~n^3 exchanges; it is already left-normal."""
    nm = (lambda s, i: "%s%d" % (s, i)) if unique else (lambda s, i: s)
    boxes, offsets = [bx("unit", [], [X])], [0]
    for i in range(n):
        boxes.append(bx(nm("cap", i), [], [X, X]))
        offsets.append(i)
    boxes.append(bx("counit", [X], []))
    offsets.append(n)
    for i in range(n):
        boxes.append(bx(nm("cup", i), [X, X], []))
        offsets.append(n - i - 1)
    return ("mk", [], [], boxes, offsets)


def spiral_right_nf(n, unique=True):
    """All caps nested first (offsets 0..n-1; the LAST cap of the spiral outermost), the unit in the
    middle (offset n), the cups closing from the inside out (offsets n-1..0; the last cup of the
    spiral first), the counit last."""
    nm = (lambda s, i: "%s%d" % (s, i)) if unique else (lambda s, i: s)
    boxes = [bx(nm("cap", n - 1 - i), [], [X, X]) for i in range(n)] + [bx("unit", [], [X])] \
        + [bx(nm("cup", n - 1 - i), [X, X], []) for i in range(n)] + [bx("counit", [X], [])]
    offsets = list(range(n)) + [n] + list(range(n - 1, -1, -1)) + [0]
    return ("mk", [], [], boxes, offsets)


def spiral_member(n, mirrored, unique=True):
    base, rnf = spiral(n, unique), spiral_right_nf(n, unique)
    if mirrored:
        return dict(family="mirror-spiral", size=n, unique=unique, spec=mirror(base),
                    nf={True: mirror(rnf), False: mirror(base)})
    return dict(family="spiral", size=n, unique=unique, spec=base, nf={False: rnf, True: base})


def branches_build(m, seqs, order, src, snk):
    """m parallel branches, branch b being a sequence of boxes each consuming the WHOLE current
    type of its branch (so the boxes of one branch are chained and never commute, boxes of
    different branches always do); `order` interleaves them; a source box above fans out the m
    branches and/or a sink below joins them (at least one of the two: connected)."""
    types = [[X] for _ in range(m)]
    boxes, offsets = [], []
    dom = []
    if src:
        boxes.append(bx("src", [], [X] * m))
        offsets.append(0)
    else:
        dom = [X] * m
    nxt = [0] * m
    for b in order:
        cod = seqs[b][nxt[b]]
        boxes.append(bx("n%d_%d" % (b, nxt[b]), types[b], cod))
        offsets.append(sum(len(t) for t in types[:b]))
        types[b] = list(cod)
        nxt[b] += 1
    scan = sum(types, [])
    cod = scan
    if snk:
        boxes.append(bx("snk", scan, []))
        offsets.append(0)
        cod = []
    return ("mk", dom, cod, boxes, offsets)


def branches_member(rng, m, lens, shape, maxw=3, src=True, snk=True):
    """shape: 'worst-right' (blocks in descending branch order: every box of a lower branch has to
    climb over all the higher ones), 'worst-left' (ascending blocks), 'bubble-right' / 'bubble-left'
    (one box below a long chain), 'shuffle'.
    Closed forms: the right normal form is the stable sort by ascending branch (a pair is a right
    redex iff the lower box lies on a branch to the left), the left normal form by descending."""
    seqs = [[[rng.choice([X, Y]) for _ in range(rng.randint(1, maxw))] for _ in range(k)]
            for k in lens]
    blocks = [[b] * lens[b] for b in range(m)]
    if shape in ("worst-right", "bubble-right"):
        order = sum(reversed(blocks), [])
    elif shape in ("worst-left", "bubble-left"):
        order = sum(blocks, [])
    else:
        order = sum(blocks, [])
        rng.shuffle(order)
    asc = sorted(order)
    desc = sorted(order, reverse=True)
    return dict(family="branches:" + shape, size=len(order), unique=True,
                spec=branches_build(m, seqs, order, src, snk),
                nf={False: branches_build(m, seqs, asc, src, snk),
                    True: branches_build(m, seqs, desc, src, snk)})


def self_check(member):
    """The closed forms are what the property calls the normal form (see module docstring)."""
    spec = member["spec"]
    assert spec_wf(spec), ("ill-typed member", member["family"], member["size"])
    for left in (False, True):
        nf = member["nf"][left]
        assert spec_wf(nf), ("ill-typed closed form", member["family"], member["size"], left)
        assert spec_terminal(nf, left), ("closed form has a redex", member["family"], left)
        assert sorted(b["name"] for b in nf[3]) == sorted(b["name"] for b in spec[3])
        if member["unique"]:
            assert spec_wiring(nf) == spec_wiring(spec), \
                ("closed form is not in the class", member["family"], member["size"], left)


# ------------------------------------------------------------------ low-stack worker

def _worker():
    here = os.path.dirname(os.path.abspath(__file__))
    sys.path.insert(0, os.path.dirname(here))
    from common import ser_diagram, err_class
    from core import Family
    fams = {}
    for raw in sys.stdin:
        raw = raw.strip()
        if not raw:
            continue
        case = json.loads(raw)
        name = case["family"]
        fam = fams.setdefault(name, Family(name))
        _, dom, cod, boxes, offsets = case["spec"]
        tup = lambda t: [tuple(o) for o in t]
        spec = ("mk", tup(dom), tup(cod),
                [dict(b, dom=tup(b["dom"]), cod=tup(b["cod"])) for b in boxes], offsets)
        d = fam.run(spec)
        cls = fam.m.Diagram
        old = sys.getrecursionlimit()
        nf = exc = None
        try:
            sys.setrecursionlimit(case["limit"])
            try:
                nf = cls.normal_form(d, left=case["left"])
            finally:
                sys.setrecursionlimit(old)
        except BaseException as e:      # noqa: the class is the observation
            exc = e
        if exc is not None:
            ans = dict(status="err", cls=err_class(exc), msg=repr(exc)[:160])
        else:
            ans = dict(status="ok", nf=ser_diagram(nf))
        sys.stdout.write(json.dumps(ans) + "\n")
        sys.stdout.flush()


def run_low_stack(cases, timeout):
    """cases: list of dict(family, spec, left, limit). Returns a list of answers (None = the
    worker produced no answer for that case) and the worker's stderr tail."""
    import subprocess
    payload = "".join(json.dumps(c) + "\n" for c in cases)
    try:
        p = subprocess.run([sys.executable, os.path.abspath(__file__), "--worker"], input=payload,
                           capture_output=True, text=True, timeout=timeout)
        out, err = p.stdout, p.stderr
    except subprocess.TimeoutExpired as e:
        out = e.stdout or ""
        out = out.decode() if isinstance(out, bytes) else out
        err = "timeout after %ss" % timeout
    answers = []
    for line in out.splitlines():
        try:
            answers.append(json.loads(line))
        except ValueError:
            break
    answers += [None] * (len(cases) - len(answers))
    return answers[:len(cases)], err[-400:]


if __name__ == "__main__":
    if "--worker" in sys.argv:
        _worker()
