"""C06 — the CALLING CONVENTIONS of normal_form and the DISCONNECTED family.

Two regions of the input space that the random / scaling streams of c06.py never visited:

(1) `normal_form` as a METHOD of the diagram classes that inherit it (monoidal.Diagram,
    rigid.Diagram, tensor.Diagram, quantum Circuit, zx.Diagram) with its documented keywords:
    `normalizer=` (monoidal.Diagram.normalize, the class's own normalize, functools.partial with
    left=True/False baked in, a lambda, a RECORDING wrapper, a STEP-BOUNDED wrapper, None, given
    positionally) and `left=`.  The oracle is the property's: asked for the MONOIDAL normal form,
    the result has the input's boxes (interchanges alone), is the last diagram of the trace of the
    normalizer that was GIVEN (a recording normalizer must be called, with the receiver, and
    its last yield returned), and is a fixed point of that normalizer.

(2) DISCONNECTED diagrams, generated systematically (scalars, closed loops from states and
    effects on separate wires, nested and side by side, several independent connected components,
    Eckmann-Hilton shapes, each also after a random walk of legal exchanges so that the input lies
    on a TAIL before the cycle).  The property says non-termination is REPORTED as
    NotImplementedError: within a step budget (step-bounded normalizer) and a time budget (interval
    timer around the plain call) normal_form must return a fixed point or raise
    NotImplementedError; anything else is the failure `nontermination_not_reported`.

Nothing here decides what the normal form IS from the implementation: the reference trace is read
from the `normalize` generator (whose every step c06.py checks against the model's step relation)
and repeats are found with the harness's own table of (boxes, offsets) keys.
"""
import itertools
import random
import signal
import threading
from functools import partial

from common import ser_diagram, err_class, wf_failure
from core import Family, tok_expr
from props import c06_scale as sc

GUARD_S = 6.0          # wall-clock budget of one guarded library call (they take milliseconds)


class Hang(BaseException):
    """Raised by the interval timer inside a library call that does not come back."""


class GaveUp(Exception):
    """Raised by the step-bounded normalizer when its budget of rewrite steps is used up."""


def guarded(fn, seconds=GUARD_S):
    """Run fn() under a wall-clock budget (main thread only; otherwise unguarded)."""
    if threading.current_thread() is not threading.main_thread():
        return fn()

    def on_alarm(signum, frame):
        raise Hang()
    old = signal.signal(signal.SIGALRM, on_alarm)
    signal.setitimer(signal.ITIMER_REAL, seconds)
    try:
        return fn()
    finally:
        signal.setitimer(signal.ITIMER_REAL, 0)
        signal.signal(signal.SIGALRM, old)


HANGS = [0]            # calls that ran into the wall-clock budget so far (this run)
MAX_HANGS = 3          # after that many, calls known to be at risk are skipped, not waited for


def outcome(fn, seconds=GUARD_S, risky=False):
    """('ok', diagram) | ('notimpl',) | ('gaveup',) | ('hang',) | ('exc', class, text) |
    ('skipped',): a `risky` call (its trace is known not to end) after MAX_HANGS hangs."""
    if risky and HANGS[0] >= MAX_HANGS:
        return ("skipped",)
    try:
        return ("ok", guarded(fn, seconds))
    except NotImplementedError:
        return ("notimpl",)
    except GaveUp:
        return ("gaveup",)
    except Hang:
        HANGS[0] += 1
        return ("hang",)
    except Exception as exc:       # noqa: the class is the observation
        return ("exc", err_class(exc), repr(exc)[:200])


def key(d):
    """Plain-data identity of a diagram: boundary sizes, box texts, offsets."""
    return (len(d.dom), len(d.cod), tuple(map(repr, d.boxes)), tuple(int(o) for o in d.offsets))


def step_limit(n):
    return 5 * (n + 1) ** 3 + 50


def read_trace(gen, limit):
    """Read a normalizer's generator with the harness's own table of seen diagrams.
    Returns (steps, repeat_at, finished): `repeat_at` = index of the first yield equal to an
    earlier yield (reading stops there), `finished` = the generator ended (no repeat before)."""
    seen, steps = {}, []
    for k, s in enumerate(gen):
        ky = key(s)
        steps.append(s)
        if ky in seen:
            return steps, k, False
        seen[ky] = k
        if k + 1 >= limit:
            return steps, None, False
    return steps, None, True


def is_connected_lists(n_in, doms, cods, offsets):
    """All boxes connected to one another through wires (the boundary does not connect)."""
    n = len(doms)
    if n <= 1:
        return True
    scan = [None] * n_in
    parent = list(range(n))

    def find(k):
        while parent[k] != k:
            parent[k] = parent[parent[k]]
            k = parent[k]
        return k
    for k, (a, c, o) in enumerate(zip(doms, cods, offsets)):
        for p in scan[o:o + a]:
            if p is not None:
                parent[find(k)] = find(p)
        scan = scan[:o] + [k] * c + scan[o + a:]
    return len({find(k) for k in range(n)}) == 1


def real_connected(d):
    return is_connected_lists(len(d.dom), [len(b.dom) for b in d.boxes],
                              [len(b.cod) for b in d.boxes], list(d.offsets))


def spec_connected(spec):
    _, dom, _, boxes, offsets = spec
    return is_connected_lists(len(dom), [len(b["dom"]) for b in boxes],
                              [len(b["cod"]) for b in boxes], list(offsets))


# ------------------------------------------------------------------ receivers ("kits")

class Kit:
    """One diagram class with a supply of its own boxes.  `box(rng, dom)` returns a box of the
    class with the given domain type (or None), `snake(rng, t)` a (cap, cup, left_snake) triple
    yankable on a wire of type t (or None)."""

    def __init__(self, name, cls, empty, atoms, box, snake, make=None, grow=None, free=False,
                 ev=None):
        self.name, self.cls, self.empty, self.atoms = name, cls, empty, atoms
        self.box, self.snake = box, snake
        # `make(dom, cod, boxes, offsets)`: the class's constructor where its signature differs;
        # `grow(rng, n_boxes, connected)`: the kit's own generator of (dom, cod, boxes, offsets);
        # `free`: boxes of classes the library's `==`/dagger cannot be trusted on (well-typedness is
        # then read with recvlib.wf_failure_any); `ev(d)`: the class's own evaluation, or None
        self.make = make if make is not None else cls
        self.grow, self.free, self.ev = grow, free, ev

    def ty(self, wires):
        t = self.empty
        for w in wires:
            t = t @ w
        return t


def make_kits():
    from discopy import monoidal, rigid, tensor
    from discopy.rigid import Cup, Cap
    from discopy.quantum import zx, gates
    from discopy.quantum.circuit import Circuit, qubit
    from discopy.grammar.pregroup import Word
    kits = []

    # -- monoidal: boxes made to measure for the domain found on the wires
    mx, my = monoidal.Ty('x'), monoidal.Ty('y')

    def free_box(Box, atoms, empty):
        def make(rng, dom):
            cod = empty
            for _ in range(rng.choice([0, 1, 1, 1, 2, 2])):
                cod = cod @ rng.choice(atoms)
            return Box("%s%d%d" % (rng.choice("fg"), len(dom), len(cod)), dom, cod)
        return make
    kits.append(Kit("monoidal", monoidal.Diagram, monoidal.Ty(), [mx, my],
                    free_box(monoidal.Box, [mx, my], monoidal.Ty()), lambda rng, t: None))

    # -- rigid: the same plus words, cups, caps and yankable snakes
    n, s = rigid.Ty('n'), rigid.Ty('s')
    ratoms = [n, n, s, n.r, n.l]
    rfree = free_box(rigid.Box, ratoms, rigid.Ty())

    def rigid_box(rng, dom):
        if len(dom) == 0 and rng.random() < 0.3:
            t = rng.choice([n, s])
            return rng.choice([Cap(t, t.l), Cap(t.r, t), Word("w", t)])
        if len(dom) == 2 and (dom[:1].r == dom[1:] or dom[:1] == dom[1:].r):
            if rng.random() < 0.6:
                return Cup(dom[:1], dom[1:])
        return rfree(rng, dom)

    def rigid_snake(rng, t):
        if rng.random() < 0.5:
            return Cap(t.r, t), Cup(t, t.r), True        # Id(t) @ Cap >> Cup @ Id(t)
        return Cap(t, t.l), Cup(t.l, t), False           # Cap @ Id(t) >> Id(t) @ Cup
    kits.append(Kit("rigid", rigid.Diagram, rigid.Ty(), ratoms, rigid_box, rigid_snake))

    # -- one self-adjoint wire type: boxes from a table indexed by (inputs, outputs)
    def table_box(table):
        def make(rng, dom):
            rows = [b for (a, _), bs in sorted(table.items()) if a == len(dom) for b in bs]
            return rng.choice(rows) if rows else None
        return make

    def self_snake(t):
        return lambda rng, _t: (Cap(t, t), Cup(t, t), rng.random() < 0.5)

    D, one = tensor.Dim(2), tensor.Dim(1)
    TB = tensor.Box
    ttable = {
        (0, 0): [TB('s', one, one, [2])],
        (0, 1): [TB('u', one, D, [1, 0]), TB('v', one, D, [1, 1])],
        (1, 0): [TB('e', D, one, [0, 1])],
        (1, 1): [TB('f', D, D, [0, 1, 1, 0]), TB('g', D, D, [1, 0, 0, 2])],
        (1, 2): [TB('h', D, D @ D, [1, 0, 0, 0, 0, 0, 0, 1])],
        (2, 1): [TB('m', D @ D, D, [1, 0, 0, 0, 0, 0, 0, 1])],
        (0, 2): [Cap(D, D), TB('c', one, D @ D, [1, 0, 0, 1])],
        (2, 0): [Cup(D, D), TB('k', D @ D, one, [1, 0, 0, 1])],
    }
    kits.append(Kit("tensor", tensor.Diagram, one, [D], table_box(ttable), self_snake(D)))

    ctable = {
        (0, 0): [gates.scalar(0.5), gates.sqrt(2)],
        (0, 1): [gates.Ket(0), gates.Ket(1)],
        (1, 0): [gates.Bra(0), gates.Bra(1)],
        (1, 1): [gates.H, gates.X, gates.Z, gates.Rz(0.25), gates.T],
        (2, 2): [gates.CX, gates.CZ],
        (0, 2): [Cap(qubit, qubit), gates.Ket(0, 1)],
        (2, 0): [Cup(qubit, qubit), gates.Bra(1, 0)],
    }
    kits.append(Kit("circuit", Circuit, qubit[:0], [qubit], table_box(ctable), self_snake(qubit)))

    P = zx.PRO(1)
    ztable = {
        (0, 0): [zx.scalar(0.5)],
        (0, 1): [zx.Z(0, 1), zx.X(0, 1, 0.5)],
        (1, 0): [zx.Z(1, 0), zx.X(1, 0, 0.5)],
        (1, 1): [zx.Z(1, 1, 0.25), zx.X(1, 1, 0.5), zx.Had()],
        (1, 2): [zx.Z(1, 2), zx.X(1, 2)],
        (2, 1): [zx.Z(2, 1, 0.5), zx.X(2, 1)],
        (0, 2): [zx.Z(0, 2), Cap(P, P)],
        (2, 0): [zx.X(2, 0), Cup(P, P)],
        (2, 2): [zx.Z(2, 2)],
    }
    kits.append(Kit("zx", zx.Diagram, zx.PRO(0), [P], table_box(ztable), self_snake(P)))
    kits.extend(make_undaggerable_kits(free_box, table_box))
    return kits


def make_undaggerable_kits(free_box, table_box):
    """Receivers whose boxes have NO usable dagger (box.dagger() raises, or hands back a box that
    lost attributes): categorial-grammar derivations (biclosed FA / BA / FC / BC / Curry boxes),
    diagrams of Python functions (cartesian), diagrams with Bubbles, boxes of user subclasses with
    their own constructor, plain boxes carrying drawing attributes.  The monoidal normal form only
    moves boxes: it must exist for them exactly as for plain boxes."""
    from discopy import monoidal, biclosed, cartesian
    kits = []
    no_snake = lambda rng, t: None

    # -- biclosed: derivations grown top-down from a goal type, words at the leaves
    n, s = biclosed.Ty('n'), biclosed.Ty('s')
    BB = biclosed.Box

    def derivation(rng, goal, depth, count):
        """A diagram Ty() -> goal: a word, or two sub-derivations joined by an application /
        composition rule, or a curried box applied to one sub-derivation."""
        r = rng.random()
        if depth <= 0 or r < 0.25:
            count[0] += 1
            return BB("w%d" % rng.randint(0, 3), biclosed.Ty(), goal)
        a = rng.choice([n, s, n, n >> s, s << n])
        if r < 0.5:         # forward application: (goal << a) @ a
            return derivation(rng, goal << a, depth - 1, count) @ derivation(rng, a, depth - 1, count) \
                >> biclosed.FA(goal << a)
        if r < 0.75:        # backward application: a @ (a >> goal)
            return derivation(rng, a, depth - 1, count) @ derivation(rng, a >> goal, depth - 1, count) \
                >> biclosed.BA(a >> goal)
        if r < 0.83 and isinstance(goal, biclosed.Over):     # forward composition
            return derivation(rng, goal.left << a, depth - 1, count) \
                @ derivation(rng, a << goal.right, depth - 1, count) \
                >> biclosed.FC(goal.left << a, a << goal.right)
        if r < 0.9 and isinstance(goal, biclosed.Under):     # backward composition
            return derivation(rng, goal.left >> a, depth - 1, count) \
                @ derivation(rng, a >> goal.right, depth - 1, count) \
                >> biclosed.BC(goal.left >> a, a >> goal.right)
        if isinstance(goal, biclosed.Over):                  # a curried box below one derivation
            return derivation(rng, a, depth - 1, count) >> biclosed.Curry(BB("f", a @ goal.right, goal.left))
        return derivation(rng, a, depth - 1, count) >> BB("g%d" % rng.randint(0, 1), a, goal)

    def biclosed_grow(rng, n_boxes, connected):
        depth = 1 if n_boxes <= 3 else 2 if n_boxes <= 5 else 3
        goals = [s, s, n, s << n, n >> s]
        d = derivation(rng, rng.choice(goals), depth, [0])
        if not connected:                                    # two sentences side by side
            d = d @ derivation(rng, rng.choice(goals), 1, [0])
        if rng.random() < 0.4 and len(d.cod) == 1:           # something below the root
            d = d >> BB("h", d.cod, rng.choice([n, s, biclosed.Ty()]))
        return [d.dom[i:i + 1] for i in range(len(d.dom))], \
            [d.cod[i:i + 1] for i in range(len(d.cod))], list(d.boxes), list(d.offsets)
    kits.append(Kit("biclosed", biclosed.Diagram, biclosed.Ty(), [n, s], None, no_snake,
                    grow=biclosed_grow, free=True))

    # -- cartesian: diagrams of Python functions on integers
    CB = cartesian.Box
    ftable = {
        (0, 1): [CB('one', 0, 1, lambda: 1), CB('two', 0, 1, lambda: 2)],
        (1, 0): [CB('del', 1, 0, lambda x: ())],
        (1, 1): [CB('succ', 1, 1, lambda x: x + 1), CB('dbl', 1, 1, lambda x: 2 * x)],
        (1, 2): [CB('dup', 1, 2, lambda x: (x, x))],
        (2, 1): [CB('add', 2, 1, lambda x, y: x + y), CB('sub', 2, 1, lambda x, y: x - y)],
        (2, 2): [CB('swp', 2, 2, lambda x, y: (y, x))],
    }

    def call(d):
        return d(*range(3, 3 + len(d.dom)))
    kits.append(Kit("cartesian", cartesian.Diagram, cartesian.PRO(0), [cartesian.PRO(1)],
                    table_box(ftable), no_snake, free=True, ev=call,
                    make=lambda dom, cod, boxes, offsets: cartesian.Diagram(
                        len(dom), len(cod), boxes, offsets)))

    # -- monoidal diagrams some of whose boxes are bubbles (a unary operator around a diagram)
    mx, my = monoidal.Ty('x'), monoidal.Ty('y')
    mfree = free_box(monoidal.Box, [mx, my], monoidal.Ty())

    def bubble_box(rng, dom):
        if rng.random() < 0.45:
            inside = mfree(rng, dom)
            if rng.random() < 0.4:
                inside = inside >> mfree(rng, inside.cod)
            if rng.random() < 0.3:      # a bubble with another boundary than its inside
                return monoidal.Bubble(monoidal.Box('in', mx, my), dom=dom, cod=inside.cod)
            return monoidal.Bubble(inside)
        return mfree(rng, dom)
    kits.append(Kit("bubbles", monoidal.Diagram, monoidal.Ty(), [mx, my], bubble_box, no_snake,
                    free=True))

    # -- boxes of a user subclass with its own constructor (type(box)(name=..) is not a call of it)
    class Spider(monoidal.Box):
        def __init__(self, n_in, n_out, label):
            self.label = label
            super().__init__("Spider(%d, %d, %r)" % (n_in, n_out, label), mx ** n_in, mx ** n_out)

        def __repr__(self):
            return self.name

    def spider_box(rng, dom):
        return Spider(len(dom), rng.choice([0, 1, 1, 1, 2, 2]), rng.choice("abc"))
    kits.append(Kit("user-subclass", monoidal.Diagram, monoidal.Ty(), [mx], spider_box, no_snake,
                    free=True))

    # -- plain boxes that carry the documented drawing attributes
    def attr_box(rng, dom):
        cod = monoidal.Ty()
        for _ in range(rng.choice([0, 1, 1, 1, 2, 2])):
            cod = cod @ rng.choice([mx, my])
        params = {}
        for key, values in (("color", ["red", "blue", "green"]), ("draw_as_spider", [True]),
                            ("shape", ["circle", "rectangle"]), ("drawing_name", ["", "F"]),
                            ("tikzstyle_name", ["mystyle"]), ("draw_as_wires", [True])):
            if rng.random() < 0.4:
                params[key] = rng.choice(values)
        return monoidal.Box("%s%d%d" % (rng.choice("fg"), len(dom), len(cod)), dom, cod, **params)
    kits.append(Kit("drawing-attributes", monoidal.Diagram, monoidal.Ty(), [mx, my], attr_box,
                    no_snake))
    return kits


def attr_view(box):
    """What an object carries besides its class: its attribute table as plain text."""
    try:
        return sorted((k, repr(v)) for k, v in vars(box).items())
    except Exception as exc:
        return "unreadable: %r" % (exc,)


def foreign_boxes(result, receiver):
    """Boxes of `result` that are not boxes of `receiver`: each must be matched (as a multiset) by
    the very same object, or by an indistinguishable copy - same class, same text, same attribute
    table.  Returns the list of unmatched result boxes."""
    pool = list(receiver.boxes)
    rest = []
    for b in result.boxes:
        k = next((k for k, a in enumerate(pool) if a is b), None)
        if k is None:
            rest.append(b)
        else:
            pool.pop(k)
    out = []
    for b in rest:
        k = next((k for k, a in enumerate(pool) if type(a) is type(b) and repr(a) == repr(b)
                  and attr_view(a) == attr_view(b)), None)
        if k is None:
            out.append(b)
        else:
            pool.pop(k)
    return out


def grow_lists(kit, rng, n_boxes, connected, snakes):
    """(dom wires, cod wires, boxes, offsets): grown layer by layer from the kit's own boxes.
    `connected`: every box after the first consumes a wire produced by an earlier box.
    `snakes`: number of yankable cap/cup pairs inserted on the way."""
    scan = [rng.choice(kit.atoms) for _ in range(rng.choice([0, 0, 1, 2]))]
    dom = list(scan)
    prod = [None] * len(scan)
    boxes, offsets = [], []

    def put(box, off):
        k = len(box.dom)
        boxes.append(box)
        offsets.append(off)
        scan[off:off + k] = [box.cod[i:i + 1] for i in range(len(box.cod))]
        prod[off:off + k] = [len(boxes) - 1] * len(box.cod)

    snake_at = set(rng.sample(range(n_boxes), min(snakes, n_boxes)))
    for step in range(n_boxes):
        if step in snake_at and scan:
            cands = [j for j in range(len(scan)) if not connected or not boxes or prod[j] is not None]
            if cands:
                j = rng.choice(cands)
                trio = kit.snake(rng, scan[j])
                if trio is not None:
                    cap, cup, left_snake = trio
                    if left_snake:
                        put(cap, j + 1)
                        put(cup, j)
                    else:
                        put(cap, j)
                        put(cup, j + 1)
                    continue
        for _ in range(8):          # a few attempts to find a box that fits
            k = rng.choice([0, 1, 1, 1, 2, 2])
            if connected and boxes:
                k = max(k, 1)
            if k > len(scan):
                continue
            offs = [o for o in range(len(scan) - k + 1)
                    if not (connected and boxes) or any(p is not None for p in prod[o:o + k])]
            if not offs or len(scan) - k > 5:
                continue
            off = rng.choice(offs)
            box = kit.box(rng, kit.ty(scan[off:off + k]))
            if box is None or len(scan) - k + len(box.cod) > 6:
                continue
            put(box, off)
            break
    return dom, list(scan), boxes, offsets


def walk_lists(rng, boxes, offsets, steps):
    """Random legal adjacent exchanges on (boxes, offsets): another member of the class."""
    boxes, offsets = list(boxes), list(offsets)
    n = len(boxes)
    for _ in range(steps):
        if n < 2:
            break
        i = rng.randrange(n - 1)
        b0, b1, o0, o1 = boxes[i], boxes[i + 1], offsets[i], offsets[i + 1]
        if o1 >= o0 + len(b0.cod):
            boxes[i], boxes[i + 1] = b1, b0
            offsets[i], offsets[i + 1] = o1 - len(b0.cod) + len(b0.dom), o0
        elif o0 >= o1 + len(b1.dom):
            boxes[i], boxes[i + 1] = b1, b0
            offsets[i], offsets[i + 1] = o1, o0 - len(b1.dom) + len(b1.cod)
    return boxes, offsets


def abstract_spec(d, names):
    """The diagram as a plain `mk` spec over generic boxes named after their text: what the
    MONOIDAL normal form sees (cups, caps, gates, spiders are all just boxes with a type)."""
    def ob(x):
        return (str(getattr(x, "name", x)), int(getattr(x, "z", 0) or 0))

    def ty(t):
        return [ob(x) for x in t.objects] if hasattr(t, "objects") else [ob(x) for x in t]

    def bx(b):
        nm = names.setdefault(repr(b), "b%d" % len(names))
        return dict(kind="g", name=nm, dom=ty(b.dom), cod=ty(b.cod), dagger=False, data=None)
    return ("mk", ty(d.dom), ty(d.cod), [bx(b) for b in d.boxes], [int(o) for o in d.offsets])


# ------------------------------------------------------------------ stream 1: conventions

def recording(base, log):
    """A normalizer that records how it is called and what it hands out."""
    def normalizer(diagram, **params):
        log["calls"].append((diagram, dict(params)))
        for step in base(diagram, **params):
            log["yields"].append(step)
            yield step
    return normalizer


def bounded(base, budget):
    """`base`, giving up (GaveUp) after `budget` rewrite steps."""
    def normalizer(diagram, **params):
        for k, step in enumerate(base(diagram, **params)):
            if k >= budget:
                raise GaveUp()
            yield step
    return normalizer


def budget_for(steps, repeat_at, finished):
    """Rewrite steps a normal_form may read: a finished trace is read once; a trace with a first
    repeated yield at index T must be reported within 10 (T + 1) + 100 steps (generous: the
    documented behaviour raises AT the repeat)."""
    if finished:
        return len(steps) + 10
    return 10 * (repeat_at + 1) + 100


def conventions_stream(rep, rng, drv, tier):
    from discopy import monoidal, rigid
    quick = tier == "quick"
    kits = make_kits()
    shadow = Family("rigid")
    mono = monoidal.Diagram.normalize
    per_kit = 14 if quick else 100
    for kit in kits:
        # the receivers without a dagger (added later: fewer each, larger, nearly always walked so
        # that connected ones have parallel branches in the wrong order for either preference)
        late = kit.free or kit.name == "drawing-attributes"
        for idx in range((7 if quick else 40) if late else per_kit):
            r = random.Random(rng.getrandbits(64))
            connected = r.random() < (0.8 if late else 0.7)
            snakes = 0 if kit.name == "monoidal" else r.choice([0, 1, 1, 2])
            size = r.randint(3, 8) if late else r.randint(2, 7)
            if kit.grow is not None:
                dom, cod, boxes, offsets = kit.grow(r, size, connected)
            else:
                dom, cod, boxes, offsets = grow_lists(kit, r, size, connected, snakes)
            if r.random() < (0.9 if late else 0.6):
                boxes, offsets = walk_lists(r, boxes, offsets, r.choice([3, 10, 30]))
            try:
                d = kit.make(kit.ty(dom), kit.ty(cod), boxes, offsets)
            except Exception as exc:
                raise AssertionError("harness: kit %s built an ill-typed diagram: %r" % (kit.name, exc))
            conn = real_connected(d)
            has_cups = any(isinstance(b, (rigid.Cup, rigid.Cap)) for b in d.boxes)
            rep.count("conv_receiver:%s" % kit.name)
            rep.count("conv:%s" % ("connected" if conn else "disconnected"))
            rep.count("conv:%s" % ("with_cups_caps" if has_cups else "no_cups_caps"))
            for b in d.boxes:
                if kit.free or kit.name == "drawing-attributes":
                    rep.count("conv_box_class:%s.%s" % (type(b).__module__.replace("discopy.", ""),
                                                        type(b).__name__))
            for left in (False, True):
                one_receiver(rep, r, drv, kit, d, conn, has_cups, left, shadow, mono)


def one_receiver(rep, r, drv, kit, d, conn, has_cups, left, shadow, mono):
    from discopy import monoidal
    n = len(d.boxes)
    base_case = dict(stream="conventions", receiver=kit.name, diagram=repr(d)[:600],
                     offsets=list(map(int, d.offsets)), left=left, connected=conn)
    is_mono_cls = kit.name == "monoidal"
    own = kit.cls.normalize
    logs = {}

    def rec(tag, base):
        logs[tag] = dict(calls=[], yields=[])
        return recording(base, logs[tag])

    # ---- the reference traces, read from the generator functions themselves
    traces = {}
    for tag, base in (("MONO", mono), ("OWN", own)):
        if tag == "OWN" and is_mono_cls:
            traces[tag] = traces["MONO"]
            continue
        try:
            traces[tag] = guarded(lambda: read_trace(base(d, left=left), step_limit(n)))
        except Hang:
            traces[tag] = None
        except Exception as exc:
            rep.fail("normalize_raises:" + err_class(exc), dict(base_case, normalizer=tag),
                     "reading the normalizer's trace raised %s" % repr(exc)[:160])
            traces[tag] = None
    # ---- the conventions: (name, which trace it asks for, thunk, recording log tag)
    convs = []

    def add(name, want, thunk, log=None):
        convs.append((name, want, thunk, log))
    if traces["MONO"] is not None:
        mbud = budget_for(*traces["MONO"])
        add("monoidal.Diagram.normal_form(d, left=L)", "MONO",
            lambda: monoidal.Diagram.normal_form(d, left=left))
        add("d.normal_form(normalizer=monoidal.Diagram.normalize, left=L)", "MONO",
            lambda: d.normal_form(normalizer=mono, left=left))
        add("d.normal_form(normalizer=partial(monoidal.Diagram.normalize, left=L))", "MONO",
            lambda: d.normal_form(normalizer=partial(mono, left=left)))
        add("d.normal_form(monoidal.Diagram.normalize, left=L)  [positional]", "MONO",
            lambda: d.normal_form(mono, left=left))
        add("type(d).normal_form(d, normalizer=monoidal.Diagram.normalize, left=L)", "MONO",
            lambda: kit.cls.normal_form(d, normalizer=mono, left=left))
        add("d.normal_form(normalizer=lambda x, **kw: monoidal.Diagram.normalize(x, **kw), left=L)",
            "MONO", lambda: d.normal_form(normalizer=lambda x, **kw: mono(x, **kw), left=left))
        add("d.normal_form(normalizer=RECORDING(monoidal.Diagram.normalize), left=L)", "MONO",
            lambda: d.normal_form(normalizer=rec("m", mono), left=left), "m")
        add("d.normal_form(normalizer=BOUNDED(partial(monoidal.Diagram.normalize, left=L), %d))" % mbud,
            "MONO", lambda: d.normal_form(normalizer=bounded(partial(mono, left=left), mbud)))
        add("d.normal_form(normalizer=BOUNDED(monoidal.Diagram.normalize, %d), left=L)" % mbud,
            "MONO", lambda: d.normal_form(normalizer=bounded(mono, mbud), left=left))
    if traces["OWN"] is not None:
        obud = budget_for(*traces["OWN"])
        add("d.normal_form(left=L)", "OWN", lambda: d.normal_form(left=left))
        if not left:
            add("d.normal_form()", "OWN", lambda: d.normal_form())
        add("d.normal_form(normalizer=None, left=L)", "OWN",
            lambda: d.normal_form(normalizer=None, left=left))
        add("d.normal_form(normalizer=type(d).normalize, left=L)", "OWN",
            lambda: d.normal_form(normalizer=own, left=left))
        add("d.normal_form(normalizer=partial(type(d).normalize, left=L))", "OWN",
            lambda: d.normal_form(normalizer=partial(own, left=left)))
        add("d.normal_form(normalizer=RECORDING(type(d).normalize), left=L)", "OWN",
            lambda: d.normal_form(normalizer=rec("o", own), left=left), "o")
        add("d.normal_form(normalizer=BOUNDED(type(d).normalize, %d), left=L)" % obud, "OWN",
            lambda: d.normal_form(normalizer=bounded(own, obud), left=left))
    results = {}
    # every (receiver, preference) gets the core conventions; of the others a random half
    core = ("d.normal_form(normalizer=monoidal.Diagram.normalize, left=L)",
            "d.normal_form(normalizer=partial(monoidal.Diagram.normalize, left=L))",
            "d.normal_form(normalizer=RECORDING(monoidal.Diagram.normalize), left=L)",
            "d.normal_form(left=L)", "d.normal_form()",
            "d.normal_form(normalizer=RECORDING(type(d).normalize), left=L)")
    convs = [c for c in convs if c[0] in core or c[0].startswith(
        "d.normal_form(normalizer=BOUNDED(partial(") or r.random() < 0.5]
    convs.sort(key=lambda c: "BOUNDED" not in c[0])          # the step-bounded calls first
    gave_up = set()
    for name, want, thunk, log in convs:
        steps, repeat_at, finished = traces[want]
        case = dict(base_case, call=name.replace("=L", "=%s" % left), normalizer_asked=want,
                    trace_steps=len(steps), trace_repeat_at=repeat_at, trace_finished=finished)
        if want in gave_up and "BOUNDED" not in name:
            rep.count("conv_outcome:skipped_after_gaveup")   # it would only wait for the timer
            continue
        got = outcome(thunk, risky=not finished and "BOUNDED" not in name)
        results[name] = got
        rep.count("conv_outcome:%s" % got[0])
        if got[0] == "skipped":
            continue
        if got[0] == "gaveup" and not finished:
            gave_up.add(want)
        rep.case("conv %s %s %s %s" % (kit.name, key(d), left, name), len(steps) >= 1)
        judge_call(rep, case, d, conn, left, want, has_cups, traces, got,
                   logs.get(log) if log else None, kit)
        # second use of the same receiver and the same arguments: the same answer
        if got[0] == "ok" and r.random() < 0.15:
            again = outcome(thunk)
            if again[0] != "ok" or key(again[1]) != key(got[1]):
                rep.fail("convention:second_call_differs", case,
                         "calling again gave %s" % (again[0] if again[0] != "ok" else repr(again[1])[:200]))
            # and the value is a fixed point through the same convention
            nf = got[1]
            fx = outcome(lambda: nf.normal_form(normalizer=mono, left=left) if want == "MONO"
                         else nf.normal_form(left=left))
            if fx[0] != "ok" or key(fx[1]) != key(nf):
                rep.fail("not_idempotent", case, "normal_form of the returned normal form gave %s"
                         % (fx[0] if fx[0] != "ok" else repr(fx[1])[:200]))
    # ---- the Lean model on what the MONOIDAL normal form sees, against the receiver's own
    # method with the documented keyword
    got = results.get("d.normal_form(normalizer=monoidal.Diagram.normalize, left=L)")
    if got is not None and got[0] in ("ok", "notimpl"):
        names = {}
        spec = abstract_spec(d, names)
        try:
            real = "err notimpl" if got[0] == "notimpl" else \
                "ok " + ser_diagram(shadow.run(abstract_spec(got[1], names)))
        except Exception as exc:
            real = "unreadable result: %r" % (exc,)
        model = drv.ask("eval " + tok_expr(("normal_form", spec, left)))
        rep.count("conv:model_normal_form")
        if real != model:
            rep.disagree("normal_form-conventions",
                         dict(base_case, call="d.normal_form(normalizer=monoidal.Diagram.normalize, "
                              "left=%s)" % left), real[:300], model[:300])


def judge_call(rep, case, d, conn, left, want, has_cups, traces, got, log, kit=None):
    """The property's predicate on the outcome of one call of normal_form."""
    steps, repeat_at, finished = traces[want]
    monoidal_request = want == "MONO" or not has_cups       # the C06 clauses apply in full
    if got[0] == "exc":
        rep.fail("normal_form_raises:" + got[1], case, "normal_form raised " + got[2])
        return
    if got[0] in ("gaveup", "hang"):
        if finished:
            rep.fail("convention:normalizer_read_beyond_its_trace", case,
                     "the normalizer's trace ends after %d steps but normal_form %s"
                     % (len(steps), "read more than %d" % (len(steps) + 10) if got[0] == "gaveup"
                        else "did not return in %.0f s" % GUARD_S))
        else:
            rep.fail("nontermination_not_reported", case,
                     "the trace repeats a diagram at step %r; normal_form neither returned nor raised "
                     "NotImplementedError (%s)" % (repeat_at, "step budget used up" if got[0] == "gaveup"
                                                   else "no answer in %.0f s" % GUARD_S))
        return
    if log is not None:
        if not log["calls"]:
            rep.fail("convention:given_normalizer_not_called", case,
                     "the normalizer passed as `normalizer=` was never called")
            return
        if len(log["calls"]) > 1:
            rep.count("conv:given_normalizer_called_more_than_once")
        arg, params = log["calls"][0]
        if key(arg) != key(d) or params.get("left", False) != left:
            rep.fail("convention:given_normalizer_called_with_other_arguments", case,
                     "called with %s, %r" % (repr(arg)[:200], params))
    if got[0] == "notimpl":
        if conn and monoidal_request:
            rep.fail("connected_not_normalised", case, "NotImplementedError on a connected diagram")
        elif repeat_at is None and finished:
            rep.count("conv:notimpl_on_terminating_disconnected")
        return
    nf = got[1]
    if kit is not None and kit.free:
        import recvlib
        why = recvlib.wf_failure_any(nf)
    else:
        why = wf_failure(nf)
    if why:
        rep.fail("illtyped_normal_form", case, why)
        return
    if log is not None:
        last = log["yields"][-1] if log["yields"] else d
        if key(nf) != key(last):
            rep.fail("convention:not_last_yield_of_given_normalizer", case,
                     "the recording normalizer handed out %d steps, the last one is %s, normal_form "
                     "returned %s" % (len(log["yields"]), repr(last)[:200], repr(nf)[:200]))
    if finished:
        last = steps[-1] if steps else d
        if key(nf) != key(last):
            rep.fail("convention:not_last_of_given_trace", case,
                     "the trace of the normalizer that was given ends in %s, normal_form returned %s"
                     % (repr(last)[:250], repr(nf)[:250]))
    if monoidal_request:
        if sorted(map(repr, nf.boxes)) != sorted(map(repr, d.boxes)) \
                or len(nf.dom) != len(d.dom) or len(nf.cod) != len(d.cod):
            rep.fail("convention:boxes_changed", case,
                     "asked for the monoidal normal form (interchanges alone); the result has other "
                     "boxes: %s" % repr(nf)[:300])
        elif foreign_boxes(nf, d):
            b = foreign_boxes(nf, d)[0]
            rep.fail("convention:boxes_not_the_receivers", case,
                     "interchanges only move boxes, but box %s of the result is neither a box object of "
                     "the receiver nor an indistinguishable copy of one (class %s, attributes %s)"
                     % (repr(b)[:80], type(b).__name__,
                        [kv for kv in attr_view(b) if not kv[0].startswith("_")]))
        elif not sc.real_terminal(nf, left):
            rep.fail("convention:not_fixed_point_of_given_normalizer", case,
                     "the result still has a %s redex: %s offsets %s"
                     % ("left" if left else "right", repr(nf)[:250], list(map(int, nf.offsets))))
        if kit is not None and kit.ev is not None:
            try:
                before = kit.ev(d)
            except Exception:
                before = None
                rep.count("conv:class_eval_unavailable")
            if before is not None:
                try:
                    after = kit.ev(nf)
                    if after != before:
                        rep.fail("convention:class_evaluation_changed", case,
                                 "the receiver evaluates to %r, its normal form to %r" % (before, after))
                    rep.count("conv:class_eval_compared")
                except Exception as exc:
                    rep.fail("convention:result_not_evaluable", case,
                             "the receiver evaluates, its normal form raises %r" % (exc,))
        if conn and traces["MONO"] is not None and traces["MONO"][2]:
            msteps = traces["MONO"][0]
            mlast = msteps[-1] if msteps else d
            if key(nf) != key(mlast):
                rep.fail("not_canonical:calling_convention", case,
                         "another way of asking for the same normal form gives %s, this one %s"
                         % (repr(mlast)[:250], repr(nf)[:250]))


# ------------------------------------------------------------------ stream 2: disconnected

X, Y = sc.X, sc.Y


def soup(r, m, n_boxes, unique):
    """m independent components grown side by side / nested: every box touches the wires of ONE
    component only (or opens a new one), so the diagram has at least m components."""
    scan, boxes, offsets = [], [], []
    started = 0
    count = [0]

    def nm(shape):
        count[0] += 1
        return "%s_%d" % (shape, count[0]) if unique else shape

    def put(name, k, cod, off, comp):
        boxes.append(sc.bx(name, [X] * k, [X] * cod))
        offsets.append(off)
        scan[off:off + k] = [comp] * cod
    while len(boxes) < n_boxes:
        if started < m and (not scan or r.random() < 0.5) or not scan:
            c = r.choice([0, 1, 1, 1, 2])
            put(nm(["s", "unit", "cap"][c]), 0, c, r.randint(0, len(scan)), started)
            started += 1
            continue
        j = r.randrange(len(scan))
        comp = scan[j]
        choices = ["f", "counit", "counit"] + (["split"] if len(scan) < 5 else [])
        if j + 1 < len(scan) and scan[j + 1] == comp:
            choices += ["cup", "cup", "m"]
        op = r.choice(choices)
        if op == "f":
            put(nm("f"), 1, 1, j, comp)
        elif op == "counit":
            put(nm("counit"), 1, 0, j, comp)
        elif op == "split":
            put(nm("split"), 1, 2, j, comp)
        elif op == "cup":
            put(nm("cup"), 2, 0, j, comp)
        else:
            put(nm("m"), 2, 1, j, comp)
    if r.random() < 0.75:                        # close what is still open
        while scan:
            j = r.randrange(len(scan))
            if j + 1 < len(scan) and scan[j + 1] == scan[j] and r.random() < 0.5:
                put(nm("cup"), 2, 0, j, scan[j])
            else:
                put(nm("counit"), 1, 0, j, scan[j])
    return ("mk", [], [X] * len(scan), boxes, offsets)


def scalars(r):
    """Eckmann-Hilton: k scalars, possibly with wires passing on either side."""
    k, w = r.randint(2, 4), r.choice([0, 0, 1, 2])
    uniq = r.random() < 0.6
    boxes = [sc.bx("s%d" % i if uniq else "s", [], []) for i in range(k)]
    offsets = [r.randint(0, w) for _ in range(k)]
    return ("mk", [X] * w, [X] * w, boxes, offsets)


def juxtapose(specs):
    """Tensor of closed-domain specs: independent components side by side."""
    boxes, offsets, width = [], [], 0
    for _, dom, cod, bs, os_ in specs:
        assert not dom
        boxes += bs
        offsets += [o + width for o in os_]
        width += len(cod)
    cod = sum([list(s[2]) for s in specs], [])
    return ("mk", [], cod, boxes, offsets)


def scalar_inside(r, spec):
    """A scalar dropped at a random height and offset into a connected diagram."""
    _, dom, cod, boxes, offsets = spec
    pos = r.randint(0, len(boxes))
    width = len(dom)
    for b in boxes[:pos]:
        width += len(b["cod"]) - len(b["dom"])
    return ("mk", list(dom), list(cod), boxes[:pos] + [sc.bx("s", [], [])] + boxes[pos:],
            offsets[:pos] + [r.randint(0, width)] + offsets[pos:])


def pinned():
    """A few witnesses: nested loops whose trace leaves the input and cycles elsewhere."""
    b = sc.bx
    return [
        ("mk", [], [], [b("unit0", [], [X]), b("unit1", [], [X]), b("counit1", [X], []),
                        b("counit0", [X], [])], [0, 1, 1, 0]),
        ("mk", [], [], [b("unit0", [], [X]), b("cap", [], [X, X]), b("cup", [X, X], []),
                        b("counit0", [X], [])], [0, 0, 0, 0]),
        ("mk", [], [], [b("unit0", [], [X]), b("unit1", [], [X]), b("f", [X], [X]),
                        b("counit1", [X], []), b("f", [X], [X]), b("counit0", [X], [])],
         [0, 1, 1, 1, 0, 0]),
        ("mk", [], [], [b("s0", [], []), b("s1", [], [])], [0, 0]),
    ]


def disconnected_specs(rng, quick, connected_makers):
    """(shape, spec) pairs; every base spec also after random walks of legal exchanges."""
    out = [("pinned", s) for s in pinned()]
    n = 22 if quick else 150
    for _ in range(n):
        r = random.Random(rng.getrandbits(64))
        out.append(("soup", soup(r, r.randint(2, 3), r.randint(3, 7), r.random() < 0.5)))
    for _ in range(n // 4):
        out.append(("scalars", scalars(random.Random(rng.getrandbits(64)))))
    for _ in range(n // 3):
        r = random.Random(rng.getrandbits(64))
        comps = [r.choice(connected_makers)(random.Random(r.getrandbits(64)))
                 for _ in range(r.randint(2, 3))]
        if sum(len(c[3]) for c in comps) <= 12:
            out.append(("components", juxtapose(comps)))
    for _ in range(n // 3):
        r = random.Random(rng.getrandbits(64))
        base = r.choice(connected_makers)(random.Random(r.getrandbits(64)))
        if len(base[3]) <= 8:
            out.append(("scalar_inside", scalar_inside(r, base)))
    walked = []
    for shape, spec in out:
        r = random.Random(rng.getrandbits(64))
        walked.append((shape, spec, 0))
        for steps in ([r.choice([2, 5, 12, 40])] if quick else [3, 12, 40]):
            walked.append((shape, sc.spec_walk(r, spec, steps), steps))
    return walked


def disconnected_stream(rep, rng, drv, tier, connected_makers):
    from discopy import monoidal
    quick = tier == "quick"
    fams = {"monoidal": Family("monoidal"), "rigid": Family("rigid")}
    seen_specs = set()
    stats = dict(tail_then_cycle=0, cycle_through_input=0, terminates=0, unresolved=0)
    for shape, spec, walk in disconnected_specs(rng, quick, connected_makers):
        sig = (tuple(b["name"] for b in spec[3]), tuple(spec[4]), len(spec[1]))
        if sig in seen_specs:
            continue
        seen_specs.add(sig)
        conn = spec_connected(spec)
        n = len(spec[3])
        famname = "monoidal" if rng.random() < 0.7 else "rigid"
        fam = fams[famname]
        d = fam.run(spec)
        rep.count("disc_shape:%s" % shape)
        rep.count("disc:%s" % ("connected" if conn else "disconnected"))
        for left in (False, True):
            case = dict(stream="disconnected", shape=shape, walk_steps=walk, receiver=famname,
                        left=left, diagram=repr(d)[:500], offsets=list(spec[4]), connected=conn)
            try:
                steps, repeat_at, finished = guarded(lambda: read_trace(
                    monoidal.Diagram.normalize(d, left=left), step_limit(n)))
            except Exception as exc:
                rep.fail("normalize_raises:" + err_class(exc), case, repr(exc)[:200])
                continue
            d0 = key(d)
            if finished:
                kind = "terminates"
            elif repeat_at is None:
                kind = "unresolved"
            elif any(key(s) == d0 for s in steps):
                kind = "cycle_through_input"
            else:
                kind = "tail_then_cycle"
            stats[kind] += 1
            rep.count("disc_trace:%s" % kind)
            rep.case("disc %s %s %s" % (famname, sig, left), kind == "tail_then_cycle")
            if kind == "unresolved":
                continue                  # neither ends nor repeats within 5(n+1)^3+50 steps
            bud = budget_for(steps, repeat_at, finished)
            mono = monoidal.Diagram.normalize
            calls = [
                ("d.normal_form(normalizer=BOUNDED(monoidal.Diagram.normalize, %d), left=%s)" % (bud, left),
                 lambda: d.normal_form(normalizer=bounded(mono, bud), left=left)),
                ("monoidal.Diagram.normal_form(d, left=%s)  [%.0f s budget]" % (left, GUARD_S),
                 lambda: monoidal.Diagram.normal_form(d, left=left)),
                ("d.normal_form(left=%s)  [%.0f s budget]" % (left, GUARD_S),
                 lambda: d.normal_form(left=left)),
            ]
            first = None
            for name, thunk in calls:
                got = outcome(thunk, risky=not finished and "BOUNDED" not in name)
                if got[0] == "skipped":
                    continue
                first = first or got
                c = dict(case, call=name, trace_steps=len(steps), trace_repeat_at=repeat_at,
                         trace_finished=finished, trace_kind=kind)
                rep.count("disc_outcome:%s" % got[0])
                if got[0] == "exc":
                    rep.fail("normal_form_raises:" + got[1], c, got[2])
                elif got[0] in ("gaveup", "hang"):
                    rep.fail("nontermination_not_reported", c,
                             "the normalisation of this disconnected diagram %s; normal_form neither "
                             "returned a fixed point nor raised NotImplementedError (%s)" % (
                                 "ends after %d steps" % len(steps) if finished else
                                 "repeats at step %d a diagram it yielded before (%s)" % (repeat_at, kind),
                                 "step budget of %d used up" % bud if got[0] == "gaveup"
                                 else "no answer in %.0f s" % GUARD_S))
                    break                 # the other conventions would only wait as long
                elif got[0] == "notimpl":
                    if conn:
                        rep.fail("connected_not_normalised", c, "NotImplementedError on a connected diagram")
                else:
                    nf = got[1]
                    why = wf_failure(nf)
                    if why:
                        rep.fail("illtyped_normal_form", c, why)
                    elif sorted(map(repr, nf.boxes)) != sorted(map(repr, d.boxes)):
                        rep.fail("step_boxes_changed", c, "the returned diagram has other boxes")
                    elif not sc.real_terminal(nf, left):
                        rep.fail("normal_form_not_terminal", c,
                                 "the returned diagram is not a fixed point: it still has a redex")
                    elif finished and key(nf) != key(steps[-1] if steps else d):
                        rep.fail("convention:not_last_of_given_trace", c,
                                 "normal_form did not return the last step of the trace")
            # ---- the model: the cache-of-ALL-steps semantics (err notimpl iff a yield repeats)
            if famname == "monoidal" and first is not None and first[0] in ("ok", "notimpl"):
                real = "err notimpl" if first[0] == "notimpl" else "ok " + ser_diagram(first[1])
                model = drv.ask("eval " + tok_expr(("normal_form", spec, left)))
                rep.count("disc:model_normal_form")
                if real != model:
                    rep.disagree("normal_form-disconnected", case, real[:300], model[:300])
                if (model == "err notimpl") != (repeat_at is not None):
                    rep.disagree("normal_form-repeat-iff", case,
                                 "trace repeats a yield: %s" % (repeat_at is not None), model[:200])
                # where the cache fires, and whether the input was seen again before: the model's
                # own trace (passes >= steps read) through its `firstRepeat`
                again = next((k for k, s in enumerate(steps) if key(s) == d0), None)
                mine = "repeat=%s input_again=%s" % (
                    "none" if repeat_at is None else repeat_at, "none" if again is None else again)
                ans = drv.ask("nfrepeat %d %d %s" % (1 if left else 0, len(steps) + 2, tok_expr(spec)))
                fields = dict(f.split("=") for f in ans.split()[1:] if "=" in f)
                mback = fields.get("input_again", "?")
                if mback not in ("none", "?") and repeat_at is not None and int(mback) > repeat_at:
                    mback = "none"            # the model's trace goes on after the repeat
                theirs = "repeat=%s input_again=%s" % (fields.get("repeat", "?"), mback)
                rep.count("disc:model_first_repeat")
                if not ans.startswith("ok ") or mine != theirs or (
                        finished and fields.get("fin") != "1"):
                    rep.disagree("nfrepeat-disconnected", case, mine + " finished=%s" % finished, ans[:200])
    rep.extra["disconnected_family"] = dict(
        stats, note="tail_then_cycle = the trace leaves the input and enters a cycle that does not "
        "contain it; unresolved = neither ended nor repeated within 5(n+1)^3+50 steps (not judged)")
