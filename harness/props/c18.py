"""C18 — grammar front-ends only produce well-typed, grammatical derivations.

Streams (each: same case on discopy in-process and on the Lean model, compared token by token,
plus the property's own predicate on the real-code result):

  eager      pregroup.eager_parse on random vocabularies / word sequences / targets
  brute      pregroup.brute_force (first yields, bounded number of queue entries)
  cfg        cfg.CFG.generate with recorded shuffles (randomness = oracle stream for the model)
  b2r_ty     object map of biclosed2rigid on nested slash types
  b2r_rule   biclosed2rigid of FA/BA/FC/BC/FX/BX over nested slash types (box dom/cod + image)
  b2r_curry  biclosed2rigid of Curry(diagram, n_wires, left) applied to the box itself
  b2r_box    biclosed2rigid of ONE word / generic box (ccg.Word, cfg.Word, biclosed.Box and
             subclasses) with every optional constructor argument at default and non-default
             values (dom omitted / None / empty / atomic / nested / several objects, data,
             _dagger), alone and inside a small context (pre-/post-composed, tensored)
  b2r        biclosed2rigid of composite biclosed diagrams (rules, generic boxes, words with and
             without a domain, Curry inside), built by the constructor or by >> and @
  ccg        ccg.cat2ty and ccg.tree2diagram(tree[, dom=...]) on random categories / derivation
             trees (leaf and inner, dom omitted / empty / atomic / nested), then b2r
  b2r_deriv  every rule (FA BA FC BC FX BX, right / left Curry) over X, Y, Z drawn INDEPENDENTLY
             (all different, pairwise equal, all equal, nested, several objects, one empty), the
             box alone / last box of a derivation from words / mid-derivation (followed by a box,
             an FA, a BA); oracle = the rule as CCG states it (`stated_rule`) and images computed
             by the harness (`bty_image`), neither read off the library

The words of eager / brute and the productions of cfg are given as every class of box the
front-ends accept (pregroup.Word, cfg.Word, rigid.Box, monoidal.Box, user subclasses with an
attribute of their own), with and without `data` (also falsy: 0, [], {}, False) and `_dagger`; the
model's boxes carry both, and the oracle demands that the boxes of the result ARE the given ones
(`given_word_failure`: same object, or equal both ways with equal name / dom / cod / data / dagger
flag / subclass attribute).

Every call on the real code is made through `attempt` / try-except: a library exception becomes a
failure WITH the input (never an escape that the runner can only report without one).

Optional arguments are drawn at their default (omitted) AND non-default values throughout:
eager_parse / brute_force `target`, CFG.generate `max_iter` / `remove_duplicates` / `not_twice` /
`seed`, Word `dom` / `data` / `_dagger`, Curry `n_wires` / `left`, tree2diagram `dom`; the rule boxes
are built through their classes and through the static constructors Diagram.fa … Diagram.curry.
"""
import itertools
import random

from common import (Driver, Report, ser_result, ser_diagram, ser_ty, wf_failure,
                    lean_obligations, err_class, tokname, ty_key)
from core import tok_ty, tok_box

PROP = "C18"

SIG_F10 = "b2r:BA:left_side_not_one_object"
SIG_F14 = "b2r:Curry:right_curry_empty_wires"


# ------------------------------------------------------------------ rigid specs (pregroup)

BASIC = ["n", "s", "p"]


def rty(spec):
    from discopy import rigid
    return rigid.Ty(*[rigid.Ob(n, z) for n, z in spec])


def word_spec(name, cod, dom=(), cls="pregroup.Word", data=None, dagger=False, extra=None):
    """A word handed to the parsers.  `cls` says which class it is an instance of (the parsers
    accept every box: pregroup.Word, cfg.Word, rigid.Box, monoidal.Box and user subclasses
    "sub:<base>"), `data` / `dagger` are the optional constructor arguments of cat.Box (part of
    box equality), `extra` an attribute only a user subclass carries."""
    w = dict(kind="g", name=name, dom=list(dom), cod=list(cod), dagger=dagger, data=data)
    if cls != "pregroup.Word":
        w["cls"] = cls
    if extra is not None:
        w["extra"] = extra
    return w


WORD_CLASSES = ["pregroup.Word", "cfg.Word", "rigid.Box", "monoidal.Box",
                "sub:pregroup.Word", "sub:cfg.Word", "sub:rigid.Box"]
_WORD_SUBCLASSES = {}


def word_class(cls):
    """The class named by a spec's `cls`; user subclasses are made once per base: they add a
    keyword `extra` kept as an attribute and change nothing else."""
    from discopy import monoidal, rigid
    from discopy.grammar import cfg, pregroup
    bases = {"pregroup.Word": pregroup.Word, "cfg.Word": cfg.Word, "rigid.Box": rigid.Box,
             "monoidal.Box": monoidal.Box}
    if not cls.startswith("sub:"):
        return bases[cls]
    if cls not in _WORD_SUBCLASSES:
        base = bases[cls[4:]]

        class UserWord(base):
            def __init__(self, *args, extra=None, **kwargs):
                base.__init__(self, *args, **kwargs)
                self.extra = extra
        UserWord.__name__ = UserWord.__qualname__ = "User" + cls[4:].replace(".", "_")
        _WORD_SUBCLASSES[cls] = UserWord
    return _WORD_SUBCLASSES[cls]


def real_word(w, ty=None):
    """The word of a spec, of the spec's class; optional arguments at their default are left out.
    `ty` builds the types (rigid types for the pregroup parsers)."""
    ty = ty or rty
    cls = w.get("cls", "pregroup.Word")
    klass = word_class(cls)
    kw = {}
    if w["data"] is not None:
        kw["data"] = w["data"]
    if w["dagger"]:
        kw["_dagger"] = True
    if cls.startswith("sub:"):
        kw["extra"] = w.get("extra")
    if cls.endswith("Word"):
        if w["dom"]:
            kw["dom"] = ty(w["dom"])
        return klass(w["name"], ty(w["cod"]), **kw)
    return klass(w["name"], ty(w["dom"]), ty(w["cod"]), **kw)


WORD_DATA = [[1, 2], [0], {"theta": 3}, 7, 0, [], False, {}, [[1], [2, 3]], -1, [None]]


def decorate_words(r, words, share=0.6):
    """Redraws HOW the words of a sentence are given, leaving their types alone: the class of
    each word and its optional `data` / `_dagger` (and a subclass attribute)."""
    out, tags = [], set()
    for w in words:
        if r.random() >= share:
            out.append(w)
            tags.add("plain")
            continue
        cls = r.choice(WORD_CLASSES)
        data = r.choice(WORD_DATA) if r.random() < 0.6 else None
        dagger = r.random() < 0.2
        extra = r.choice([5, [1], "tag"]) if cls.startswith("sub:") and r.random() < 0.7 else None
        out.append(word_spec(w["name"], w["cod"], dom=w["dom"], cls=cls, data=data, dagger=dagger,
                             extra=extra))
        tags.add("cls:" + cls)
        tags.add("data:" + ("none" if data is None else "falsy" if not data else "given"))
        if dagger:
            tags.add("dagger")
        if extra is not None:
            tags.add("extra_attr")
    return out, sorted(tags)


def given_word_failure(found, given):
    """`found` (a box of a returned diagram) is the word `given`: the same object, or at least
    equal to it (both ways round) with everything that makes up a box — name, dom, cod, data,
    dagger flag — and what a user subclass added.  None if so, else what differs."""
    if found is given:
        return None
    try:
        if not (found == given and given == found):
            what = [a for a in ("name", "dom", "cod", "data", "is_dagger")
                    if getattr(found, a, None) != getattr(given, a, None)]
            return "not_equal:" + ("+".join(what) or "eq")
        for a in ("name", "dom", "cod", "data", "is_dagger"):
            if repr(getattr(found, a)) != repr(getattr(given, a)):
                return "differs_in:" + a
        if getattr(given, "extra", None) != getattr(found, "extra", None):
            return "differs_in:subclass_attribute"
    except Exception as exc:
        return "comparison_raises:" + err_class(exc)
    return None


def gen_sentence(r, size):
    """A word sequence built backwards from a reduction: start from the target, insert adjacent
    adjoint pairs, cut the resulting type into word codomains; then (30 %) perturb it."""
    kind = r.random()
    if kind < 0.75:
        target = [("s", 0)]
    elif kind < 0.85:
        target = []
    elif kind < 0.95:
        target = [(r.choice(BASIC), r.choice([-1, 0, 1])) for _ in range(r.randint(1, 2))]
    else:
        x = (r.choice(BASIC), 0)
        target = [x, (x[0], 1)]          # target itself reducible
    ty = list(target)
    for _ in range(r.randint(0, size)):
        pos = r.randint(0, len(ty))
        x = (r.choice(BASIC), r.choice([-2, -1, -1, 0, 0, 0, 0, 1]))
        ty[pos:pos] = [x, (x[0], x[1] + 1)]
    nwords = r.randint(1, max(1, min(len(ty), 6))) if ty else r.randint(0, 1)
    cuts = sorted(r.sample(range(1, len(ty)), nwords - 1)) if nwords > 1 else []
    words = []
    for k, (a, b) in enumerate(zip([0] + cuts, cuts + [len(ty)])):
        words.append(word_spec("w%d" % k, ty[a:b]))
    if nwords == 0:
        words = []
    tags = ["backwards"]
    p = r.random()
    if p < 0.08 and len(words) >= 2:
        i, j = r.sample(range(len(words)), 2)
        words[i], words[j] = words[j], words[i]
        tags = ["swapped"]
    elif p < 0.14 and words:
        del words[r.randrange(len(words))]
        tags = ["dropped"]
    elif p < 0.20:
        target = [(r.choice(BASIC), r.choice([-1, 0, 0, 1]))]
        tags = ["other_target"]
    elif p < 0.26:
        words = [word_spec("r%d" % k, [(r.choice(BASIC), r.choice([-1, 0, 0, 1]))
                                       for _ in range(r.randint(0, 3))])
                 for k in range(r.randint(0, 4))]
        tags = ["random_words"]
    elif p < 0.30 and words:
        k = r.randrange(len(words))
        words[k] = word_spec(words[k]["name"], words[k]["cod"],
                             dom=[(r.choice(BASIC), 0) for _ in range(r.randint(1, 2))])
        tags = ["word_with_dom"]
    elif p < 0.40 and target == [("s", 0)]:
        # the words reduce to s but the EMPTY type is requested explicitly (`Ty()` is falsy in
        # Python: a front-end that treats it as "no target given" would answer with an s-typed
        # parse); the property demands codomain = the requested target of whatever is returned
        target = []
        tags = ["empty_target_requested_for_s_sentence"]
    if tags == ["backwards"] and not target:
        tags = ["backwards_to_empty_target"]
    return words, target, tags


def fixed_sentences():
    """Always run: the subject-verb-object sentence (reduces to s) and a sentence that reduces
    to the empty type, each requested with target s and with the explicit empty target."""
    nn, ss = ("n", 0), ("s", 0)
    svo = [word_spec("Alice", [nn]), word_spec("loves", [("n", 1), ss, ("n", -1)]),
           word_spec("Bob", [nn])]
    unit = [word_spec("a", [nn]), word_spec("b", [("n", 1), ("s", -1)]), word_spec("c", [ss])]
    return [(svo, [ss], ["fixed"]), (svo, [], ["empty_target_requested_for_s_sentence"]),
            (unit, [], ["backwards_to_empty_target"]), (unit, [ss], ["fixed"])]


def fixed_word_classes():
    """Always run: subject-verb-object with the words given as every class, with and without
    data / _dagger, reducing to s; and a one-word sentence of each class."""
    nn, ss = ("n", 0), ("s", 0)
    verb = [("n", 1), ss, ("n", -1)]
    out = []
    for k, cls in enumerate(WORD_CLASSES):
        for data in (None, [k, 1], 0):
            for dagger in (False, True):
                extra = "x" if cls.startswith("sub:") else None
                other = WORD_CLASSES[(k + 1) % len(WORD_CLASSES)]
                svo = [word_spec("Alice", [nn], cls=cls, data=data, dagger=dagger, extra=extra),
                       word_spec("loves", verb, cls=other, data=data),
                       word_spec("Bob", [nn], cls=cls, data=None if data is None else {"b": k})]
                tags = ["cls:" + cls, "cls:" + other,
                        "data:" + ("none" if data is None else "given" if data else "falsy")]
                out.append((svo, [ss], tags + (["dagger"] if dagger else [])))
        out.append(([word_spec("It", [ss], cls=cls, data=[1])], [ss], ["cls:" + cls, "data:given"]))
    return out


def sig_of(why):
    """Failure signature from an oracle's text: its first field (two for the word clauses)."""
    parts = why.split(":")
    return ":".join(parts[:3 if parts[0].startswith(("word_not", "production_not")) else 1])[:70]


def eager_oracle(d, words, target):
    """The property's clause for the pregroup parsers on a returned diagram."""
    from discopy import rigid
    why = wf_failure(d)
    if why:
        return "ill-typed result: " + why
    dom = rigid.Ty()
    for w in words:
        dom = dom @ w.dom
    if d.dom != dom:
        return "domain %s is not the (empty) domain of the words" % (d.dom,)
    if d.cod != target:
        return "codomain %s is not the target %s" % (d.cod, target)
    if list(d.boxes[:len(words)]) != list(words):
        return "the first boxes are not the given words in order"
    for k, (found, given) in enumerate(zip(d.boxes, words)):
        why = given_word_failure(found, given)
        if why:
            return "word_not_the_given_one:%s: box %d is %r (data %r), given %r (data %r)" % (
                why, k, found, getattr(found, "data", None), given, getattr(given, "data", None))
    scan = d.dom
    for k, (box, off) in enumerate(zip(d.boxes, d.offsets)):
        if k >= len(words):
            if not isinstance(box, rigid.Cup):
                return "box %d after the words is not a cup" % k
            l, rr = scan[off:off + 1], scan[off + 1:off + 2]
            if len(l) != 1 or len(rr) != 1 or l.r != rr:
                return "cup %d does not sit on adjacent adjoint wires x, x.r" % k
        scan = scan[:off] @ box.cod @ scan[off + len(box.dom):]
    return None


# ------------------------------------------------------------------ biclosed specs

ATOMS = ["x", "y", "z", "w"]


def gen_bob(r, depth, empties=False):
    if depth <= 0 or r.random() < 0.3:
        return ("a", r.choice(ATOMS))
    return (r.choice("ou"), gen_bty(r, depth - 1, empties), gen_bty(r, depth - 1, empties))


def gen_bty(r, depth, empties=False, lens=(1, 1, 1, 1, 1, 2, 2, 2, 3)):
    n = r.choice(lens)
    if empties and r.random() < 0.25:
        n = 0
    return [gen_bob(r, depth, empties) for _ in range(n)]


def bty_depth(t):
    return max([0] + [1 + max(bty_depth(o[1]), bty_depth(o[2])) for o in t if o[0] != "a"])


def bty_img_len(t):
    return sum(1 if o[0] == "a" else bty_img_len(o[1]) + bty_img_len(o[2]) for o in t)


def tok_bty(t):
    return " ".join([str(len(t))] + [tok_bob(o) for o in t])


def tok_bob(o):
    if o[0] == "a":
        return "a " + tokname(o[1])
    return "%s %s %s" % (o[0], tok_bty(o[1]), tok_bty(o[2]))


def real_bty(t):
    from discopy import biclosed
    out = biclosed.Ty()
    for o in t:
        out = out @ real_bob(o)
    return out


def real_bob(o):
    from discopy import biclosed
    if o[0] == "a":
        return biclosed.Ty(o[1])
    l, rr = real_bty(o[1]), real_bty(o[2])
    return (l << rr) if o[0] == "o" else (l >> rr)


def ser_bty(t, name=tokname):
    """Canonical tokens of a real biclosed type (an Over/Under is its own single object)."""
    from discopy import biclosed
    objs = list(t._objects)
    out = [str(len(objs))]
    for o in objs:
        if isinstance(o, biclosed.Over):
            out.append("o %s %s" % (ser_bty(o.left, name), ser_bty(o.right, name)))
        elif isinstance(o, biclosed.Under):
            out.append("u %s %s" % (ser_bty(o.left, name), ser_bty(o.right, name)))
        else:
            out.append("a " + name(o.name))
    return " ".join(out)


RULES = ["fa", "ba", "fc", "bc", "fx", "bx"]


def gen_rule(r, kind, depth, empties=False, bad=False, cap=16):
    """A rule box over random nested types; resampled until the image of its domain has at
    most `cap` wires (the images of crossed compositions are quadratic in it)."""
    while True:
        rule = gen_rule_once(r, kind, depth, empties, bad)
        if bty_img_len(rule_dom(rule)) <= cap:
            return rule


def gen_rule_once(r, kind, depth, empties=False, bad=False):
    g = lambda: gen_bty(r, r.randint(0, depth - 1), empties)
    if kind in ("fa", "ba"):
        return (kind, g(), g())
    a, b, c, d = g(), g(), g(), g()
    if not bad:
        if kind in ("fc", "bc"):
            c = b
        elif kind == "fx":
            d = b
        else:
            c = a
    return (kind, a, b, c, d)


# Words and generic boxes: (kind, name, dom, cod[, opts]) with kind "gen" (biclosed.Box) or "word"
# (cfg.Word / ccg.Word); opts = dict(cls=, dom_form=, data=, dagger=) records HOW the constructor
# is called (which class, which optional arguments are passed and in which form).

GENERIC = ("gen", "word")
DATA_VALUES = [0, 7, [1, 2], {"k": 1}, False, 0.5]     # no str: cat.Box recurses forever on string data
_SUBCLASSES = {}


def generic_class(kind, opts):
    """The class a generic box / word is built from (the library's, or a user subclass)."""
    from discopy import biclosed as B
    from discopy.grammar import ccg, cfg
    if not _SUBCLASSES:
        _SUBCLASSES["ccg_sub"] = type("Noun", (ccg.Word,), {})
        _SUBCLASSES["box_sub"] = type("Lexical", (B.Box,), {})
    name = opts.get("cls") or ("box" if kind == "gen" else "ccg")
    return {"box": B.Box, "ccg": ccg.Word, "cfg": cfg.Word}.get(name) or _SUBCLASSES[name]


def real_generic(spec):
    kind, name, dom, cod = spec[:4]
    opts = spec[4] if len(spec) > 4 else {}
    cls = generic_class(kind, opts)
    kw = {}
    if opts.get("data") is not None:
        kw["data"] = opts["data"]
    if opts.get("dagger"):
        kw["_dagger"] = True
    elif opts.get("explicit_defaults"):
        kw.update(data=kw.get("data"), _dagger=False)
    if kind == "gen":
        return cls(name, real_bty(dom), real_bty(cod), **kw)
    form = opts.get("dom_form") or ("kw" if dom else "none")
    if dom and form not in ("kw", "pos"):
        form = "kw"
    if not dom and form in ("kw", "pos"):
        form = "empty"
    if form == "omit":
        return cls(name, real_bty(cod), **kw)
    if form == "none":
        return cls(name, real_bty(cod), dom=None, **kw)
    if form == "pos":
        return cls(name, real_bty(cod), real_bty(dom), **kw)
    return cls(name, real_bty(cod), dom=real_bty(dom), **kw)       # "kw", "empty"


def gen_opts(r, kind, dom):
    opts = {}
    if kind == "word":
        opts["cls"] = r.choice(["ccg", "ccg", "ccg", "cfg", "ccg_sub"])
        opts["dom_form"] = r.choice(["kw", "kw", "pos"]) if dom else r.choice(["omit", "none", "empty"])
    elif r.random() < 0.15:
        opts["cls"] = "box_sub"
    if r.random() < 0.15:
        opts["dagger"] = True
    elif r.random() < 0.1:
        opts["explicit_defaults"] = True
    if r.random() < 0.2:
        opts["data"] = r.choice(DATA_VALUES)
    return opts


def gen_generic(r, name, dom, cod, word_share=0.5):
    kind = "word" if r.random() < word_share else "gen"
    return (kind, name, list(dom), list(cod), gen_opts(r, kind, dom))


def generic_tags(spec):
    """What region of the constructors' argument space a word / generic box spec visits."""
    kind, _, dom, cod = spec[:4]
    opts = spec[4] if len(spec) > 4 else {}
    shape = "empty" if not dom else "atom" if dom == [dom[0]] and dom[0][0] == "a" else \
        "one_slash" if len(dom) == 1 else "several_objects"
    tags = ["%s:cls:%s" % (kind, opts.get("cls") or ("box" if kind == "gen" else "ccg")),
            "%s:dom:%s" % (kind, shape)]
    if kind == "word":
        tags.append("word:dom_form:%s" % (opts.get("dom_form") or "-"))
    tags.append("%s:dagger:%d" % (kind, 1 if opts.get("dagger") else 0))
    tags.append("%s:data:%s" % (kind, "default" if opts.get("data") is None else "given"))
    return tags


def real_rule(spec, static=False):
    """The real box of a spec; `static` builds the rule boxes through the static constructors
    Diagram.fa(left, right) … Diagram.bx(left, middle, right) (biclosed.py:86-119) where the
    spec is composable (the classes otherwise)."""
    from discopy import biclosed as B
    k = spec[0]
    if k in GENERIC:
        return real_generic(spec)
    if static and k in ("fa", "ba"):
        return getattr(B.Diagram, k)(real_bty(spec[1]), real_bty(spec[2]))
    if static and k in ("fc", "bc") and spec[2] == spec[3]:
        return getattr(B.Diagram, k)(real_bty(spec[1]), real_bty(spec[2]), real_bty(spec[4]))
    if static and k == "fx" and spec[2] == spec[4]:       # FX(left << middle, right >> middle)
        return B.Diagram.fx(real_bty(spec[1]), real_bty(spec[2]), real_bty(spec[3]))
    if static and k == "bx" and spec[1] == spec[3]:       # BX(middle << left, middle >> right)
        return B.Diagram.bx(real_bty(spec[2]), real_bty(spec[1]), real_bty(spec[4]))
    if k == "fa":
        return B.FA(real_bty(spec[1]) << real_bty(spec[2]))
    if k == "ba":
        return B.BA(real_bty(spec[1]) >> real_bty(spec[2]))
    a, b, c, d = [real_bty(t) for t in spec[1:]]
    if k == "fc":
        return B.FC(a << b, c << d)
    if k == "bc":
        return B.BC(a >> b, c >> d)
    if k == "fx":
        return B.FX(a << b, c >> d)
    if k == "bx":
        return B.BX(a << b, c >> d)
    raise ValueError(k)


def tok_rule(spec):
    k = spec[0]
    if k in GENERIC:
        dagger = bool(len(spec) > 4 and spec[4].get("dagger"))
        if k == "word":
            return "word %s %s %s %d" % (tokname(spec[1]), tok_bty(spec[2]), tok_bty(spec[3]),
                                        1 if dagger else 0)
        return "%s %s %s %s" % ("dgen" if dagger else "gen", tokname(spec[1]), tok_bty(spec[2]),
                                tok_bty(spec[3]))
    return k + " " + " ".join(tok_bty(t) for t in spec[1:])


def rule_dom(spec):
    k = spec[0]
    if k in GENERIC:
        return list(spec[2])
    if k == "fa":
        return [("o", spec[1], spec[2])] + list(spec[2])
    if k == "ba":
        return list(spec[1]) + [("u", spec[1], spec[2])]
    a, b, c, d = spec[1:]
    if k == "fc":
        return [("o", a, b), ("o", c, d)]
    if k == "bc":
        return [("u", a, b), ("u", c, d)]
    return [("o", a, b), ("u", c, d)]


def rule_cod(spec):
    k = spec[0]
    if k in GENERIC:
        return list(spec[3])
    if k == "fa":
        return list(spec[1])
    if k == "ba":
        return list(spec[2])
    a, b, c, d = spec[1:]
    return {"fc": [("o", a, d)], "bc": [("u", a, d)], "fx": [("u", c, a)], "bx": [("o", d, b)]}[k]


# ---- the rules as the property states them, from the harness's own X, Y, Z
#
# Notation.  The library's documented convention is the one `ccg.cat2ty` reads categories with
# (ccg.py:39-42, result first): `X/Y` ("X over Y": looks for a Y on its right, then is an X) is
# `X << Y` = Over(X, Y), and `X\Y` ("looks for a Y on its LEFT, then is an X") is `Y >> X` =
# Under(Y, X) ("Y under X"); biclosed.Ty's docstring (biclosed.py:12-25) gives the grammar
# `ty >> ty | ty << ty` and Functor's doctest (biclosed.py:252-253) the images
# F(y >> x << y) = y.r @ x @ y.l.  The rule boxes' own docstrings only name the rule ("Forward
# crossed composition box"); the rules themselves are the standard CCG combinators:
#
#     FA  (>)    X/Y  Y    =>  X          BA  (<)    Y    X\Y  =>  X
#     FC  (>B)   X/Y  Y/Z  =>  X/Z        BC  (<B)   Y\Z  X\Y  =>  X\Z
#     FX  (>Bx)  X/Y  Y\Z  =>  X\Z        BX  (<Bx)  Y/Z  X\Y  =>  X/Z
#     Curry(f : A @ B -> C, n_wires=len(B))             : A -> C/B      (right, the default)
#     Curry(f : A @ B -> C, n_wires=len(A), left=True)  : B -> C\A = A >> C
#
# `stated_rule` writes premises and conclusion out in that notation — nothing here is read off
# the library or off rule_dom / rule_cod above (which serve the model's requests).

def _fw(x, y):
    """X/Y = x << y."""
    return [("o", list(x), list(y))]


def _bw(x, y):
    """X\\Y = y >> x."""
    return [("u", list(y), list(x))]


STATED = ["fa", "ba", "fc", "bc", "fx", "bx", "curry_r", "curry_l"]


def stated_rule(kind, X, Y, Z):
    """(box spec, premises, conclusion) of rule `kind` over the harness's X, Y, Z; premises is
    the list of the categories the rule consumes, left to right."""
    if kind == "fa":
        return ("fa", X, Y), [_fw(X, Y), list(Y)], list(X)
    if kind == "ba":
        return ("ba", Y, X), [list(Y), _bw(X, Y)], list(X)
    if kind == "fc":
        return ("fc", X, Y, Y, Z), [_fw(X, Y), _fw(Y, Z)], _fw(X, Z)
    if kind == "bc":
        return ("bc", Z, Y, Y, X), [_bw(Y, Z), _bw(X, Y)], _bw(X, Z)
    if kind == "fx":
        return ("fx", X, Y, Z, Y), [_fw(X, Y), _bw(Y, Z)], _bw(X, Z)
    if kind == "bx":
        return ("bx", Y, Z, Y, X), [_fw(Y, Z), _bw(X, Y)], _fw(X, Z)
    inner = dict(dom=list(X) + list(Y), steps=[(0, ("gen", "f", list(X) + list(Y), list(Z)))],
                 cod=list(Z))
    if kind == "curry_r":       # f : X @ Y -> Z   |->   X -> Z/Y
        return ("curry", inner, len(Y), False), [list(X)], _fw(Z, Y)
    if kind == "curry_l":       # f : X @ Y -> Z   |->   Y -> Z\X
        return ("curry", inner, len(X), True), [list(Y)], _bw(Z, X)
    raise ValueError(kind)


def xyz_of(spec):
    """The X, Y, Z a composable rule spec (kind, sides…) instantiates its rule with, or None
    (a spec whose premises do not fit the rule: the constructors refuse those)."""
    k = spec[0]
    if k == "fa":
        return spec[1], spec[2], []
    if k == "ba":
        return spec[2], spec[1], []
    if k not in ("fc", "bc", "fx", "bx"):
        return None
    a, b, c, d = spec[1:]
    if k == "fc":
        return (a, b, d) if b == c else None
    if k == "bc":
        return (d, b, a) if b == c else None
    if k == "fx":
        return (a, b, c) if b == d else None
    return (d, a, b) if a == c else None


def stated_types(spec):
    """(dom, cod) the rule's statement gives a composable rule spec, or None."""
    xyz = xyz_of(spec)
    if xyz is None:
        return None
    box, prem, concl = stated_rule(spec[0], *xyz)
    assert box == tuple(spec), (box, spec)
    return [o for p in prem for o in p], concl


def bty_image(t):
    """The rigid type a biclosed type denotes, as a list of (name, winding number), written from
    the definition of the translation (`x << y` |-> x @ y.l, `y >> x` |-> y.r @ x, atoms to
    themselves, tensor to tensor; `.l` / `.r` reverse the objects and lower / raise each winding
    number by one) — without calling the library."""
    out = []
    for o in t:
        if o[0] == "a":
            out.append((o[1], 0))
        elif o[0] == "o":
            out += bty_image(o[1]) + [(n, z - 1) for n, z in reversed(bty_image(o[2]))]
        else:
            out += [(n, z + 1) for n, z in reversed(bty_image(o[1]))] + bty_image(o[2])
    return out


XYZ_SHAPES = ["distinct_atoms", "x_eq_z", "x_eq_y", "y_eq_z", "all_equal", "nested",
              "nested_x_eq_z", "multi_object", "mixed", "one_empty"]


def gen_xyz(r, shape, depth):
    """X, Y, Z drawn independently of each other (and of any rule), in the named relation."""
    a = r.sample(ATOMS, 3)
    at = lambda n: [("a", n)]
    nested = lambda: gen_bty(r, r.randint(1, max(1, depth)), lens=(1,))
    multi = lambda: gen_bty(r, r.randint(0, 1), lens=(2, 2, 3))
    if shape == "distinct_atoms":
        return at(a[0]), at(a[1]), at(a[2])
    if shape == "x_eq_z":
        return at(a[0]), at(a[1]), at(a[0])
    if shape == "x_eq_y":
        return at(a[0]), at(a[0]), at(a[2])
    if shape == "y_eq_z":
        return at(a[0]), at(a[1]), at(a[1])
    if shape == "all_equal":
        return at(a[0]), at(a[0]), at(a[0])
    if shape == "nested":
        return nested(), nested(), nested()
    if shape == "nested_x_eq_z":
        x = nested()
        return x, nested(), list(x)
    if shape == "multi_object":
        return multi(), multi(), multi()
    if shape == "mixed":
        xyz = [at(a[0]), nested(), multi()]
        r.shuffle(xyz)
        return tuple(xyz)
    xyz = [gen_bty(r, r.randint(0, 1)) for _ in range(3)]       # "one_empty"
    xyz[r.randrange(3)] = []
    return tuple(xyz)


DERIV_POSITIONS = ["alone", "last", "last_tensored", "mid_box", "mid_fa", "mid_ba"]


def stated_derivation(r, kind, X, Y, Z, pos):
    """A derivation spec around the rule box of `stated_rule(kind, X, Y, Z)`, its types written
    from the rule's statement:
      alone          the box by itself
      last           one word per premise, then the box: closed, codomain = the conclusion
      last_tensored  the same between two further words that stay untouched (offset > 0)
      mid_box        ... then a generic box consuming the conclusion T : T -> U
      mid_fa         a word U/T to the left, the derivation of T, then FA:  U/T  T  =>  U
      mid_ba         the derivation of T, a word U\\T to its right, then BA:  T  U\\T  =>  U
    Returns (bd, box spec, premises, conclusion)."""
    box, prem, concl = stated_rule(kind, X, Y, Z)
    dom = [o for p in prem for o in p]
    if pos == "alone":
        return dict(dom=dom, steps=[(0, box)], cod=list(concl)), box, prem, concl
    U = gen_bty(r, r.randint(0, 1), lens=(1, 1, 2))
    left = gen_bty(r, 1, lens=(1,)) if pos == "last_tensored" else \
        _fw(U, concl) if pos == "mid_fa" else []
    right = gen_bty(r, 1, lens=(1, 2)) if pos == "last_tensored" else \
        _bw(U, concl) if pos == "mid_ba" else []
    steps, scan = [], []
    word = lambda k, cod: ("word", "w%d" % k, [], list(cod),
                           dict(cls=r.choice(["ccg", "ccg", "cfg", "ccg_sub"]),
                                dom_form=r.choice(["omit", "none", "empty"])))
    for k, cod in enumerate([left] + prem + [right]):
        if cod:                              # an empty category needs no word
            steps.append((len(scan), word(k, cod)))
            scan = scan + list(cod)
    steps.append((len(left), box))
    scan = left + list(concl) + right
    if pos == "mid_box":
        steps.append((0, gen_generic(r, "g", concl, U, word_share=0.3)))
        scan = list(U)
    elif pos == "mid_fa":
        steps.append((0, ("fa", U, list(concl))))
        scan = list(U)
    elif pos == "mid_ba":
        steps.append((0, ("ba", list(concl), U)))
        scan = list(U)
    return dict(dom=[], steps=steps, cod=scan), box, prem, concl


# biclosed diagrams: dict(dom, steps=[(off, box)], cod) with box a rule spec or
# ("curry", inner_bd, n, left)

def box_dom(box):
    if box[0] == "curry":
        _, inner, n, left = box
        return inner["dom"][n:] if left else inner["dom"][:len(inner["dom"]) - n]
    return rule_dom(box)


def box_cod(box):
    if box[0] == "curry":
        _, inner, n, left = box
        if left:
            return [("u", inner["dom"][:n], inner["cod"])]
        return [("o", inner["cod"], inner["dom"][len(inner["dom"]) - n:])]
    return rule_cod(box)


def real_curry(inner, n, left, form="class"):
    """Curry(diagram, n_wires=1, left=False), biclosed.py:133-158, called with every argument
    ("class"), through the static constructor ("static"), or with the arguments that are at
    their default left out ("defaults")."""
    from discopy import biclosed as B
    if form == "static":
        return B.Diagram.curry(inner, n, left)
    if form == "defaults":
        kw = {}
        if n != 1:
            kw["n_wires"] = n
        if left:
            kw["left"] = True
        return B.Curry(inner, **kw)
    return B.Curry(inner, n, left)


def real_box(box, variant=0):
    if box[0] == "curry":
        _, inner, n, left = box
        return real_curry(real_bd(inner), n, left, ("class", "static", "defaults")[variant % 3])
    return real_rule(box, static=variant % 2 == 1)


def real_bd(bd, ops=False):
    """The real diagram of a spec, through the constructor (boxes, offsets) or (`ops`) composed
    layer by layer with the library's own `>>` and `@`."""
    from discopy import biclosed as B
    if not ops:
        return B.Diagram(real_bty(bd["dom"]), real_bty(bd["cod"]),
                         [real_box(b) for _, b in bd["steps"]], [o for o, _ in bd["steps"]])
    scan = list(bd["dom"])
    d = B.Id(real_bty(scan))
    for i, (off, box) in enumerate(bd["steps"]):
        k = len(box_dom(box))
        d = d >> B.Id(real_bty(scan[:off])) @ real_box(box, i) @ B.Id(real_bty(scan[off + k:]))
        scan = scan[:off] + box_cod(box) + scan[off + k:]
    return d


def tok_bd(bd):
    out = "bid " + tok_bty(bd["dom"])
    for off, box in bd["steps"]:
        if box[0] == "curry":
            _, inner, n, left = box
            out = "bcurry %s %d %s %d %d" % (out, off, tok_bd(inner), n, 1 if left else 0)
        else:
            out = "bsnoc %s %d %s" % (out, off, tok_rule(box))
    return out


def gen_bd(r, depth, nsteps, dom=None, curry_ok=True):
    """A well-typed biclosed diagram grown from `dom`: generic boxes, rule boxes (each fed by a
    generic box producing its domain, or applied where the scan already shows its domain) and
    Curry boxes of smaller diagrams (1 <= n_wires <= len(inner.dom))."""
    if dom is None:
        dom = gen_bty(r, min(depth, 2), lens=(0, 1, 1, 2, 2, 3))
    scan = list(dom)
    steps = []
    for _ in range(nsteps):
        off = r.randint(0, len(scan))
        k = r.randint(0, min(2, len(scan) - off))
        p = r.random()
        if p < 0.3:
            # a generic box or a word (Word(name, cod, dom=scan[off:off+k]): empty domain for
            # k = 0, the rarely used non-empty one otherwise)
            box = gen_generic(r, "g%d" % r.randint(0, 4), scan[off:off + k],
                              gen_bty(r, min(depth, 2), lens=(0, 1, 1, 2)))
            steps.append((off, box))
        elif p < 0.8 or not curry_ok:
            rule = gen_rule(r, r.choice(RULES), max(1, depth), cap=10)
            feed = gen_generic(r, "h%d" % r.randint(0, 4), scan[off:off + k], rule_dom(rule),
                               word_share=0.35)
            steps.append((off, feed))
            scan = scan[:off] + rule_dom(rule) + scan[off + k:]
            box = rule
            steps.append((off, box))
            k = len(rule_dom(rule))
        else:
            n = r.randint(1, 2)
            left = r.random() < 0.5
            wires = gen_bty(r, min(depth, 1), lens=(1,)) if n == 1 else \
                gen_bty(r, min(depth, 1), lens=(2,))
            idom = wires + scan[off:off + k] if left else scan[off:off + k] + wires
            inner = gen_bd(r, depth - 1, r.randint(1, 2), dom=idom, curry_ok=depth > 1)
            box = ("curry", inner, n, left)
            steps.append((off, box))
        scan = scan[:off] + box_cod(box) + scan[off + k:]
    return dict(dom=list(dom), steps=steps, cod=scan)


def bd_kinds(bd, acc=None):
    acc = set() if acc is None else acc
    for _, box in bd["steps"]:
        acc.add(box[0])
        if box[0] == "curry":
            bd_kinds(box[1], acc)
    return acc


def bd_tags(bd, acc=None):
    acc = set() if acc is None else acc
    for _, box in bd["steps"]:
        if box[0] in GENERIC:
            acc.update(generic_tags(box))
        if box[0] == "curry":
            bd_tags(box[1], acc)
    return acc


def attempt(fn):
    """Run `fn()` once: ("ok", value) or ("err", exception)."""
    try:
        return "ok", fn()
    except Exception as exc:        # noqa: the exception is the observation
        return "err", exc


def ser_outcome(out):
    return "ok " + ser_diagram(out[1]) if out[0] == "ok" else "err " + err_class(out[1])


def b2r_oracle(out, src):
    """Type preservation, on the outcome `out = attempt(lambda: biclosed2rigid(src))`: a diagram
    is returned, it is well-typed, and its dom/cod are the images of `src.dom` / `src.cod`.
    Returns None or a description."""
    from discopy.biclosed import biclosed2rigid as F
    if out[0] == "err":
        exc = out[1]
        return "biclosed2rigid raises %s: %s" % (type(exc).__name__, str(exc)[:80])
    img = out[1]
    why = wf_failure(img)
    if why:
        return "image ill-typed: " + why
    try:
        fdom, fcod = F(src.dom), F(src.cod)
    except Exception as exc:
        return "biclosed2rigid raises %s on dom/cod: %s" % (type(exc).__name__, str(exc)[:80])
    # the library's own == and, independently of it, objects as (name, winding number) lists
    if img.dom != fdom or ty_key(img.dom) != ty_key(fdom):
        return "image dom != F(dom): %s != %s" % (img.dom, fdom)
    if img.cod != fcod or ty_key(img.cod) != ty_key(fcod):
        return "image cod != F(cod): %s != %s" % (img.cod, fcod)
    return boxes_preserved(img, src)


def stated_oracle(out, src, dom_spec, cod_spec):
    """The property on a diagram whose types the harness knows from the rules' statements
    (`dom_spec`, `cod_spec`: harness data, not read off `src`): `src` has exactly these types,
    its translation is returned, well-typed, and goes from the image of the stated domain to
    the image of the stated codomain — images computed by `bty_image`, not by the library — and
    (b2r_oracle) agrees with the library's own F(src.dom), F(src.cod).  None or a description."""
    for side, spec in (("dom", dom_spec), ("cod", cod_spec)):
        try:
            got = ser_bty(getattr(src, side))
        except Exception as exc:
            return "source %s unreadable: %s" % (side, type(exc).__name__)
        if got != tok_bty(spec):
            also = b2r_oracle(out, src)
            return "source %s is not what the rule says: %s, stated %s%s" % (
                side, getattr(src, side), real_bty(spec),
                "; and the translation is not type-preserving: " + also if also else "")
    if out[0] == "err":
        return "biclosed2rigid raises %s: %s" % (type(out[1]).__name__, str(out[1])[:80])
    img = out[1]
    why = wf_failure(img)
    if why:
        return "image ill-typed: " + why
    for side, spec in (("dom", dom_spec), ("cod", cod_spec)):
        got, want = [tuple(k) for k in ty_key(getattr(img, side))], bty_image(spec)
        if got != want:
            return "image %s != image of the stated %s: %s, stated %s |-> %s" % (
                side, side, getattr(img, side), real_bty(spec), want)
    return b2r_oracle(out, src)


def source_generics(d, acc=None):
    """The words / generic boxes of a biclosed diagram in order (those of curried diagrams
    included, the rule boxes left out)."""
    from discopy import biclosed as B
    acc = [] if acc is None else acc
    for box in d.boxes:
        if isinstance(box, B.Curry):
            source_generics(box.diagram, acc)
        elif not isinstance(box, (B.FA, B.BA, B.FC, B.BC, B.FX, B.BX)):
            acc.append(box)
    return acc


def boxes_preserved(img, src):
    """Type preservation box by box: the boxes of the image that are not cups, caps or swaps
    are as many as the words / generic boxes of the source, and the k-th goes from the image
    of the k-th one's domain to the image of its codomain."""
    from discopy import monoidal, rigid
    from discopy.biclosed import biclosed2rigid as F
    got = [b for b in img.boxes if not isinstance(b, (rigid.Cup, rigid.Cap, monoidal.Swap))]
    want = source_generics(src)
    if len(got) != len(want):
        return "image boxes: %d words/boxes in the image, %d in the source" % (len(got), len(want))
    for k, (g, w) in enumerate(zip(got, want)):
        if ty_key(g.dom) != ty_key(F(w.dom)) or ty_key(g.cod) != ty_key(F(w.cod)):
            return "image boxes: box %d (%s) is %s -> %s, the image of %r is %s -> %s" % (
                k, g.name, g.dom, g.cod, w, F(w.dom), F(w.cod))
    return None


def root_cause(box):
    """The first box (inner diagrams of Curry boxes first) whose own translation violates type
    preservation, as (signature, description), or None.  The two known findings get their
    narrow signatures only when the failing box is exactly of the listed shape."""
    from discopy.biclosed import biclosed2rigid as F
    if box[0] == "curry":
        _, inner, n, left = box
        for _, b in inner["steps"]:
            rc = root_cause(b)
            if rc:
                return rc
    built = attempt(lambda: real_box(box))
    if built[0] == "err":
        return ("b2r:%s:construction_raises" % box[0],
                "building the box raises %s: %s" % (type(built[1]).__name__, str(built[1])[:120]))
    rbox = built[1]
    why = b2r_oracle(attempt(lambda: F(rbox)), rbox)
    if why is None:
        return None
    sig = "b2r:%s:%s" % (box[0], why.split(":")[0][:40])
    if box[0] == "ba" and len(box[1]) != 1 and ("AxiomError" in why or why.startswith("image cod")):
        sig = SIG_F10
    if box[0] == "curry" and not box[3] and "AxiomError" in why:
        wires = rbox.cod.right
        if len(F(wires)) == 0 and len(F(real_bty(box[1]["dom"]))) > 0:
            sig = SIG_F14
    return sig, "%s; failing box: biclosed2rigid(%r)" % (why, rbox)


def diagram_failure(bd, d, out):
    """Oracle on a whole biclosed diagram `d` (spec `bd`, outcome `out` of its translation):
    None, or (signature, text) with the signature of the first box that is itself
    mistranslated."""
    why = b2r_oracle(out, d)
    if why is None:
        return None
    for _, b in bd["steps"]:
        rc = root_cause(b)
        if rc:
            return rc
    return "b2r:diagram:%s" % why.split(":")[0][:40], why


# ------------------------------------------------------------------ CCG

CATS = ["NP", "S", "N", "PP", "S[dcl]", "NP[nb]", "S[b]"]


def gen_cat(r, depth):
    if depth <= 0 or r.random() < 0.4:
        return r.choice(CATS)
    return (r.choice("/\\"), gen_cat(r, depth - 1), gen_cat(r, depth - 1))


def print_cat(c, top=True):
    if isinstance(c, str):
        return c
    s = print_cat(c[1], False) + c[0] + print_cat(c[2], False)
    return s if top else "(" + s + ")"


def cat_bty(c):
    """The biclosed type a category denotes (X/Y = X << Y, X\\Y = Y >> X, features dropped)."""
    if isinstance(c, str):
        name = c
        while "[" in name and "]" in name[name.index("["):]:
            i = name.index("[")
            j = name.index("]", i)
            name = name[:i] + name[j + 1:]
        return [("a", name)]
    if c[0] == "/":
        return [("o", cat_bty(c[1]), cat_bty(c[2]))]
    return [("u", cat_bty(c[2]), cat_bty(c[1]))]


def gen_tree(r, cat, depth, counter):
    p = r.random()
    if depth <= 0 or p < 0.3:
        counter[0] += 1
        return {"word": "w%d" % counter[0], "cat": print_cat(cat)}
    if p < 0.5:
        b = gen_cat(r, 1)
        return {"type": "fa", "cat": print_cat(cat), "children": [
            gen_tree(r, ("/", cat, b), depth - 1, counter), gen_tree(r, b, depth - 1, counter)]}
    if p < 0.7:
        b = gen_cat(r, 1)
        return {"type": "ba", "cat": print_cat(cat), "children": [
            gen_tree(r, b, depth - 1, counter), gen_tree(r, ("\\", cat, b), depth - 1, counter)]}
    if p < 0.85 and not isinstance(cat, str) and cat[0] == "/":
        b = gen_cat(r, 1)
        return {"type": "fc", "cat": print_cat(cat), "children": [
            gen_tree(r, ("/", cat[1], b), depth - 1, counter),
            gen_tree(r, ("/", b, cat[2]), depth - 1, counter)]}
    kids = [gen_tree(r, gen_cat(r, 1), depth - 1, counter) for _ in range(r.randint(1, 2))]
    return {"type": r.choice(["conj", "lex", "un", "bx"]), "cat": print_cat(cat), "children": kids}


def tok_tree(t):
    if "word" in t:
        return "word %s %s" % (tokname(t["word"]), t["cat"] or "<empty>")
    return "node %s %s %d %s" % (tokname(t["type"]), t["cat"] or "<empty>", len(t["children"]),
                                 " ".join(tok_tree(c) for c in t["children"]))


def tree_types(t, acc=None):
    acc = [] if acc is None else acc
    if "word" not in t:
        acc.append(t["type"])
        for c in t["children"]:
            tree_types(c, acc)
    return acc


# ------------------------------------------------------------------ CFG

SYMS = ["S", "NP", "VP", "N", "V", "A"]


def gen_grammar(r):
    """Productions (boxes rhs -> lhs) and words (boxes Ty() -> lhs) over a few symbols; most
    symbols get at least one terminal production so that derivations finish."""
    syms = SYMS[:r.randint(2, len(SYMS))]
    prods = []
    for k in range(r.randint(1, 5)):
        lhs = r.choice(syms)
        rhs = [r.choice(syms) for _ in range(r.randint(1, 3))]
        prods.append(dict(kind="g", name="R%d" % k, dom=[(s, 0) for s in rhs], cod=[(lhs, 0)],
                          dagger=False, data=None))
    for k, s in enumerate(syms):
        if r.random() < 0.9:
            for j in range(r.randint(1, 2)):
                prods.append(dict(kind="g", name="t%d_%d" % (k, j), dom=[], cod=[(s, 0)],
                                  dagger=False, data=None))
    if r.random() < 0.1 and prods:
        prods.append(dict(prods[0]))                       # an equal production twice
    if r.random() < 0.1:
        prods.append(dict(kind="g", name="wide", dom=[], cod=[(syms[0], 0), (syms[-1], 0)],
                          dagger=False, data=None))        # never applicable (cod of length 2)
    r.shuffle(prods)
    return syms, prods


def mty(spec):
    from discopy import monoidal
    return monoidal.Ty(*[n for n, _ in spec])


def real_prod(p):
    """The production of a spec; without a `cls`: terminal productions are cfg.Words, the others
    monoidal.Boxes."""
    if "cls" not in p and p["data"] is None and not p["dagger"]:
        from discopy import monoidal
        from discopy.grammar import cfg
        if not p["dom"] and p["name"].startswith("t"):
            return cfg.Word(p["name"], mty(p["cod"]))
        return monoidal.Box(p["name"], mty(p["dom"]), mty(p["cod"]))
    q = dict(p)
    q.setdefault("cls", "cfg.Word" if not p["dom"] and p["name"].startswith("t") else "monoidal.Box")
    return real_word(q, ty=mty)


PROD_CLASSES = ["monoidal.Box", "cfg.Word", "sub:monoidal.Box", "sub:cfg.Word"]


def decorate_prods(r, prods):
    """Redraws how the productions are given (class, data, _dagger, a subclass attribute); an
    equal production given twice stays an equal pair or becomes two that differ in data only."""
    out, tags = [], set()
    for p in prods:
        if r.random() < 0.4:
            out.append(p)
            tags.add("plain")
            continue
        cls = r.choice(PROD_CLASSES)
        data = r.choice(WORD_DATA) if r.random() < 0.6 else None
        dagger = r.random() < 0.15
        q = dict(p, cls=cls, data=data, dagger=dagger)
        if cls.startswith("sub:") and r.random() < 0.7:
            q["extra"] = r.choice([5, [1], "tag"])
            tags.add("extra_attr")
        out.append(q)
        tags.add("cls:" + cls)
        tags.add("data:" + ("none" if data is None else "falsy" if not data else "given"))
        if dagger:
            tags.add("dagger")
    if len(out) >= 2 and r.random() < 0.3:      # same name and type, different data
        k = r.randrange(len(out))
        out.append(dict(out[k], data=[9, 9] if out[k]["data"] != [9, 9] else None))
        tags.add("twin_differs_in_data_only")
    return out, sorted(tags)


class ShuffleRecorder:
    """Stands in for the `random` module inside discopy.grammar.cfg: the real `shuffle` of the
    case's own generator is applied, and the permutation it performed is recorded."""

    def __init__(self, rng):
        self.rng = rng
        self.perms = []

    def seed(self, s):
        self.rng.seed(s)

    def shuffle(self, lst):
        before = list(lst)
        self.rng.shuffle(lst)
        used, perm = set(), []
        for x in lst:
            k = next(i for i, y in enumerate(before) if y is x and i not in used)
            used.add(k)
            perm.append(k)
        self.perms.append(perm)


def cfg_oracle(sentence, start, prods):
    """A generated sentence is a derivation of the start symbol using only the given
    productions: closed (no open symbol left), rooted at `start`, well-typed, every box a
    production."""
    from discopy import monoidal
    why = wf_failure(sentence)
    if why:
        return "ill-typed sentence: " + why
    if sentence.dom != monoidal.Ty():
        return "open symbols left: dom = %s" % (sentence.dom,)
    if sentence.cod != start:
        return "root %s is not the start symbol %s" % (sentence.cod, start)
    for b in sentence.boxes:
        if not any(b == p for p in prods):
            return "box is not one of the productions: %s" % (b,)
        misses = [given_word_failure(b, p) for p in prods]
        if all(misses):                     # ... with its data, dagger flag, subclass attribute
            near = [m for m, p in zip(misses, prods) if b == p]
            return "production_not_the_given_one:%s: %r (data %r)" % (
                (near or misses)[0], b, getattr(b, "data", None))
    return None


# ------------------------------------------------------------------ the run

class Budget(BaseException):
    pass


def run(tier, seed, replay=None):
    rep = Report(PROP, tier, seed)
    thorough = tier == "thorough"
    rep.rule = (
        "eager/brute: word sequences built backwards from a reduction of the target (insert "
        "adjacent adjoint pairs, cut into words), 30%% perturbed, plus s-sentences and unit-sentences "
        "requested with the explicit empty target Ty() (eager_parse and brute_force; codomain is "
        "checked against the REQUESTED target); words / vocabulary / productions given as pregroup.Word, "
        "cfg.Word, rigid.Box, monoidal.Box or user subclasses, with and without data and _dagger "
        "(55-60%% of the cases redraw the classes; the result must consist of the given boxes, data "
        "included); non-trivial = a parse with >= 2 "
        "cups. cfg: random grammars over 2-6 symbols, recorded shuffles; non-trivial = >= 1 "
        "sentence with >= 3 productions. b2r_*: slash types nested to depth <= %d with composite "
        "(and, in a ~10%% share, empty) left and right sides; non-trivial = some side of the rule "
        "has an image of >= 2 wires. b2r_box: one word / generic box (ccg.Word, cfg.Word, biclosed.Box, "
        "user subclasses) with dom omitted / None / empty / atom / one slash type / several objects, "
        "data and _dagger at default and non-default values, alone and pre-/post-composed / tensored "
        "with other words and boxes; non-trivial = non-empty dom and >= 2 image wires in all. b2r: "
        "diagrams mixing rules, Curry, boxes and words (with and without dom), built by the "
        "constructor or with >> and @. ccg: derivation trees of depth <= %d over fa/ba/fc/other, "
        "tree2diagram's optional dom omitted / empty / atom / nested (leaf and inner trees); "
        "non-trivial = >= 2 rule nodes. b2r_deriv: 8 rules x 10 relations between independently drawn "
        "X, Y, Z (distinct atoms, X=Z, X=Y, Y=Z, all equal, nested, nested with X=Z, several objects, "
        "mixed, one empty) x 6 positions (alone, last, last between untouched words, then a box / FA / "
        "BA), each box checked against the rule as CCG states it and against harness-computed images; "
        "non-trivial = X != Z and a side with >= 2 image wires. Optional arguments of every front-end "
        "are drawn at default (omitted) and non-default values. Distinct by request token string."
        % (6 if thorough else 4, 5 if thorough else 3))
    rep.assumptions = [
        "atom / word / production names are generator-chosen identifiers (their Python repr is "
        "the identifier in quotes); CCG category strings use letters, digits, ()[]/\\ only",
        "Over/Under are built with << and >> (never biclosed.Ty(over) by hand); box `data` is not a "
        "string (cat.Box.__init__ recurses without bound on string data, outside this property)",
        "CFG.generate: `random.shuffle` is an arbitrary permutation (the model takes the recorded "
        "permutations as an oracle stream); the generator is consumed to the end",
    ]
    rep.lean = lean_obligations(PROP, thorough=thorough)
    rng = random.Random(seed)
    drv = Driver()
    try:
        rep.extra["model_variant"] = drv.ask("variant")
        scale = 8 if thorough else 1
        depth = 6 if thorough else 4
        stream_eager(rep, drv, random.Random(rng.getrandbits(64)), 1000 * scale, thorough)
        stream_brute(rep, drv, random.Random(rng.getrandbits(64)), 100 * scale, thorough)
        stream_cfg(rep, drv, random.Random(rng.getrandbits(64)), 500 * scale, thorough)
        stream_ty(rep, drv, random.Random(rng.getrandbits(64)), 400 * scale, depth)
        stream_rule(rep, drv, random.Random(rng.getrandbits(64)), 150 * scale, depth)
        stream_curry(rep, drv, random.Random(rng.getrandbits(64)), 500 * scale, depth)
        stream_bd(rep, drv, random.Random(rng.getrandbits(64)), 400 * scale, depth)
        stream_ccg(rep, drv, random.Random(rng.getrandbits(64)), 400 * scale, thorough)
        # drawn last: the streams above keep the cases they had before this one existed
        stream_box(rep, drv, random.Random(rng.getrandbits(64)), 400 * scale, depth)
        stream_deriv(rep, drv, random.Random(rng.getrandbits(64)), 4 if thorough else 1, depth)
    finally:
        drv.close()
    return rep.finish()


def ask_all(drv, lines):
    """One request at a time: `Driver.ask_many` pipelines 200 lines per write, which can fill
    both pipes (and block both processes) when request and answer lines are several kB long,
    as they are for nested slash types."""
    return [drv.ask(line) for line in lines]


def compare(rep, stream, case, line, real, model):
    if real != model:
        rep.disagree(stream, dict(case=case, line=line[:2000]), real[:2000], model[:2000])


# ---- eager_parse

def stream_eager(rep, drv, rng, n, thorough):
    from discopy.grammar.pregroup import eager_parse
    cases = [gen_sentence(rng, 10 if thorough else 6) for _ in range(n)]
    cases += fixed_sentences()
    # HOW the words are given (drawn after the sentences: their types stay what they were): the
    # class of each word (pregroup.Word, cfg.Word, rigid.Box, monoidal.Box, user subclasses) and
    # its optional data / _dagger; 45 % of the sentences are left as plain pregroup.Words
    deco_rng = random.Random(rng.getrandbits(64))
    decorated = []
    for ws, t, tags in cases:
        dtags = ["all_plain"]
        if ws and deco_rng.random() < 0.55:
            ws, dtags = decorate_words(deco_rng, ws)
        decorated.append((ws, t, tags, dtags))
    decorated += [(ws, t, ["fixed_classes"], dtags) for ws, t, dtags in fixed_word_classes()]
    word_tags = [c[3] for c in decorated]
    cases = [c[:3] for c in decorated]
    lines = ["eager_parse %s %s" % (tok_ty(t), " ".join([str(len(ws))] + [tok_box(w) for w in ws]))
             for ws, t, _ in cases]
    answers = ask_all(drv, lines)
    opt_rng = random.Random(rng.getrandbits(64))
    for (ws, t, tags), wtags, line, model in zip(cases, word_tags, lines, answers):
        try:
            words = [real_word(w) for w in ws]
        except Exception as exc:
            rep.fail("eager_parse:word_constructor_raises", dict(words=ws, target=t),
                     "building the words raised " + err_class(exc))
            continue
        target = rty(t)
        value = [None]

        # the default `target=Ty('s')` is left out in half of the cases where it is the target
        omit = t == [("s", 0)] and opt_rng.random() < 0.5

        def thunk():
            value[0] = eager_parse(*words) if omit else eager_parse(*words, target=target)
            return value[0]
        real = ser_result(thunk)
        compare(rep, "eager_parse", dict(words=ws, target=t, target_omitted=omit), line, real, model)
        rep.count("eager:gen:" + tags[0])
        for wt in wtags:
            rep.count("eager:words_given:" + wt)
        rep.count("eager:target_arg:" + ("omitted" if omit else "given"))
        rep.count("eager:result:" + (real.split(" ")[1] if real.startswith("err") else "ok"))
        rep.count("eager:words:%d" % len(ws))
        ncups = 0
        if value[0] is not None:
            ncups = len(value[0].boxes) - len(ws)
            why = eager_oracle(value[0], words, target)
            if why:
                rep.fail("eager_parse:" + sig_of(why), dict(words=ws, target=t), why)
        rep.count("eager:cups:%s" % (ncups if ncups < 6 else "6+"))
        rep.case(line, ncups >= 2)
        if ncups >= 2:
            rep.sample(dict(stream="eager_parse", request=line[:300], answer=real[:160]), cap=1)


# ---- brute_force

def stream_brute(rep, drv, rng, n, thorough):
    from discopy.grammar import pregroup
    orig = pregroup.eager_parse
    cases = []
    for _ in range(n):
        ws, t, _ = gen_sentence(rng, 3)
        vocab = ws[:3]
        if rng.random() < 0.5:       # a classic subject-verb(-object) vocabulary
            nn, ss = ("n", 0), ("s", 0)
            vocab = [word_spec("A", [nn]), word_spec("v", [("n", 1), ss, ("n", -1)]),
                     word_spec("j", [("n", 1), ss])][:rng.randint(1, 3)]
            t = [ss]
            q = rng.random()
            if q < 0.3:
                t = []          # explicit empty target over a vocabulary whose sentences are s-typed
            elif q < 0.45:      # a vocabulary with sentences of the empty type, empty target
                vocab = [word_spec("a", [nn]), word_spec("b", [("n", 1)]),
                         word_spec("c", [("n", 1), ss, ("s", 1)])][:rng.randint(2, 3)]
                t = []
        cases.append((vocab, t, rng.randint(1, 14 if thorough else 8), rng.randint(1, 5)))
    nn, ss = ("n", 0), ("s", 0)
    classic = [word_spec("A", [nn]), word_spec("v", [("n", 1), ss, ("n", -1)]),
               word_spec("j", [("n", 1), ss])]
    cases.append((classic, [], 8, 5))        # always run: s-typed sentences exist, Ty() requested
    cases.append((classic, [ss], 8, 5))
    cases.append(([word_spec("a", [nn]), word_spec("b", [("n", 1)])], [], 4, 3))
    opt_rng = random.Random(rng.getrandbits(64))
    # the members of the vocabulary given as every class of box, with and without data / _dagger
    deco_rng = random.Random(rng.getrandbits(64))
    decorated = []
    for vocab, t, k, take in cases:
        dtags = ["all_plain"]
        if vocab and deco_rng.random() < 0.6:
            vocab, dtags = decorate_words(deco_rng, vocab)
        decorated.append((vocab, t, k, take, dtags))
    for j, cls in enumerate(WORD_CLASSES):          # always run: the classic vocabulary per class
        other = WORD_CLASSES[(j + 2) % len(WORD_CLASSES)]
        vocab = [word_spec("A", [nn], cls=cls, data=[j]),
                 word_spec("v", [("n", 1), ss, ("n", -1)], cls=other, data={"w": j}, dagger=j % 2 == 1),
                 word_spec("j", [("n", 1), ss], cls=cls, extra=3 if cls.startswith("sub:") else None)]
        decorated.append((vocab, [ss], 8, 5, ["cls:" + cls, "cls:" + other, "data:given"]))
    try:
        for vocab, t, k, take, dtags in decorated:
            for wt in dtags:
                rep.count("brute:vocab_given:" + wt)
            try:
                words = [real_word(w) for w in vocab]
            except Exception as exc:
                rep.fail("brute_force:word_constructor_raises", dict(vocab=vocab, target=t),
                         "building the vocabulary raised " + err_class(exc))
                continue
            target = rty(t)
            omit = t == [("s", 0)] and opt_rng.random() < 0.5     # default target left out
            rep.count("brute:target_arg:" + ("omitted" if omit else "given"))
            calls = [0]
            budget = k * max(1, len(words))

            def counted(*ws, _calls=calls, _budget=budget, **kw):
                if _calls[0] >= _budget:
                    raise Budget()
                _calls[0] += 1
                return orig(*ws, **kw)
            pregroup.eager_parse = counted
            got = []
            try:
                for d in (pregroup.brute_force(*words) if omit else
                          pregroup.brute_force(*words, target=target)):
                    got.append(d)
                    if len(got) >= take:
                        break
            except Budget:
                pass
            except Exception as exc:
                got = "err " + err_class(exc)
            entries = -(-calls[0] // max(1, len(words)))
            if not words:
                entries = 1
            line = "brute_force %s %s %d %d" % (
                tok_ty(t), " ".join([str(len(vocab))] + [tok_box(w) for w in vocab]), entries, take)
            model = drv.ask(line)
            real = got if isinstance(got, str) else \
                "ok " + " ".join([str(len(got))] + [ser_diagram(d) for d in got])
            compare(rep, "brute_force", dict(vocab=vocab, target=t, entries=entries, take=take),
                    line, real, model)
            rep.count("brute:yields:%d" % (len(got) if not isinstance(got, str) else -1))
            rep.count("brute:target:%s" % ("empty" if not t else "s" if t == [("s", 0)] else "other"))
            nt = False
            if not isinstance(got, str):
                for d in got:
                    from discopy import rigid
                    nw = sum(1 for b in d.boxes if not isinstance(b, rigid.Cup))
                    ws = list(d.boxes[:nw])
                    why = eager_oracle(d, ws, target)
                    if why is None:
                        for w in ws:        # each word IS a member of the vocabulary (data too)
                            misses = [given_word_failure(w, v) for v in words]
                            if all(misses):
                                near = [m for m, v in zip(misses, words)
                                        if getattr(v, "name", None) == getattr(w, "name", 0)]
                                why = "word_not_in_vocabulary:%s: %r (data %r)" % (
                                    (near or misses or ["empty"])[0], w, getattr(w, "data", None))
                                break
                    if why:
                        rep.fail("brute_force:" + sig_of(why),
                                 dict(vocab=vocab, target=t), why)
                    nt = nt or len(d.boxes) - nw >= 2
            rep.case(line, nt)
            if nt:
                rep.sample(dict(stream="brute_force", request=line[:300], answer=real[:160]), cap=2)
    finally:
        pregroup.eager_parse = orig


# ---- CFG.generate

def stream_cfg(rep, drv, rng, n, thorough):
    from discopy import monoidal
    from discopy.grammar import cfg
    orig_random = cfg.random
    deco_rng = random.Random(rng.getrandbits(64))
    try:
        for _ in range(n):
            syms, prods = gen_grammar(rng)
            ptags = ["all_plain"]
            if deco_rng.random() < 0.5:
                prods, ptags = decorate_prods(deco_rng, prods)
            for pt in ptags:
                rep.count("cfg:productions_given:" + pt)
            start = [(rng.choice(syms), 0)] if rng.random() < 0.95 else []
            max_sentences = rng.choice([None, 0, 1, 2, 3, 5, -1] if rng.random() < 0.3 else [1, 2, 3, 5])
            max_depth = rng.choice([0, 1, 2, 3, 4, 6, 6, 8, 8, 12 if thorough else 10])
            max_iter = rng.choice([0, 1, 3, 10, 10, 20, 40 if thorough else 20])
            remove_dup = rng.random() < 0.4
            not_twice = [p for p in prods if rng.random() < 0.2] if rng.random() < 0.4 else []
            case_seed = rng.getrandbits(32)
            rec = ShuffleRecorder(random.Random(case_seed))
            cfg.random = rec
            try:
                rprods = [real_prod(p) for p in prods]
            except Exception as exc:
                rep.fail("cfg_generate:production_constructor_raises", dict(productions=prods),
                         "building the productions raised " + err_class(exc))
                continue
            rnot = [rprods[prods.index(p)] for p in not_twice]
            rstart = monoidal.Ty(*[s for s, _ in start])
            # optional arguments at their defaults are left out in a share of the cases
            # (max_iter=100, remove_duplicates=False, not_twice=None, seed=None: the recorder's
            # generator is seeded with case_seed either way)
            kw = dict(max_iter=max_iter, remove_duplicates=remove_dup, not_twice=rnot or None,
                      seed=case_seed)
            if rng.random() < 0.12:
                max_iter = 100
                del kw["max_iter"]
            if not remove_dup and rng.random() < 0.5:
                del kw["remove_duplicates"]
            if not rnot and rng.random() < 0.5:
                del kw["not_twice"]
            elif not rnot and rng.random() < 0.5:
                kw["not_twice"] = []
            if rng.random() < 0.3:
                del kw["seed"]
            positional = rng.random() < 0.2 and "max_iter" in kw
            rep.count("cfg:kwargs:" + ("positional" if positional else
                                       ",".join(sorted(kw)) or "none"))
            got = None
            try:
                if positional:
                    got = list(cfg.CFG(*rprods).generate(
                        rstart, max_sentences, max_depth, kw["max_iter"],
                        kw.get("remove_duplicates", False), kw.get("not_twice"), kw.get("seed")))
                else:
                    got = list(cfg.CFG(*rprods).generate(rstart, max_sentences, max_depth, **kw))
                real = "ok " + " ".join([str(len(got))] + [ser_diagram(d) for d in got])
            except Exception as exc:
                real = "err " + err_class(exc)
            boxes = lambda bs: " ".join([str(len(bs))] + [tok_box(b) for b in bs])
            line = "cfg_generate %s %d %d %d %d %s %s %s" % (
                tok_ty(start), max_sentences or 0, max_depth, max_iter, 1 if remove_dup else 0,
                boxes(not_twice), boxes(prods),
                " ".join([str(len(rec.perms))] +
                         [" ".join([str(len(p))] + [str(i) for i in p]) for p in rec.perms]))
            model = drv.ask(line)
            case = dict(productions=prods, start=start, max_sentences=max_sentences,
                        max_depth=max_depth, max_iter=max_iter, remove_duplicates=remove_dup,
                        not_twice=[p["name"] for p in not_twice], seed=case_seed)
            compare(rep, "cfg_generate", case, line, real, model)
            nt = False
            for d in got or []:
                why = cfg_oracle(d, rstart, rprods)
                if why is None and len(d.boxes) >= max_depth:
                    why = "sentence deeper than max_depth"
                if why:
                    rep.fail("cfg_generate:" + sig_of(why).replace("production_not_the_given_one", "not_given"), case, why)
                nt = nt or len(d.boxes) >= 3
            rep.count("cfg:sentences:%s" % (len(got) if got is not None and len(got) < 5 else
                                             "5+" if got is not None else "err"))
            rep.count("cfg:shuffles:%s" % ("0" if not rec.perms else "1-9" if len(rec.perms) < 10
                                           else "10+"))
            rep.case(line, nt)
            if nt:
                rep.sample(dict(stream="cfg_generate", request=line[:300], answer=real[:160]), cap=3)
    finally:
        cfg.random = orig_random


# ---- object map

def stream_ty(rep, drv, rng, n, depth):
    from discopy.biclosed import biclosed2rigid as F
    cases = [gen_bty(rng, rng.randint(0, depth), empties=rng.random() < 0.1) for _ in range(n)]
    lines = ["b2r_ty " + tok_bty(t) for t in cases]
    for t, line, model in zip(cases, lines, ask_all(drv, lines)):
        try:
            real = "ok " + ser_ty(F(real_bty(t)))
        except Exception as exc:
            real = "err " + err_class(exc)
        compare(rep, "b2r_ty", t, line, real, model)
        rep.count("b2r_ty:depth:%d" % bty_depth(t))
        rep.case(line, bty_depth(t) >= 2)


# ---- rule boxes

def stream_rule(rep, drv, rng, n_per_rule, depth):
    from discopy.biclosed import biclosed2rigid as F
    cases = []
    for kind in RULES:
        for k in range(n_per_rule):
            malformed = k % 10 == 9
            cases.append(gen_rule(rng, kind, rng.randint(1, depth), empties=malformed,
                                  bad=malformed and rng.random() < 0.5))
    # the minimal witnesses of F10 always run
    cases.append(("ba", [("a", "x"), ("a", "y")], [("a", "z")]))
    cases.append(("ba", [], [("a", "z")]))
    sig_lines = ["rule_sig " + tok_rule(c) for c in cases]
    img_lines = ["b2r_rule " + tok_rule(c) for c in cases]
    sigs, imgs = ask_all(drv, sig_lines), ask_all(drv, img_lines)
    for c, sl, il, msig, mimg in zip(cases, sig_lines, img_lines, sigs, imgs):
        kind = c[0]
        box = None
        static = rng.random() < 0.4       # through Diagram.fa … Diagram.bx instead of the class
        try:
            box = real_rule(c, static=static)
            rsig = "ok %s %s" % (ser_bty(box.dom), ser_bty(box.cod))
        except Exception as exc:
            rsig = "err " + err_class(exc)
        compare(rep, "rule_sig", dict(rule=c, static=static), sl, rsig, msig)
        rep.count("rule:built_by:" + ("static_constructor" if static else "class"))
        stated = stated_types(c)
        if stated and box is None:
            rep.fail("rule:%s:refused_although_composable" % kind, dict(rule=c, static=static),
                     "the constructor refuses premises that fit the rule: " + rsig)
        elif stated and rsig != "ok %s %s" % (tok_bty(stated[0]), tok_bty(stated[1])):
            side = "dom" if ser_bty(box.dom) != tok_bty(stated[0]) else "cod"
            rep.fail("rule:%s:%s_is_not_what_the_rule_says" % (kind, side),
                     dict(rule=c, static=static),
                     "%r : %s -> %s, the rule says %s -> %s" % (
                         box, box.dom, box.cod, real_bty(stated[0]), real_bty(stated[1])))
        if stated:
            X, _, Z = xyz_of(c)
            rep.count("rule:%s:stated:%s" % (kind, "two_sided" if kind in ("fa", "ba") else
                                             "X=Z" if X == Z else "X!=Z"))
        sides = [bty_img_len(t) for t in c[1:]]
        nontrivial = max(sides) >= 2
        rep.count("rule:%s:%s" % (kind, "refused" if box is None else
                                  "max_side_image_%s" % (max(sides) if max(sides) < 4 else "4+")))
        rep.case(il, nontrivial and box is not None)
        if box is None:
            compare(rep, "b2r_rule", c, il, rsig, mimg)
            continue
        out = attempt(lambda: F(box))
        real = ser_outcome(out)
        compare(rep, "b2r_rule", c, il, real, mimg)
        rc = root_cause(c) if b2r_oracle(out, box) else None
        if rc:
            rep.fail(rc[0], dict(rule=c), rc[1])
        elif nontrivial:
            rep.sample(dict(stream="b2r_rule", request=il[:300], answer=real[:160]), cap=4)


# ---- Curry boxes

def stream_curry(rep, drv, rng, n, depth):
    from discopy import biclosed as B
    F = B.biclosed2rigid
    cases = []
    for k in range(n):
        malformed = k % 10 == 9
        while True:
            if rng.random() < 0.6:
                dom = gen_bty(rng, rng.randint(0, depth - 1), empties=malformed, lens=(1, 2, 2, 3, 4))
                cod = gen_bty(rng, rng.randint(0, depth - 1), empties=malformed)
                inner = dict(dom=dom, steps=[(0, ("gen", "f", dom, cod))], cod=cod)
            else:
                inner = gen_bd(rng, min(depth, 3), rng.randint(1, 3))
            if bty_img_len(inner["dom"]) + bty_img_len(inner["cod"]) <= 18:
                break
        ln = len(inner["dom"])
        nw = rng.randint(1, max(1, ln))
        if malformed:
            nw = rng.choice([0, 0, -1, -ln, -ln - 1, ln + 1, ln + 3])
        cases.append((inner, nw, rng.random() < 0.5))
    x, y, z = [("a", "x")], [("a", "y")], [("a", "z")]
    cases.append((dict(dom=x + y, steps=[(0, ("gen", "f", x + y, z))], cod=z), 0, False))
    sig_lines = ["curry_sig %s %d %d" % (tok_bd(i), nw, 1 if l else 0) for i, nw, l in cases]
    img_lines = ["b2r_curry %s %d %d" % (tok_bd(i), nw, 1 if l else 0) for i, nw, l in cases]
    sigs, imgs = ask_all(drv, sig_lines), ask_all(drv, img_lines)
    for (inner, nw, left), sl, il, msig, mimg in zip(cases, sig_lines, img_lines, sigs, imgs):
        ops = rng.random() < 0.3
        form = rng.choice(["class", "static", "defaults"])
        built = attempt(lambda: real_curry(real_bd(inner, ops=ops), nw, left, form))
        rep.count("curry:built_by:" + form)
        if built[0] == "err":
            # the inner diagram is well-typed by construction of the spec, and Curry's constructor
            # only slices: a refusal means some box inside does not have the type its rule says
            rc = None
            for _, b in inner["steps"]:
                rc = rc or root_cause(b)
            rep.fail(rc[0] if rc else "b2r:curry:construction_raises",
                     dict(inner=inner, n_wires=nw, left=left, ops=ops),
                     "building Curry(diagram, %d, %s) raises %s: %s%s" % (
                         nw, left, type(built[1]).__name__, str(built[1])[:120],
                         "; " + rc[1] if rc else ""))
            continue
        box = built[1]
        for tag in bd_tags(inner):
            rep.count("curry:inner:" + tag)
        rsig = "ok %s %s" % (ser_bty(box.dom), ser_bty(box.cod))
        compare(rep, "curry_sig", dict(inner=inner, n=nw, left=left), sl, rsig, msig)
        out = attempt(lambda: F(box))
        real = ser_outcome(out)
        compare(rep, "b2r_curry", dict(inner=inner, n=nw, left=left), il, real, mimg)
        wires = box.cod.left if left else box.cod.right
        nimg = attempt(lambda: len(F(wires)))
        nimg = nimg[1] if nimg[0] == "ok" else -1
        rep.count("curry:%s:n_wires_%s:image_%s" % (
            "left" if left else "right",
            "neg" if nw < 0 else "0" if nw == 0 else "in_range" if nw <= len(inner["dom"]) else "over",
            nimg if nimg < 3 else "3+"))
        rep.case(il, nimg >= 2)
        rc = root_cause(("curry", inner, nw, left)) if b2r_oracle(out, box) else None
        if rc:
            rep.fail(rc[0], dict(inner=inner, n_wires=nw, left=left), rc[1])


# ---- one word / generic box, every optional constructor argument

def gen_box_dom(r, mode, depth):
    if mode == 0:
        return []
    if mode == 1:
        return [("a", r.choice(ATOMS))]
    if mode == 2:
        return gen_bty(r, r.randint(1, depth), lens=(1,))
    return gen_bty(r, r.randint(0, depth), empties=r.random() < 0.15, lens=(2, 2, 3))


CONTEXTS = ["alone", "alone", "diagram", "pre", "post", "tensor", "between"]


def stream_box(rep, drv, rng, n, depth):
    """One word / generic box `name : dom -> cod` of every class, with every optional argument
    at default and non-default values; translated on its own (`F(box)`) and in a context:
    "diagram" wraps it in a one-box Diagram, "pre" feeds its domain from a generic box, "post"
    consumes its codomain, "tensor" puts a word on each side, "between" does pre and post."""
    from discopy.biclosed import biclosed2rigid as F
    cases = []
    for k in range(n):
        while True:
            dom = gen_box_dom(rng, k % 4, min(depth, 3))
            cod = gen_bty(rng, rng.randint(0, min(depth, 3)), lens=(0, 1, 1, 1, 2, 3))
            if bty_img_len(dom) + bty_img_len(cod) <= 16:
                break
        spec = gen_generic(rng, "w%d" % rng.randint(0, 9), dom, cod, word_share=0.7)
        ctx = rng.choice(CONTEXTS)
        other = lambda nm, a, b: gen_generic(rng, nm, a, b, word_share=0.5)
        if ctx == "alone":
            bd = None
        elif ctx == "diagram":
            bd = dict(dom=dom, steps=[(0, spec)], cod=cod)
        elif ctx == "pre":
            src = gen_bty(rng, 1, lens=(0, 1, 2))
            bd = dict(dom=src, steps=[(0, other("p", src, dom)), (0, spec)], cod=cod)
        elif ctx == "post":
            tgt = gen_bty(rng, 1, lens=(0, 1, 2))
            bd = dict(dom=dom, steps=[(0, spec), (0, other("q", cod, tgt))], cod=tgt)
        elif ctx == "between":
            src, tgt = gen_bty(rng, 1, lens=(0, 1, 2)), gen_bty(rng, 1, lens=(0, 1, 2))
            bd = dict(dom=src, steps=[(0, other("p", src, dom)), (0, spec), (0, other("q", cod, tgt))],
                      cod=tgt)
        else:
            l1, l2 = gen_bty(rng, 1, lens=(0, 1)), gen_bty(rng, 1, lens=(1, 2))
            r1, r2 = gen_bty(rng, 1, lens=(0, 1)), gen_bty(rng, 1, lens=(1,))
            bd = dict(dom=l1 + dom + r1, cod=l2 + cod + r2, steps=[
                (0, other("l", l1, l2)), (len(l2), spec), (len(l2) + len(cod), other("r", r1, r2))])
        cases.append((spec, ctx, bd))
    # pinned: a word whose domain is an atom / a nested slash type, alone and after a box
    x, y, z = [("a", "x")], [("a", "y")], [("a", "z")]
    for dom in (x, [("u", x, y)], [("o", [("u", x, y)], z)] + y):
        w = ("word", "quickly", dom, [("u", x, y)], dict(cls="ccg", dom_form="kw"))
        cases.append((w, "alone", None))
        cases.append((w, "pre", dict(dom=z, steps=[(0, ("gen", "g", z, dom, {})), (0, w)],
                                     cod=[("u", x, y)])))
    lines = [("b2r_rule " + tok_rule(sp)) if bd is None else ("b2r " + tok_bd(bd))
             for sp, _, bd in cases]
    for (spec, ctx, bd), line, model in zip(cases, lines, ask_all(drv, lines)):
        case = dict(box=spec, context=ctx, diagram=bd)
        for tag in generic_tags(spec):
            rep.count("box:" + tag)
        rep.count("box:context:" + ctx)
        try:
            src = real_generic(spec) if bd is None else real_bd(bd, ops=ctx != "diagram")
        except Exception as exc:
            rep.fail("b2r_box:construction_raises", case,
                     "building the box raises %s: %s" % (type(exc).__name__, str(exc)[:80]))
            continue
        # the constructor keeps what it was given (cfg.py:46-54): the spec's dom and cod
        if ser_bty(src.dom) != tok_bty_ser(bd["dom"] if bd else spec[2]) or \
                ser_bty(src.cod) != tok_bty_ser(bd["cod"] if bd else spec[3]):
            rep.disagree("box_sig", case, "%s -> %s" % (ser_bty(src.dom), ser_bty(src.cod)),
                         "%s -> %s" % (tok_bty_ser((bd or {}).get("dom", spec[2])),
                                       tok_bty_ser((bd or {}).get("cod", spec[3]))))
        out = attempt(lambda: F(src))
        real = ser_outcome(out)
        compare(rep, "b2r_box", case, line, real, model)
        nontrivial = bool(spec[2]) and bty_img_len(spec[2]) + bty_img_len(spec[3]) >= 2
        rep.case(line, nontrivial)
        if bd is None:
            rc = root_cause(spec) if b2r_oracle(out, src) else None
        else:
            rc = diagram_failure(bd, src, out)
        if rc:
            rep.fail(rc[0], case, rc[1])
        elif nontrivial and spec[0] == "word":
            rep.sample(dict(stream="b2r_box", request=line[:300], answer=real[:160]), cap=3)


# ---- every rule over independent X, Y, Z: alone, last, mid-derivation

def stream_deriv(rep, drv, rng, reps, depth):
    """Every rule (FA, BA, FC, BC, FX, BX, right and left Curry) instantiated with X, Y, Z the
    harness draws independently (all different, pairwise equal, all equal, nested slash types,
    several objects, an empty one), the box alone, as the last box of a derivation from words,
    and in the middle of one that goes on (a box, a forward, a backward application consuming
    the rule's conclusion).  The oracle is `stated_oracle`: every type is the one the rule's
    statement gives, and the translation goes between their independently computed images."""
    from discopy.biclosed import biclosed2rigid as F
    cases = []
    for kind in STATED:
        for shape in XYZ_SHAPES:
            for pos in DERIV_POSITIONS:
                for _ in range(reps):
                    for _try in range(200):
                        X, Y, Z = gen_xyz(rng, shape, min(depth, 2))
                        if kind == "curry_r" and not Y or kind == "curry_l" and not X:
                            continue        # n_wires = 0 is not "curry no wire" (stream_curry)
                        if sum(bty_img_len(t) for t in (X, Y, Z)) <= 9:
                            break
                    else:
                        continue
                    bd, box, prem, concl = stated_derivation(rng, kind, X, Y, Z, pos)
                    cases.append((kind, shape, pos, (X, Y, Z), bd, box, (prem, concl),
                                  rng.randrange(6), rng.random() < 0.5))
    sig_lines = ["bd_sig " + tok_bd(c[4]) for c in cases]
    img_lines = ["b2r " + tok_bd(c[4]) for c in cases]
    sigs, imgs = ask_all(drv, sig_lines), ask_all(drv, img_lines)
    for (kind, shape, pos, xyz, bd, box, (prem, concl), variant, ops), sl, il, msig, mimg in zip(
            cases, sig_lines, img_lines, sigs, imgs):
        X, Y, Z = xyz
        case = dict(rule=kind, X=X, Y=Y, Z=Z, position=pos, diagram=bd,
                    built_by=("operators" if ops else "constructor") if pos != "alone" else
                    "box variant %d" % variant,
                    reads="X=%s Y=%s Z=%s" % tuple(attempt(lambda t=t: str(real_bty(t)))[1]
                                                   for t in xyz))
        rep.count("deriv:%s:%s" % (kind, pos))
        rep.count("deriv:%s:xyz:%s" % (kind, shape))
        rep.count("deriv:xyz:%s" % ("X=Z" if X == Z else "X!=Z"))
        # the rule box itself has the type its rule says
        rbox = attempt(lambda: real_box(box, variant))
        box_dom = [o for p in prem for o in p]       # the premises, left to right
        if rbox[0] == "err":
            rep.fail("deriv:%s:box_refused" % kind, case,
                     "the rule box is refused although its premises fit the rule: %s: %s" % (
                         type(rbox[1]).__name__, str(rbox[1])[:120]))
            rep.case(il, False)
            continue
        for side, spec in (("dom", box_dom), ("cod", concl)):
            if ser_bty(getattr(rbox[1], side)) != tok_bty(spec):
                rep.fail("deriv:%s:box_%s_is_not_what_the_rule_says" % (kind, side), case,
                         "%r : %s -> %s, the rule says %s -> %s" % (
                             rbox[1], rbox[1].dom, rbox[1].cod, real_bty(box_dom), real_bty(concl)))
                break
        # the derivation around it
        built = rbox if pos == "alone" else attempt(lambda: real_bd(bd, ops=ops))
        if built[0] == "err":
            compare(rep, "bd_sig", case, sl, "err " + err_class(built[1]), msig)
            rep.fail("deriv:%s:%s:construction_raises" % (kind, "mid" if pos.startswith("mid")
                                                           else pos), case,
                     "building the derivation (types as the rules state them) raises %s: %s" % (
                         type(built[1]).__name__, str(built[1])[:160]))
            rep.case(il, False)
            continue
        src = built[1]
        rsig = attempt(lambda: "ok %s %s" % (ser_bty(src.dom), ser_bty(src.cod)))
        compare(rep, "bd_sig", case, sl, rsig[1] if rsig[0] == "ok" else "err " + err_class(rsig[1]),
                msig)
        out = attempt(lambda: F(src))
        real = ser_outcome(out)
        compare(rep, "b2r_deriv", case, il, real, mimg)
        nontrivial = X != Z and max(bty_img_len(t) for t in xyz) >= 2
        rep.case(il, nontrivial)
        why = stated_oracle(out, src, bd["dom"], bd["cod"])
        if why:
            rep.fail("deriv:%s:%s:%s" % (kind, "mid" if pos.startswith("mid") else pos,
                                         why.split(":")[0][:48]), case, why)
        elif nontrivial and kind in ("fx", "bx"):
            rep.sample(dict(stream="b2r_deriv", rule=kind, position=pos, request=il[:300],
                            answer=real[:160]), cap=6)


def tok_bty_ser(t):
    """The tokens `ser_bty` gives the real type of a spec."""
    return tok_bty(t)


# ---- composite biclosed diagrams

def stream_bd(rep, drv, rng, n, depth):
    from discopy.biclosed import biclosed2rigid as F
    cases = [gen_bd(rng, rng.randint(1, min(depth, 3)), rng.randint(1, 4)) for _ in range(n)]
    sig_lines = ["bd_sig " + tok_bd(c) for c in cases]
    img_lines = ["b2r " + tok_bd(c) for c in cases]
    sigs, imgs = ask_all(drv, sig_lines), ask_all(drv, img_lines)
    for c, sl, il, msig, mimg in zip(cases, sig_lines, img_lines, sigs, imgs):
        ops = rng.random() < 0.5
        try:
            d = real_bd(c, ops=ops)
        except Exception as exc:
            # the spec is well-typed by construction: a refusal means a box inside does not have
            # the type its rule says — name the first such box
            rc = None
            for _, b in c["steps"]:
                rc = rc or root_cause(b)
            rep.fail(rc[0] if rc else "b2r:diagram:construction_raises", dict(diagram=c, ops=ops),
                     "building the diagram raises %s: %s%s" % (
                         type(exc).__name__, str(exc)[:80], "; " + rc[1] if rc else ""))
            continue
        rsig = "ok %s %s" % (ser_bty(d.dom), ser_bty(d.cod))
        compare(rep, "bd_sig", c, sl, rsig, msig)
        out = attempt(lambda: F(d))
        real = ser_outcome(out)
        compare(rep, "b2r", c, il, real, mimg)
        kinds = bd_kinds(c)
        for k in kinds:
            rep.count("bd:box:" + k)
        for tag in bd_tags(c):
            rep.count("bd:" + tag)
        rep.count("bd:built_by:" + ("operators" if ops else "constructor"))
        rep.case(il, len(kinds - {"gen"}) >= 1 and len(d.boxes) >= 3)
        rc = diagram_failure(c, d, out)
        if rc:
            rep.fail(rc[0], dict(diagram=c), rc[1])


# ---- CCG

def stream_ccg(rep, drv, rng, n, thorough):
    from discopy.biclosed import biclosed2rigid as F
    from discopy.grammar import ccg
    raw = lambda s: "'" + str(s) + "'"
    # cat2ty
    cats = [gen_cat(rng, rng.randint(0, 4)) for _ in range(n)]
    strings = [print_cat(c) for c in cats]
    expect = [tok_bty_raw(cat_bty(c)) for c in cats]
    junk = ["", "/NP", "NP/", "(S\\NP", "S)/NP", "((S/NP))", "(S/NP)(N)", "S[a[b]c", "S[a", "S]b[c]",
            "A/B/C", "A\\B/C", "A/B\\C", "[x]", "(A/B)/(C\\D)", "((A/B)/C)\\D"]
    for _ in range(n // 5):
        s = "".join(rng.choice(["S", "N", "P", "(", ")", "/", "\\", "[", "]", "x"])
                    for _ in range(rng.randint(0, 8)))
        junk.append(s)
    strings += junk
    expect += [None] * len(junk)
    lines = ["cat2ty " + (s or "<empty>") for s in strings]
    for s, exp, line, model in zip(strings, expect, lines, ask_all(drv, lines)):
        try:
            real = "ok " + ser_bty(ccg.cat2ty(s), raw)
        except Exception as exc:
            real = "err " + err_class(exc)
        compare(rep, "cat2ty", s, line, real, model)
        rep.count("cat2ty:" + ("generated" if exp is not None else "junk:" + real.split(" ")[0]))
        rep.case(line, s.count("/") + s.count("\\") >= 2)
        if exp is not None and real != "ok " + exp:
            rep.fail("cat2ty:roundtrip", s, "cat2ty(%r) = %s, expected %s" % (s, real, exp))
    # tree2diagram
    trees = []
    for _ in range(n):
        root = gen_cat(rng, rng.randint(0, 2))
        trees.append((gen_tree(rng, root, rng.randint(1, 5 if thorough else 3), [0]), root))
    # the optional `dom` of tree2diagram (ccg.py:46): omitted, the explicit empty type, an atom, a
    # nested slash type, several objects
    doms = []
    for _ in trees:
        q = rng.random()
        doms.append(None if q < 0.45 else [] if q < 0.55 else [("a", rng.choice(ATOMS))] if q < 0.7
                    else gen_bty(rng, rng.randint(1, 3)))
    lines = ["tree2diagram %s %s" % (tok_bty(x or []), tok_tree(t)) for (t, _), x in zip(trees, doms)]
    for (t, root), dom, line, model in zip(trees, doms, lines, ask_all(drv, lines)):
        d = None
        leaf = "word" in t
        rep.count("ccg:dom_arg:%s:%s" % ("leaf" if leaf else "inner_node", "omitted" if dom is None else
                                      "empty" if not dom else "nonempty"))
        t = dict(t, **{"dom argument": dom}) if dom is not None else t     # for the report only
        try:
            d = ccg.tree2diagram(t) if dom is None else ccg.tree2diagram(t, dom=real_bty(dom))
            out = attempt(lambda: F(d))
            real = "ok %s %s | %s" % (ser_bty(d.dom), ser_bty(d.cod), ser_outcome(out))
        except Exception as exc:
            real = "err " + err_class(exc)
        compare(rep, "tree2diagram", t, line, real, model)
        types = tree_types(t)
        for k in set(types):
            rep.count("ccg:node:" + k)
        if leaf:
            rep.count("ccg:node:none(leaf)")
        rules = [k for k in types if k in ("fa", "ba", "fc")]
        rep.case(line, len(rules) >= 2)
        if d is None:
            rep.fail("tree2diagram:raises", t, real)
            continue
        if len(rules) >= 2:
            rep.sample(dict(stream="tree2diagram", request=line[:300], answer=real[:160]), cap=4)
        why = b2r_oracle(out, d)
        if why is None and not dom and len(d.dom) != 0:
            why = "derivation has a non-empty domain"
        if why is None and ser_bty(d.cod, raw) != tok_bty_raw(cat_bty(root)):
            why = "derivation codomain %s is not the root category %s" % (d.cod, t["cat"])
        if why:
            rep.fail("tree2diagram:%s" % why.split(":")[0][:40], t, why)


def tok_bty_raw(t):
    out = [str(len(t))]
    for o in t:
        if o[0] == "a":
            out.append("a '%s'" % o[1])
        else:
            out.append("%s %s %s" % (o[0], tok_bty_raw(o[1]), tok_bty_raw(o[2])))
    return " ".join(out)
